"""PyVC core: paths, decisions, symbolic values, obligations.

Execution model: *path replay*.  A target is executed from its entry once per path.  Every
symbolic choice (truth value of a symbolic bool, None-or-value of an optional, which exception
class a may-raise call raises, ...) asks the current Path to `decide`.  The path follows a
prescribed prefix of decisions and, once past it, takes the first feasible option and registers
the other feasible options as pending prefixes.  The explorer runs until no prefix is pending, so
the set of paths explored is exactly the set of feasible decision sequences (complete, no bound,
loops over symbolic sequences are cut by invariants -- see interp.py).

Obligations are proved per path: `pc => goal` is valid iff `pc and not goal` is unsat.
"""
from __future__ import annotations

import itertools
import time
from dataclasses import dataclass, field
from typing import Any, Callable, Dict, List, Optional, Tuple

import z3

# --------------------------------------------------------------------------------------
# solver plumbing
# --------------------------------------------------------------------------------------

QUICK_MS = 20_000
FEAS_MS = 3_000

STATS = {"z3_queries": 0, "z3_time": 0.0, "cvc5_queries": 0, "cvc5_time": 0.0, "feas_queries": 0}


def _mk_solver(timeout_ms: int) -> z3.Solver:
    s = z3.Solver()
    s.set("timeout", timeout_ms)
    s.set("random_seed", 7)
    return s


def smt_check(assertions: List[z3.BoolRef], timeout_ms: int = QUICK_MS, want_model=False):
    """returns (verdict, model_or_None, backend)   verdict in {'unsat','sat','unknown'}"""
    s = _mk_solver(timeout_ms)
    for a in assertions:
        s.add(a)
    t0 = time.time()
    r = s.check()
    STATS["z3_queries"] += 1
    STATS["z3_time"] += time.time() - t0
    if r == z3.unsat:
        return "unsat", None, "z3"
    if r == z3.sat:
        return "sat", (s.model() if want_model else None), "z3"
    # z3 gave up: hand the same query to cvc5 through SMT-LIB
    try:
        from . import cvc5_backend

        t0 = time.time()
        v = cvc5_backend.check_smt2(s.to_smt2(), timeout_ms)
        STATS["cvc5_queries"] += 1
        STATS["cvc5_time"] += time.time() - t0
        if v in ("unsat", "sat"):
            return v, None, "cvc5"
    except Exception:  # pragma: no cover - cvc5 missing or parse failure: stays unknown
        pass
    return "unknown", None, "z3"


# --------------------------------------------------------------------------------------
# control-flow signals used by the interpreter and by theory code
# --------------------------------------------------------------------------------------


class PathAbort(Exception):
    """The current path is infeasible / finished early (e.g. loop-body check path ended)."""


class Unsupported(Exception):
    """The target left the supported subset; never mapped to a violation."""


class PyExc(Exception):
    """A Python exception raised by the *interpreted* program.  `.obj` is the exception value."""

    def __init__(self, obj):
        super().__init__(getattr(obj, "cls", type(obj)).__name__)
        self.obj = obj


# --------------------------------------------------------------------------------------
# obligations
# --------------------------------------------------------------------------------------


@dataclass
class ObRecord:
    oid: str
    verdict: str  # unsat (discharged) | sat (refuted) | unknown
    backend: str
    path: Tuple
    time_s: float
    model: Optional[dict] = None
    note: str = ""
    smt2: Optional[str] = None


# --------------------------------------------------------------------------------------
# Path
# --------------------------------------------------------------------------------------

_CUR: List["Path"] = []


def cur() -> "Path":
    if not _CUR:
        raise RuntimeError("no active path")
    return _CUR[-1]


class Path:
    def __init__(self, prefix: Tuple[int, ...], explorer: "Explorer"):
        self.prefix = prefix
        self.explorer = explorer
        self.pos = 0
        self.taken: List[int] = []
        self.labels: List[str] = []
        self.pc: List[z3.BoolRef] = []
        self.counter = itertools.count()
        self.next_ref = 1
        self.globals_state: Dict[Tuple[str, str], Any] = {}
        self.events: List[Tuple] = []
        self.ghost: Dict[str, Any] = {}
        self.objects: List[Any] = []  # every Obj allocated or materialised on this path
        self.entry_snapshot_done = False
        self.depth = 0
        self._inc = None  # incremental solver mirroring pc (feasibility queries only)
        self._inc_n = 0

    # -- naming ----------------------------------------------------------------------
    def fresh_name(self, base: str) -> str:
        return f"{base}!{next(self.counter)}"

    # -- assumptions / decisions -----------------------------------------------------
    def assume(self, b):
        b = as_z3_bool(b)
        if z3.is_true(b):
            return
        if z3.is_false(b):
            raise PathAbort("assume False")
        self.pc.append(b)

    def feasible(self, extra: z3.BoolRef) -> bool:
        if z3.is_true(extra):
            return True
        if z3.is_false(extra):
            return False
        STATS["feas_queries"] += 1
        if self._inc is None:
            self._inc = _mk_solver(FEAS_MS)
            self._inc_n = 0
        for a in self.pc[self._inc_n:]:
            self._inc.add(a)
        self._inc_n = len(self.pc)
        t0 = time.time()
        self._inc.push()
        self._inc.add(extra)
        r = self._inc.check()
        self._inc.pop()
        STATS["z3_time"] += time.time() - t0
        return r != z3.unsat

    def choose(self, options: List[Tuple[str, Optional[z3.BoolRef]]], label: str = "") -> int:
        """Pick one of `options` ((name, constraint-or-None) pairs); the constraint is added to pc."""
        if self.pos < len(self.prefix):
            k = self.prefix[self.pos]
        else:
            feas = [
                i
                for i, (_, c) in enumerate(options)
                if c is None or self.feasible(c)
            ]
            if not feas:
                raise PathAbort("no feasible option at " + label)
            k = feas[0]
            for other in feas[1:]:
                self.explorer.push(tuple(self.taken) + (other,))
        self.pos += 1
        self.taken.append(k)
        name, c = options[k]
        self.labels.append(f"{label}={name}")
        if c is not None and not z3.is_true(c):
            self.pc.append(c)
        return k

    def decide(self, b, label: str = "") -> bool:
        """Truth value of a (possibly symbolic) bool on this path."""
        if isinstance(b, bool):
            return b
        z = as_z3_bool(b)
        z = z3.simplify(z)
        if z3.is_true(z):
            return True
        if z3.is_false(z):
            return False
        k = self.choose([("T", z), ("F", z3.Not(z))], label or "br")
        return k == 0

    # -- obligations -----------------------------------------------------------------
    def check(self, goal, oid: str, note: str = "", extra_assumptions=()):
        """Prove `pc => goal`; record the verdict under obligation id `oid`."""
        g = as_z3_bool(goal)
        t0 = time.time()
        if z3.is_true(z3.simplify(g)):
            rec = ObRecord(oid, "unsat", "simplify", tuple(self.labels), 0.0, note=note)
            self.explorer.record(rec)
            return True
        asserts = self.pc + list(extra_assumptions) + [z3.Not(g)]
        verdict, model, backend = smt_check(asserts, self.explorer.timeout_ms, want_model=True)
        md = None
        smt2 = None
        if verdict == "sat":
            md = self.explorer.project_model(self, model)
        if verdict != "unsat" or self.explorer.keep_smt2(oid):
            s = z3.Solver()
            for a in asserts:
                s.add(a)
            smt2 = s.to_smt2()
        rec = ObRecord(oid, verdict, backend, tuple(self.labels), time.time() - t0, md, note, smt2)
        self.explorer.record(rec)
        return verdict == "unsat"

    def event(self, *ev):
        self.events.append(ev)


class Explorer:
    """Runs `body(path)` once per feasible decision sequence."""

    def __init__(self, timeout_ms=QUICK_MS, max_paths=4000):
        self.pending: List[Tuple[int, ...]] = [()]
        self.records: List[ObRecord] = []
        self.timeout_ms = timeout_ms
        self.max_paths = max_paths
        self.paths_run = 0
        self.paths_completed = 0
        self.model_vars: Dict[str, Any] = {}
        self._smt2_kept = set()
        self.path_ends: List[Tuple] = []

    def push(self, prefix):
        self.pending.append(prefix)

    def record(self, rec: ObRecord):
        self.records.append(rec)

    def keep_smt2(self, oid):
        if oid in self._smt2_kept or len(self._smt2_kept) >= 2:
            return False
        self._smt2_kept.add(oid)
        return True

    def project_model(self, path: Path, model) -> dict:
        out = {}
        for name, term in list(path.ghost.get("__model_vars__", {}).items()):
            try:
                if callable(term) and not isinstance(term, z3.ExprRef):
                    out[name] = term(model)
                else:
                    out[name] = str(model.eval(term, model_completion=True))
            except Exception as e:  # pragma: no cover
                out[name] = f"<{e}>"
        out["__path__"] = list(path.labels)
        return out

    def run(self, body: Callable[[Path], None]):
        while self.pending:
            if self.paths_run >= self.max_paths:
                raise Unsupported(f"path cap {self.max_paths} exceeded")
            prefix = self.pending.pop()
            p = Path(prefix, self)
            self.paths_run += 1
            _CUR.append(p)
            try:
                body(p)
                self.paths_completed += 1
                self.path_ends.append(("ok", tuple(p.labels)))
            except PathAbort as e:
                self.path_ends.append(("abort:" + str(e), tuple(p.labels)))
            finally:
                _CUR.pop()
        return self


# --------------------------------------------------------------------------------------
# symbolic values
# --------------------------------------------------------------------------------------

U = z3.DeclareSort("U")  # opaque python values
truthy_U = z3.Function("truthy", U, z3.BoolSort())


def as_z3_bool(b):
    if isinstance(b, bool):
        return z3.BoolVal(b)
    if isinstance(b, SBool):
        return b.z
    if isinstance(b, z3.BoolRef):
        return b
    if isinstance(b, Sym):
        return b.truth().z
    if b is None:
        return z3.BoolVal(False)
    raise Unsupported(f"cannot turn {type(b).__name__} into a z3 Bool")


class Sym:
    """Base class of symbolic scalar values.  `.z` is the z3 term."""

    z: Any

    def truth(self) -> "SBool":
        raise Unsupported(f"truthiness of {type(self).__name__}")

    def __bool__(self):
        return cur().decide(self.truth(), "truth")

    def __hash__(self):
        return hash(("Sym", self.z.get_id()))


def _lift_bool(x):
    if isinstance(x, SBool):
        return x.z
    if isinstance(x, bool):
        return z3.BoolVal(x)
    if isinstance(x, z3.BoolRef):
        return x
    if isinstance(x, Sym):
        return x.truth().z
    raise Unsupported(f"bool op with {type(x).__name__}")


class SBool(Sym):
    def __init__(self, z):
        self.z = z if isinstance(z, z3.BoolRef) else z3.BoolVal(bool(z))

    def truth(self):
        return self

    def all(self, *a, **k):
        """(x == y).all() on opaque array-likes: the element-wise comparison reduced - abstracted to the comparison itself"""
        return self

    def __and__(self, o):
        return SBool(z3.And(self.z, _lift_bool(o)))

    __rand__ = __and__

    def __or__(self, o):
        return SBool(z3.Or(self.z, _lift_bool(o)))

    __ror__ = __or__

    def __invert__(self):
        return SBool(z3.Not(self.z))

    def __xor__(self, o):
        return SBool(z3.Xor(self.z, _lift_bool(o)))

    def __eq__(self, o):  # type: ignore[override]
        if isinstance(o, (SBool, bool, z3.BoolRef)):
            return SBool(self.z == _lift_bool(o))
        if isinstance(o, (int, float)) and not isinstance(o, bool):
            return SBool(z3.If(self.z, 1, 0) == o)
        return False

    def __ne__(self, o):  # type: ignore[override]
        r = self.__eq__(o)
        return (~r) if isinstance(r, SBool) else (not r)

    __hash__ = Sym.__hash__

    def __repr__(self):
        return f"SBool({self.z})"


def _num_z(x):
    if isinstance(x, SNum):
        return x.z
    if isinstance(x, bool):
        return z3.IntVal(int(x))
    if isinstance(x, int):
        return z3.IntVal(x)
    if isinstance(x, float):
        return z3.RealVal(x)
    if isinstance(x, SBool):
        return z3.If(x.z, z3.IntVal(1), z3.IntVal(0))
    if isinstance(x, z3.ArithRef):
        return x
    return None


class SNum(Sym):
    """Mathematical integer or real (S-int / reals for ordered comparison)."""

    def __init__(self, z):
        self.z = z

    @property
    def is_int(self):
        return self.z.sort() == z3.IntSort()

    def truth(self):
        return SBool(self.z != 0)

    def _bin(self, o, f):
        oz = _num_z(o)
        if oz is None:
            return NotImplemented
        return SNum(f(self.z, oz))

    def _cmp(self, o, f):
        oz = _num_z(o)
        if oz is None:
            return NotImplemented
        return SBool(f(self.z, oz))

    def __add__(self, o):
        return self._bin(o, lambda a, b: a + b)

    __radd__ = __add__

    def __sub__(self, o):
        return self._bin(o, lambda a, b: a - b)

    def __rsub__(self, o):
        return self._bin(o, lambda a, b: b - a)

    def __mul__(self, o):
        return self._bin(o, lambda a, b: a * b)

    __rmul__ = __mul__

    def __neg__(self):
        return SNum(-self.z)

    def __lt__(self, o):
        return self._cmp(o, lambda a, b: a < b)

    def __le__(self, o):
        return self._cmp(o, lambda a, b: a <= b)

    def __gt__(self, o):
        return self._cmp(o, lambda a, b: a > b)

    def __ge__(self, o):
        return self._cmp(o, lambda a, b: a >= b)

    def __eq__(self, o):  # type: ignore[override]
        oz = _num_z(o)
        if oz is None:
            return False
        return SBool(self.z == oz)

    def __ne__(self, o):  # type: ignore[override]
        oz = _num_z(o)
        if oz is None:
            return True
        return SBool(self.z != oz)

    __hash__ = Sym.__hash__

    def __index__(self):
        raise Unsupported("symbolic int used as concrete index")

    def __repr__(self):
        return f"SNum({self.z})"


def _str_z(x):
    if isinstance(x, SStr):
        return x.z
    if isinstance(x, str):
        return z3.StringVal(x)
    return None


class SStr(Sym):
    def __init__(self, z):
        self.z = z

    def truth(self):
        return SBool(z3.Length(self.z) > 0)

    def __eq__(self, o):  # type: ignore[override]
        oz = _str_z(o)
        if oz is None:
            return False
        return SBool(self.z == oz)

    def __ne__(self, o):  # type: ignore[override]
        oz = _str_z(o)
        if oz is None:
            return True
        return SBool(self.z != oz)

    __hash__ = Sym.__hash__

    def __add__(self, o):
        oz = _str_z(o)
        if oz is None:
            return NotImplemented
        return SStr(z3.Concat(self.z, oz))

    def __radd__(self, o):
        oz = _str_z(o)
        if oz is None:
            return NotImplemented
        return SStr(z3.Concat(oz, self.z))

    def startswith(self, p):
        return SBool(z3.PrefixOf(_str_z(p), self.z))

    def endswith(self, p):
        return SBool(z3.SuffixOf(_str_z(p), self.z))

    def __len__(self):
        raise Unsupported("len of symbolic str as concrete int; use slen()")

    def slen(self):
        return SNum(z3.Length(self.z))

    def __repr__(self):
        return f"SStr({self.z})"


class SAny(Sym):
    """Opaque python value: supports identity/equality, truthiness and `is None` only."""

    def __init__(self, z=None, name="any"):
        self.z = z if z is not None else z3.Const(cur().fresh_name(name), U)

    def truth(self):
        return SBool(truthy_U(self.z))

    def __eq__(self, o):  # type: ignore[override]
        if isinstance(o, SAny):
            return SBool(self.z == o.z)
        if o is None:
            return False  # SAny values are never None: optionals fork at creation
        return SBool(z3.FreshConst(z3.BoolSort(), "anyeq"))

    def __ne__(self, o):  # type: ignore[override]
        r = self.__eq__(o)
        return (~r) if isinstance(r, SBool) else (not r)

    __hash__ = Sym.__hash__

    def __repr__(self):
        return f"SAny({self.z})"


# ---- helpers usable from contracts and theory code (dual: concrete python values pass through)


def And(*xs):
    xs = [x for x in xs]
    if all(isinstance(x, bool) for x in xs):
        return all(xs)
    return SBool(z3.And(*[_lift_bool(x) for x in xs]))


def Or(*xs):
    if all(isinstance(x, bool) for x in xs):
        return any(xs)
    return SBool(z3.Or(*[_lift_bool(x) for x in xs]))


def Not(x):
    if isinstance(x, bool):
        return not x
    return SBool(z3.Not(_lift_bool(x)))


def Implies(a, b):
    if isinstance(a, bool) and isinstance(b, bool):
        return (not a) or b
    return SBool(z3.Implies(_lift_bool(a), _lift_bool(b)))


def Iff(a, b):
    if isinstance(a, bool) and isinstance(b, bool):
        return a == b
    return SBool(_lift_bool(a) == _lift_bool(b))


def ite(c, a, b):
    if isinstance(c, bool):
        return a if c else b
    cz = _lift_bool(c)
    if isinstance(a, (SBool, bool)) and isinstance(b, (SBool, bool)):
        return SBool(z3.If(cz, _lift_bool(a), _lift_bool(b)))
    az, bz = _num_z(a), _num_z(b)
    if az is not None and bz is not None:
        if az.sort() != bz.sort():
            az, bz = z3.ToReal(az) if az.sort() == z3.IntSort() else az, z3.ToReal(bz) if bz.sort() == z3.IntSort() else bz
        return SNum(z3.If(cz, az, bz))
    if isinstance(a, (SStr, str)) and isinstance(b, (SStr, str)):
        return SStr(z3.If(cz, _str_z(a), _str_z(b)))
    if isinstance(a, SAny) and isinstance(b, SAny):
        return SAny(z3.If(cz, a.z, b.z))
    raise Unsupported(f"ite over {type(a).__name__}/{type(b).__name__}")


def py_eq(a, b):
    """Python `==` lifted to symbolic values; returns bool or SBool."""
    if getattr(a, "__pyvc_symbolic__", False):
        return a.__eq__(b)
    if getattr(b, "__pyvc_symbolic__", False):
        return b.__eq__(a)
    if isinstance(a, Sym):
        return a.__eq__(b)
    if isinstance(b, Sym):
        return b.__eq__(a)
    return a == b


def sym_int(name) -> SNum:
    return SNum(z3.Int(cur().fresh_name(name)))


def sym_real(name) -> SNum:
    return SNum(z3.Real(cur().fresh_name(name)))


def sym_bool(name) -> SBool:
    return SBool(z3.Bool(cur().fresh_name(name)))


def sym_str(name) -> SStr:
    return SStr(z3.String(cur().fresh_name(name)))


def register_model_var(name: str, term):
    cur().ghost.setdefault("__model_vars__", {})[name] = term
