"""Models (assumed contracts) for python builtins / stdlib used by the target functions.

Each model is the *axiom* for that operation on symbolic values; on concrete values the real
function is used.  Listed in the evidence `trusted_base` as 'python-stdlib models'.
"""
from __future__ import annotations

import builtins
import copy
import enum
import functools
import itertools
import operator
import os
import types as pytypes
import warnings

import z3

from . import core
from .core import PyExc, SAny, SBool, SNum, SStr, Sym, Unsupported, cur, py_eq
from .heap import DictObj, ListObj, Obj


def install(I):
    from . import interp as IN
    from .values import (BoundMethod, Closure, Enumerated, Fmt, SymCallable,
                         SymDict, SymDictItems, SymDictValues, SymSeq)

    M = I.models

    def model(fn):
        def deco(f):
            M.register(fn, f)
            return f

        return deco

    # ---- type tests -------------------------------------------------------------------
    def cls_of(v):
        if isinstance(v, Obj):
            return v.cls
        if isinstance(v, SBool):
            return bool
        if isinstance(v, SNum):
            return int if v.is_int else float
        if isinstance(v, (SStr, Fmt)):
            return str
        if isinstance(v, ListObj):
            return list
        if isinstance(v, DictObj):
            return dict
        if isinstance(v, SymSeq):
            return list
        if isinstance(v, SymDict):
            return dict
        if isinstance(v, (Closure, BoundMethod, SymCallable)):
            return pytypes.FunctionType
        if hasattr(v, "pyvc_class"):
            return v.pyvc_class()
        if isinstance(v, SAny):
            return None
        return type(v)

    I.cls_of = cls_of

    @model(builtins.isinstance)
    def _isinstance(I, v, c):
        k = cls_of(v)
        if k is None:
            if hasattr(v, "pyvc_isinstance"):
                return v.pyvc_isinstance(c)
            return SBool(z3.FreshConst(z3.BoolSort(), "isinst"))
        cs = c if isinstance(c, tuple) else (c,)
        for one in cs:
            origin = getattr(one, "__origin__", None)
            if origin is not None and not isinstance(one, type):
                one = origin
            if one is IN.OtherException:
                continue
            if k is IN.OtherException:
                if one in (Exception, BaseException, object):
                    return True
                continue
            try:
                if issubclass(k, one):
                    return True
            except TypeError:
                if hasattr(one, "__instancecheck__"):
                    try:
                        if isinstance(v, one):
                            return True
                    except Exception:
                        pass
        return False

    @model(builtins.issubclass)
    def _issubclass(I, a, b):
        return issubclass(a, b)

    @model(builtins.type)
    def _type(I, v, *rest):
        if rest:
            return type(v, *rest)
        k = cls_of(v)
        if k is None:
            return SAny(name="type")
        return k

    @model(builtins.callable)
    def _callable(I, v):
        if isinstance(v, (Closure, BoundMethod, SymCallable)):
            return True
        if isinstance(v, Obj):
            return IN._find_in_mro(v.cls, "__call__") is not None
        if isinstance(v, Sym):
            return False
        return callable(v)

    @model(builtins.hasattr)
    def _hasattr(I, v, name):
        return I.hasattr(v, name)

    @model(builtins.getattr)
    def _getattr(I, v, name, *default):
        if default and not I.hasattr(v, name):
            return default[0]
        return I.getattr(v, name)

    @model(builtins.setattr)
    def _setattr(I, v, name, value):
        I.setattr(v, name, value)

    @model(object.__setattr__)
    def _osetattr(I, v, name, value):
        if isinstance(v, Obj):
            if v.pre and name not in v.attrs:
                from . import heap

                heap.materialise(v, name)
            v.attrs[name] = value
            v.writes.append(name)
            cur().event("write", v, name, value)
            return None
        raise Unsupported("object.__setattr__ on live object")

    @model(builtins.delattr)
    def _delattr(I, v, name):
        I.delattr(v, name)

    @model(builtins.id)
    def _id(I, v):
        return id(v)

    # ---- containers -------------------------------------------------------------------
    @model(builtins.len)
    def _len(I, v):
        if isinstance(v, SymSeq):
            return v.slen()
        if isinstance(v, SymDict):
            return v.keys_seq.slen()
        if isinstance(v, SStr):
            return v.slen()
        if hasattr(v, "pyvc_len"):
            return v.pyvc_len()
        if isinstance(v, Obj):
            f = IN._find_in_mro(v.cls, "__len__")
            if f is not None:
                return I.call(f, [v])
            if "__fields__order" in v.attrs:
                return len(v.attrs["__fields__order"])
            I.raise_py(TypeError, f"object of type '{v.cls.__name__}' has no len()")
        if isinstance(v, SAny):
            if isinstance(v, Fmt):
                n = core.sym_int("len")
                cur().assume(n >= 0)
                return n
            # opaque: may or may not support len -- fork
            k = cur().choose([("len", None), ("TypeError", None)], "len(opaque)")
            if k == 1:
                I.raise_py(TypeError, "object has no len()")
            n = core.sym_int("len")
            cur().assume(n >= 0)
            return n
        if v is None:
            I.raise_py(TypeError, "object of type 'NoneType' has no len()")
        if isinstance(v, IN.OpaqueAttr):
            # used as a value: one unknown length per attribute of an opaque value (same question, same answer)
            store = cur().ghost.setdefault("opaque_attr_len", {})
            key = (id(v.base), v.name)
            if key not in store:
                store[key] = core.sym_int(f"len(.{v.name})")
                cur().assume(store[key] >= 0)
            return store[key]
        try:
            return len(v)
        except TypeError as e:
            if getattr(v, "__pyvc_symbolic__", False):
                # a theory value without a length model: what the real object answers is not known - never a verdict
                raise core.Unsupported(f"len() of theory value {type(v).__name__} is not modelled")
            raise PyExc(I.make_exc(TypeError, *e.args))

    @model(builtins.enumerate)
    def _enumerate(I, seq, start=0):
        if I.symbolic_iter(seq) is not None:
            return Enumerated(seq, start)
        return list(enumerate(I.concrete_iter(seq), start))

    @model(builtins.zip)
    def _zip(I, *seqs):
        return list(zip(*[I.concrete_iter(s) for s in seqs]))

    @model(builtins.reversed)
    def _reversed(I, seq):
        if isinstance(seq, (list, tuple, ListObj, range)) and not I.symbolic_iter(seq):
            return ListObj(list(reversed(list(seq))))
        if hasattr(seq, "pyvc_reversed"):
            return seq.pyvc_reversed()
        raise Unsupported("reversed() of a symbolic sequence")

    @model(builtins.filter)
    def _filter(I, fn, seq):
        out = []
        for x in I.concrete_iter(seq):
            keep = I.call(fn, [x]) if fn is not None else x
            if I.truth(keep, "filter"):
                out.append(x)
        return ListObj(out)

    import re as _re

    @model(_re.compile)
    def _re_compile(I, pattern, flags=0):
        if isinstance(pattern, str) and isinstance(flags, int):
            try:
                return _re.compile(pattern, flags)  # a concrete pattern: the stdlib's own object (its methods run natively)
            except _re.error as e:
                raise PyExc(I.make_exc(_re.error, *e.args))
        raise Unsupported("re.compile of a symbolic pattern")

    @model(builtins.range)
    def _range(I, *a):
        if all(isinstance(x, int) for x in a):
            return range(*a)
        if len(a) == 1:
            # range(n) for a symbolic n: the sequence 0 .. n-1 (a SymSeq whose element i is i); an opaque n (an attribute of a
            # library object) is an unknown non-negative-or-empty integer - one length per value
            n = a[0]
            if isinstance(n, SAny):
                memo = cur().ghost.setdefault("range_len_of_opaque", {})
                key = n.z.get_id()
                if key not in memo:
                    memo[key] = core.sym_int("int(opaque)")
                n = memo[key]
            if isinstance(n, SNum):
                ln = core.SNum(z3.If(n.z > 0, n.z, z3.IntVal(0)))
                return SymSeq("range", ln, lambda i: i if isinstance(i, (SNum, int)) else core.SNum(i), pre=False)
        raise Unsupported("symbolic range")

    @model(builtins.list)
    def _list(I, v=()):
        if isinstance(v, SymSeq):
            return v
        return ListObj(I.concrete_iter(v))

    @model(builtins.tuple)
    def _tuple(I, v=()):
        if isinstance(v, SymSeq):
            return v
        return tuple(I.concrete_iter(v))

    @model(builtins.dict)
    def _dict(I, *a, **kw):
        d = DictObj()
        if a:
            src = a[0]
            if isinstance(src, SymDict):
                return src
            if isinstance(src, (dict, DictObj)):
                d.update(src)
            else:
                for k, v in I.concrete_iter(src):
                    d[k] = v
        d.update(kw)
        return d

    @model(builtins.set)
    def _set(I, v=()):
        if hasattr(v, "pyvc_set"):
            return v.pyvc_set()
        return set(I.concrete_iter(v))

    @model(builtins.frozenset)
    def _frozenset(I, v=()):
        if hasattr(v, "pyvc_set"):
            return v.pyvc_set()
        return frozenset(I.concrete_iter(v))

    @model(builtins.sorted)
    def _sorted(I, v, key=None, reverse=False):
        items = I.concrete_iter(v)
        if key is not None:
            keyed = [(I.call(key, [x]), x) for x in items]
            if not core_is_concrete([k for k, _ in keyed]):
                raise Unsupported("sorted with symbolic keys")
            keyed.sort(key=lambda t: t[0], reverse=reverse)
            return ListObj(x for _, x in keyed)
        if not core_is_concrete(items):
            raise Unsupported("sorted of symbolic values")
        return ListObj(sorted(items, reverse=reverse))

    def core_is_concrete(v):
        return IN.is_concrete(v)

    import collections

    @model(collections.defaultdict)
    def _defaultdict(I, factory=None, *a, **kw):
        d = DictObj()
        d.default_factory = factory
        return d

    @model(builtins.all)
    def _all(I, it):
        if isinstance(it, SymSeq) and getattr(it, "uniform", None) is not None:
            # every element is `uniform[0]` (invariant-established); vacuous when empty
            u = it.uniform[0]
            tail = [x if isinstance(x, (bool, SBool)) else I.truth(x) for x in it.appended]
            base = u if isinstance(u, (bool, SBool)) else I.truth(u)
            return core.And(core.Or(it.n == 0, base), *tail) if tail or not isinstance(base, bool) or not base else True
        if isinstance(it, SymSeq):
            if hasattr(it, "forall"):
                return it.forall(lambda x: x)
            raise Unsupported("all() over symbolic sequence")
        acc = True
        for x in I.concrete_iter(it):
            t = x if isinstance(x, (bool, SBool)) else (x.truth() if isinstance(x, Sym) else I.truth(x))
            if t is False:
                return False
            if t is True:
                continue
            acc = core.And(acc, t) if acc is not True else t
        return acc

    @model(builtins.any)
    def _any(I, it):
        if isinstance(it, SymSeq):
            if hasattr(it, "exists"):
                return it.exists(lambda x: x)
            raise Unsupported("any() over symbolic sequence")
        acc = False
        for x in I.concrete_iter(it):
            t = x if isinstance(x, (bool, SBool)) else (x.truth() if isinstance(x, Sym) else I.truth(x))
            if t is True:
                return True
            if t is False:
                continue
            acc = core.Or(acc, t) if acc is not False else t
        return acc

    @model(builtins.sum)
    def _sum(I, it, start=0):
        acc = start
        for x in I.concrete_iter(it):
            acc = acc + x
        return acc

    def _sym_extreme(I, a, kw, which):
        """min / max of two or more NUMBERS given as separate arguments (python: the first of equal ones; for numbers the value is
        the same): a chain of conditional expressions"""
        from .core import SNum, ite

        if kw or len(a) < 2 or not all(isinstance(x, (int, float, SNum)) and not isinstance(x, bool) for x in a):
            raise Unsupported(f"{which} of symbolic")
        r = a[0]
        for x in a[1:]:
            r = ite((x < r) if which == "min" else (x > r), x, r)
        return r

    @model(builtins.min)
    def _min(I, *a, **kw):
        if core_is_concrete(list(a)):
            return min(*a, **kw)
        return _sym_extreme(I, a, kw, "min")

    @model(builtins.max)
    def _max(I, *a, **kw):
        if core_is_concrete(list(a)):
            return max(*a, **kw)
        return _sym_extreme(I, a, kw, "max")

    @model(builtins.iter)
    def _iter(I, v):
        if isinstance(v, (SymSeq, SymDict)):
            return SymIterator(v.keys_seq if isinstance(v, SymDict) else v)
        return ConcreteIterator(I.concrete_iter(v))

    @model(builtins.next)
    def _next(I, it, *default):
        if not hasattr(it, "next"):
            from .heap import ListObj as _L

            if isinstance(it, _L):
                # a generator expression (the interpreter evaluates it eagerly into a list): next() consumes its first element
                if len(it):
                    return list.pop(it, 0)
                if default:
                    return default[0]
                I.raise_py(StopIteration)
            raise Unsupported(f"next() of {type(it).__name__}")
        try:
            return it.next(I)
        except StopIteration:
            if default:
                return default[0]
            I.raise_py(StopIteration)

    @model(builtins.bool)
    def _bool(I, v=False):
        if isinstance(v, Sym):
            return v.truth()
        if hasattr(v, "pyvc_bool"):
            return v.pyvc_bool(I)
        return I.truth(v)

    @model(builtins.str)
    def _str(I, v=""):
        if isinstance(v, (SStr, Fmt)):
            return v
        if isinstance(v, str):
            return v
        if IN.is_concrete(v) and isinstance(v, (int, float, bool, type(None), enum.Enum, tuple)):
            return str(v)
        if isinstance(v, Obj) and v.cls is not None:
            f = IN._find_in_mro(v.cls, "__str__")
            if isinstance(f, pytypes.FunctionType) and (f.__module__ or "").startswith("pandera"):
                return I.call(f, [v])
        return Fmt(["str(", v, ")"])

    @model(builtins.repr)
    def _repr(I, v):
        if IN.is_concrete(v) and isinstance(v, (str, int, float, bool, type(None))):
            return repr(v)
        return Fmt(["repr(", v, ")"])

    @model(builtins.int)
    def _int(I, v=0):
        if isinstance(v, SNum):
            return v
        if isinstance(v, SBool):
            return core.ite(v, 1, 0)
        if IN.is_concrete(v):
            try:
                return int(v)
            except (TypeError, ValueError) as e:
                raise PyExc(I.make_exc(type(e), *e.args))
        raise Unsupported("int() of symbolic")

    @model(builtins.print)
    def _print(I, *a, **k):
        return None

    @model(builtins.vars)
    def _vars(I, v):
        if isinstance(v, type):
            return DictObj(dict(vars(v)))  # a live class object: its own namespace (read-only copy)
        raise Unsupported("vars()")

    # ---- operator / functools / copy --------------------------------------------------
    for name in ("le", "lt", "ge", "gt", "eq", "ne", "and_", "or_", "not_", "add", "sub", "mul", "inv", "invert"):
        M[id(getattr(operator, name))] = (lambda f: (lambda I, *a: f(*a)))(getattr(operator, name))

    @model(functools.partial)
    def _partial(I, f, *a, **kw):
        return IN.PartialVal(f, a, kw)

    @model(functools.wraps)
    def _wraps(I, f, *a, **kw):
        return IN.WrapsMarker()

    @model(copy.copy)
    def _copy(I, v):
        return shallow_copy(I, v)

    @model(copy.deepcopy)
    def _deepcopy(I, v, memo=None):
        return deep_copy(I, v, {})

    @model(warnings.warn)
    def _warn(I, message, category=UserWarning, *a, **kw):
        cur().event("warn", category, message)
        return None

    import collections.abc

    @model(collections.abc.Mapping.get)
    def _environ_get(I, mapping, key, default=None):
        if mapping is not os.environ:
            return mapping.get(key, default)
        env = cur().ghost.setdefault("environ", {})
        if key not in env:
            from . import types as T

            env[key] = T.fresh_value(T.Opt(T.Str), f"env[{key}]")
        v = env[key]
        return default if v is None else v

    @model(itertools.groupby)
    def _groupby(I, it, key=None):
        if hasattr(it, "pyvc_groupby"):
            return it.pyvc_groupby(I, key)
        if core_is_concrete(list(I.concrete_iter(it))) and key is None:
            return [(k, list(g)) for k, g in itertools.groupby(I.concrete_iter(it))]
        raise Unsupported("itertools.groupby on symbolic")

    @model(dict.fromkeys)
    def _fromkeys(I, keys, value=None):
        if hasattr(keys, "pyvc_fromkeys"):
            return keys.pyvc_fromkeys(value)
        d = DictObj()
        for k in I.concrete_iter(keys):
            present = False
            for kk in d:
                if I.truth(py_eq(k, kk)):
                    present = True
                    break
            if not present:
                d[k] = value
        return d

    I.shallow_copy = lambda v: shallow_copy(I, v)
    I.deep_copy = lambda v: deep_copy(I, v, {})


class ConcreteIterator:
    def __init__(self, items):
        self.items = list(items)
        self.i = 0

    def next(self, I):
        if self.i >= len(self.items):
            raise StopIteration
        self.i += 1
        return self.items[self.i - 1]

    def pyvc_iter(self, I):
        rest = self.items[self.i:]
        self.i = len(self.items)
        return rest


class SymIterator:
    def __init__(self, seq):
        self.seq = seq
        self.i = 0  # python int or SNum

    def next(self, I):
        n = self.seq.slen()
        if not cur().decide(self.i < n if not isinstance(self.i, int) else (n > self.i), "iter has next"):
            raise StopIteration
        v = self.seq.at(self.i)
        self.i = self.i + 1
        return v


def shallow_copy(I, v):
    if isinstance(v, Obj):
        if v.cls is not None:
            from .interp import _find_in_mro

            f = _find_in_mro(v.cls, "__copy__")
            if f is not None:
                return I.call(f, [v])
            ss = _find_in_mro(v.cls, "__setstate__")
            if isinstance(ss, pytypes.FunctionType):
                # the copy protocol (object.__reduce_ex__ + copy._reconstruct): a class with its own __setstate__ is handed the
                # state - for a shallow copy that is x.__dict__ ITSELF, not a copy of it
                from .interp import ObjDictView, _alias_root

                n = Obj(v.cls, v.name + "_copy", pre=False, fields=v.field_types, strict=v.strict)
                I.call(ss, [n, ObjDictView(_alias_root(v))])
                return n
        n = Obj(v.cls, v.name + "_copy", pre=False, fields=v.field_types, strict=v.strict)
        # copy.copy copies every instance attribute: attributes not yet materialised are shared lazily
        n.attrs = LazyCopyAttrs(v)
        return n
    if isinstance(v, (ListObj, list)):
        return ListObj(v)
    if isinstance(v, (DictObj, dict)):
        return DictObj(v)
    if isinstance(v, (Sym, tuple, str, int, float, frozenset, type(None))):
        return v
    if hasattr(v, "pyvc_copy"):
        return v.pyvc_copy()
    if _concrete(v):
        return copy.copy(v)
    raise Unsupported(f"copy of {type(v).__name__}")


def deep_copy(I, v, memo):
    if id(v) in memo:
        return memo[id(v)]
    if isinstance(v, Obj):
        n = Obj(v.cls, v.name + "_deepcopy", pre=False, fields=v.field_types, strict=v.strict)
        memo[id(v)] = n
        n.attrs = LazyCopyAttrs(v, deep=True, interp=I, memo=memo)
        return n
    if isinstance(v, (ListObj, list)):
        n = ListObj()
        memo[id(v)] = n
        n.extend(deep_copy(I, x, memo) for x in v)
        return n
    if isinstance(v, (DictObj, dict)):
        n = DictObj()
        memo[id(v)] = n
        for k, x in v.items():
            n[k] = deep_copy(I, x, memo)
        return n
    if isinstance(v, tuple):
        return tuple(deep_copy(I, x, memo) for x in v)
    if isinstance(v, (Sym, str, int, float, frozenset, type(None), enum.Enum, type)):
        return v
    if hasattr(v, "pyvc_deepcopy"):
        return v.pyvc_deepcopy(I, memo)
    if hasattr(v, "pyvc_copy"):
        return v.pyvc_copy()
    from .values import Closure, SymCallable

    if isinstance(v, (Closure, SymCallable, pytypes.FunctionType)):
        return v
    if _concrete(v):
        return copy.deepcopy(v)
    raise Unsupported(f"deepcopy of {type(v).__name__}")


def _concrete(v):
    from .interp import is_concrete

    return is_concrete(v)


class LazyCopyAttrs(dict):
    """Attribute dict of a copy: reads fall through to the source object's (lazily materialised)
    attributes at the time of the first read; writes stay local."""

    def __init__(self, src: Obj, deep=False, interp=None, memo=None):
        super().__init__()
        self.src, self.deep, self.interp, self.memo = src, deep, interp, memo
        # values already materialised are copied now (copy semantics: snapshot at copy time)
        for k, v in src.attrs.items():
            dict.__setitem__(self, k, deep_copy(interp, v, memo) if deep else v)
        self.local_deleted = set()

    def _pull(self, k):
        from . import heap

        if k in self.local_deleted:
            return False
        src = self.src
        if isinstance(src.attrs, LazyCopyAttrs) and not dict.__contains__(src.attrs, k):
            # copy of a lazy copy that has not materialised k itself (so k was never written in src): src's value of k
            # is the one src pulls from ITS source; pull it there first, then copy it
            if not src.attrs._pull(k):
                return False
            v = dict.__getitem__(src.attrs, k)
        elif k not in src.attrs:
            if not src.pre:
                return False
            # materialise in the source: the value it had at copy time is its initial value, provided the
            # source attribute was not written since (writes materialise first), so this is sound
            v = heap.materialise(src, k)
            if v is heap.MISSING:
                return False
        else:
            # present in src but absent here => it was written in src after the copy and was materialised
            # before that write; its pre-copy value is attrs0 when never written before the copy
            if k in src.attrs0 and k not in dict.keys(self):
                v = src.attrs0[k]
            else:
                return False
        dict.__setitem__(self, k, deep_copy(self.interp, v, self.memo) if self.deep else v)
        return True

    def __contains__(self, k):
        return dict.__contains__(self, k) or self._pull(k)

    def __getitem__(self, k):
        if not dict.__contains__(self, k) and not self._pull(k):
            raise KeyError(k)
        return dict.__getitem__(self, k)

    def get(self, k, default=None):
        if k in self:
            return dict.__getitem__(self, k)
        return default

    def __delitem__(self, k):
        if dict.__contains__(self, k):
            dict.__delitem__(self, k)
        self.local_deleted.add(k)
