"""Mutant catalogue (DESIGN 4.6, guard 6): every patch under mutants/<Cxx>/ and every confirmed seeded change under seeded/<id>/ that
targets the property is applied to a scratch worktree of /repo (under /tmp, removed afterwards), the property's check is run on it
(PANDERA_REPO=<scratch>, evidence written to a scratch directory) and must exit 1 naming a refuted obligation.  The kill table is
reported in the evidence of the thorough tier; it never changes the verdict on /repo.

    python -m pyvc.mutants C01 [C02 ...]      (or: all)        -> mutants/RESULTS.json, one line per mutant
"""
from __future__ import annotations

import concurrent.futures as cf
import glob
import json
import os
import re
import shutil
import subprocess
import sys
import tempfile

HERE = os.path.dirname(os.path.dirname(os.path.abspath(__file__)))
REPO = "/repo"


def sh(cmd, cwd=None, env=None, timeout=3600):
    e = dict(os.environ)
    e.update(env or {})
    p = subprocess.run(cmd, shell=True, cwd=cwd, env=e, capture_output=True, text=True, timeout=timeout)
    return p.returncode, p.stdout + p.stderr


def catalogue(prop):
    out = [(os.path.relpath(p, HERE), p) for p in sorted(glob.glob(os.path.join(HERE, "mutants", prop, "*.patch")))]
    for d in sorted(glob.glob(os.path.join(HERE, "seeded", prop + "*"))):
        p = os.path.join(d, "patch.diff")
        if os.path.exists(p):
            out.append((os.path.relpath(p, HERE), p))
    return out


def run_one(job):
    prop, rel, patch = job
    wt = tempfile.mkdtemp(prefix="pyvc_mut_")
    os.rmdir(wt)
    evd = tempfile.mkdtemp(prefix="pyvc_mut_ev_")
    try:
        rc, out = sh(f"git -C {REPO} worktree add -q --detach {wt} HEAD")
        if rc != 0:
            return {"property": prop, "mutant": rel, "status": "scratch worktree failed: " + out[-200:]}
        rc, out = sh(f"git apply {patch} || git apply -3 {patch}", cwd=wt)  # -3: a later fix: commit touched neighbouring lines
        if rc != 0:
            return {"property": prop, "mutant": rel, "status": "does-not-apply", "killed": None}
        rc, out = sh(f"./check {prop}", cwd=HERE, env={"PANDERA_REPO": wt, "PYVC_EVIDENCE_DIR": evd, "PYVC_NO_MUTANTS": "1"}, timeout=3000)
        obl = sorted(set(re.findall(r"refuted obligation: (\S+)", out)) | set(re.findall(r"(bounded stand-in of \S+|bounded run-time contract \S+)", out)))
        return {"property": prop, "mutant": rel, "status": "ran", "exit": rc, "killed": rc == 1, "obligations": obl[:6],
                "replayed": len(re.findall(r"^VIOLATION (?!.*no-failing-input-found)", out, re.M)), "violations": len(re.findall(r"^VIOLATION", out, re.M))}
    finally:
        sh(f"git -C {REPO} worktree remove --force {wt}")
        shutil.rmtree(evd, ignore_errors=True)
        shutil.rmtree(wt, ignore_errors=True)


def run(props, workers=int(os.environ.get("PYVC_MUTANT_WORKERS", "4"))):
    jobs = [(p, rel, patch) for p in props for rel, patch in catalogue(p)]
    with cf.ThreadPoolExecutor(max_workers=workers) as ex:
        res = list(ex.map(run_one, jobs))
    return res


def summarise(res):
    by = {}
    for r in res:
        b = by.setdefault(r["property"], {"total": 0, "killed": 0, "not_applicable": 0, "survivors": []})
        if r.get("killed") is None:
            b["not_applicable"] += 1
            continue
        b["total"] += 1
        if r["killed"]:
            b["killed"] += 1
        else:
            b["survivors"].append(r["mutant"])
    return by


def main(argv):
    props = argv or ["all"]
    if props == ["all"]:
        props = sorted({os.path.basename(d) for d in glob.glob(os.path.join(HERE, "mutants", "C*"))} | {os.path.basename(d)[:3] for d in glob.glob(os.path.join(HERE, "seeded", "C*"))})
    res = run(props)
    for r in res:
        print(r["property"], r["mutant"], r.get("status"), "KILLED" if r.get("killed") else ("-" if r.get("killed") is None else "SURVIVED"), (r.get("obligations") or [""])[0][-90:], flush=True)
    path = os.path.join(HERE, "mutants", "RESULTS.json")
    old = {}
    if os.path.exists(path):
        old = {r["mutant"]: r for r in json.load(open(path)).get("results", [])}
    for r in res:
        old[r["mutant"]] = r
    allres = sorted(old.values(), key=lambda r: r["mutant"])
    json.dump({"repo_head": sh(f"git -C {REPO} rev-parse --short HEAD")[1].strip(), "summary": summarise(allres), "results": allres}, open(path, "w"), indent=1)
    print(json.dumps(summarise(res)))
    return 0


if __name__ == "__main__":
    sys.exit(main(sys.argv[1:]))
