import os
import sys


def main(argv):
    if not argv:
        print("usage: ./check <Cxx> [--tier quick|thorough] | ./check replay <file>")
        return 3
    if argv[0] == "replay":
        from .driver import replay_file

        return replay_file(argv[1])
    prop = argv[0]
    tier = os.environ.get("VERIF_TIER", "quick")
    if "--tier" in argv:
        tier = argv[argv.index("--tier") + 1]
    if tier not in ("quick", "thorough"):
        tier = "quick"
    from .driver import main as run

    try:
        return run(prop, tier)
    except Exception:
        import traceback

        print(f"CHECKER-ERROR property={prop} driver crashed")
        traceback.print_exc()
        return 3


if __name__ == "__main__":
    sys.exit(main(sys.argv[1:]))
