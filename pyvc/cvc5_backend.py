"""cvc5 takes the queries z3 leaves `unknown` (and, thorough tier, re-checks z3's `unsat`)."""
import os
import subprocess
import tempfile

CVC5 = "/usr/bin/cvc5"


def check_smt2(smt2: str, timeout_ms: int) -> str:
    if not os.path.exists(CVC5):
        return "unknown"
    with tempfile.NamedTemporaryFile("w", suffix=".smt2", delete=False) as f:
        f.write("(set-logic ALL)\n" + smt2)
        name = f.name
    try:
        p = subprocess.run(
            [CVC5, "--lang", "smt2", f"--tlimit={timeout_ms}", "--strings-exp", name],
            capture_output=True,
            text=True,
            timeout=timeout_ms / 1000 + 5,
        )
        out = p.stdout.strip().splitlines()
        return out[0] if out and out[0] in ("sat", "unsat") else "unknown"
    except subprocess.TimeoutExpired:
        return "unknown"
    finally:
        os.unlink(name)
