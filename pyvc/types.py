"""Parameter / field type descriptors used by contracts; `fresh_value` creates the symbolic value.

Optionals, enums and finite alternatives *fork at creation* (a decision on the path), so that
downstream code sees either the concrete `None` / enum member or a value of the inner type.
"""
from __future__ import annotations

import enum
from typing import Any as _Any

import z3

from . import core
from .core import SAny, SBool, SNum, SStr, cur
from .heap import Obj


class TypeDesc:
    def fresh(self, name):  # pragma: no cover
        raise NotImplementedError


class _Simple(TypeDesc):
    def __init__(self, kind):
        self.kind = kind

    def __repr__(self):
        return self.kind

    def fresh(self, name):
        if self.kind == "Bool":
            v = core.sym_bool(name)
        elif self.kind == "Int":
            v = core.sym_int(name)
        elif self.kind == "Nat":
            v = core.sym_int(name)
            cur().assume(v >= 0)
        elif self.kind == "Real":
            v = core.sym_real(name)
        elif self.kind == "Str":
            v = core.sym_str(name)
        elif self.kind == "Any":
            v = SAny(name=name)
        else:  # pragma: no cover
            raise core.Unsupported(self.kind)
        core.register_model_var(name, v.z)
        return v


Bool = _Simple("Bool")
Int = _Simple("Int")
Nat = _Simple("Nat")
Real = _Simple("Real")
Ord = Real  # an ordered domain (S-int: reals with exact comparison)
Str = _Simple("Str")
Any = _Simple("Any")
Label = Any  # labels: equality only


class Opt(TypeDesc):
    def __init__(self, inner):
        self.inner = inner

    def __repr__(self):
        return f"Opt({self.inner})"

    def fresh(self, name):
        k = cur().choose([("None", None), ("some", None)], f"{name} is")
        if k == 0:
            core.register_model_var(name, lambda m: "None")
            return None
        return fresh_value(self.inner, name)


class Const(TypeDesc):
    def __init__(self, value):
        self.value = value

    def fresh(self, name):
        return self.value


class OneOf(TypeDesc):
    """finite alternatives: concrete values and/or type descriptors"""

    def __init__(self, *alts):
        self.alts = alts

    def fresh(self, name):
        k = cur().choose([(repr(a)[:40], None) for a in self.alts], f"{name} in")
        a = self.alts[k]
        if isinstance(a, TypeDesc):
            return fresh_value(a, name)
        core.register_model_var(name, lambda m, a=a: repr(a))
        return a


class EnumOf(TypeDesc):
    def __init__(self, cls, members=None):
        self.cls = cls
        self.members = list(members) if members is not None else list(cls)

    def fresh(self, name):
        k = cur().choose([(m.name, None) for m in self.members], f"{name} in")
        m = self.members[k]
        core.register_model_var(name, lambda mm, m=m: str(m))
        return m


class Ref(TypeDesc):
    """A pre-existing object of (live) class `cls` with declared symbolic fields."""

    def __init__(self, cls=None, strict=False, **fields):
        self.cls = cls
        self.fields = fields
        self.strict = strict

    def __repr__(self):
        return f"Ref({getattr(self.cls, '__name__', None)})"

    def fresh(self, name):
        return Obj(self.cls, name, pre=True, fields=self.fields, strict=self.strict)


class ClassOneOf(TypeDesc):
    """A pre-existing object whose class is one of several (forks)."""

    def __init__(self, *refs):
        self.refs = refs

    def fresh(self, name):
        k = cur().choose([(r.cls.__name__, None) for r in self.refs], f"type({name})")
        core.register_model_var("type(%s)" % name, lambda m, r=self.refs[k]: r.cls.__name__)
        return self.refs[k].fresh(name)


class Callback(TypeDesc):
    """S-callback: user-supplied callable; arbitrary result (of `result` type) or arbitrary Exception."""

    def __init__(self, result=None, raises=True, name=None):
        self.result = result or Any
        self.raises = raises

    def fresh(self, name):
        from .values import SymCallable

        return SymCallable(name, self.result, self.raises)


class ListOf(TypeDesc):
    """list of unknown length"""

    def __init__(self, elem, max_unroll=None):
        self.elem = elem

    def fresh(self, name):
        from .values import SymSeq

        return SymSeq.fresh(name, self.elem)


class DictOf(TypeDesc):
    def __init__(self, key, val):
        self.key, self.val = key, val

    def fresh(self, name):
        from .values import SymDict

        return SymDict.fresh(name, self.key, self.val)


class Lazy(TypeDesc):
    """type created by a thunk (for recursive / theory types)"""

    def __init__(self, thunk):
        self.thunk = thunk

    def fresh(self, name):
        return self.thunk(name)


def fresh_value(t, name):
    if isinstance(t, TypeDesc):
        return t.fresh(name)
    if isinstance(t, type) and issubclass(t, enum.Enum):
        return EnumOf(t).fresh(name)
    if callable(t):
        return t(name)
    raise core.Unsupported(f"bad type descriptor {t!r}")
