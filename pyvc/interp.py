"""AST interpreter over symbolic values (the VC generator proper).

The interpreted text is the *live* source: `Loader.closure_of(fn)` does inspect.getsource on the
function object imported from /repo, parses it, and resolves free names through the function's real
`__globals__` / `__closure__`.  See DESIGN.md 4.1 for what is dropped (docstrings, annotations,
logger calls, `cast`).
"""
from __future__ import annotations

import ast
import builtins
import copy as _copy
import enum
import collections
import functools
import hashlib
import inspect
import operator
import textwrap
import types as pytypes
from typing import Any, Dict, List, Optional, Tuple

import z3

from . import core, heap
from . import types as T
from .core import (PathAbort, PyExc, SAny, SBool, SNum, SStr, Sym, Unsupported,
                   cur, py_eq)
from .heap import MISSING, DictObj, ListObj, Obj
from .values import (BoundMethod, Closure, Enumerated, Fmt, SuperProxy,
                     SymCallable, SymDict, SymDictItems, SymDictValues, SymSeq)


class _Return(Exception):
    def __init__(self, value):
        self.value = value


class _Break(Exception):
    pass


class _Continue(Exception):
    pass


class OtherException(Exception):
    """Representative of 'any Exception subclass unrelated to the classes the code mentions'."""


def _exc_fields():
    from . import types as T

    se = dict(schema=T.Ref(None, name=T.Opt(T.Any)), data=T.Any, failure_cases=T.Any, check=T.Any, check_index=T.Any, check_output=T.Any,
              parser=T.Any, parser_index=T.Any, parser_output=T.Any, reason_code=T.Lazy(lambda n: MappedReason(name=n)), column_name=T.Any)
    return {"SchemaError": se,
            "SchemaErrors": dict(schema=T.Any, schema_errors=T.ListOf(T.Lazy(lambda n: cur().ghost["interp"].make_exc(_pandera_errors().SchemaError))), data=T.Any,
                                 failure_cases=T.Any, message=T.Any, error_counts=T.Any),
            "ParserError": dict(failure_cases=T.Any, parser_output=T.Any)}


def _pandera_errors():
    import pandera.errors as E

    return E


class MappedReason(SAny):
    """the reason code of a SchemaError raised by pandera: some member of SchemaErrorReason that the scope map knows
    (invariant of SchemaError objects; established by the structural obligation on the construction sites)"""


class _LazyExcFields(dict):
    def get(self, k, default=None):
        if not self:
            self.update(_exc_fields())
        return dict.get(self, k, default)


EXC_FIELD_TYPES = _LazyExcFields()


class OpaqueStar:
    """unknown *args / **kwargs that can only be forwarded"""

    def __init__(self, name, kind="args"):
        self.name, self.kind = name, kind

    def __repr__(self):
        return f"<*{self.name}>"


_FRAME_SEQ = [0]
_GENFN = {}


def _is_generator_function(node):
    """does the function body (not a nested def / lambda) contain yield / yield from?"""
    k = id(node)
    if k not in _GENFN:
        found = False
        stack = list(getattr(node, "body", []))
        while stack and not found:
            n = stack.pop()
            if isinstance(n, (ast.Yield, ast.YieldFrom)):
                found = True
            elif isinstance(n, (ast.FunctionDef, ast.AsyncFunctionDef, ast.Lambda, ast.ClassDef)):
                continue
            else:
                stack.extend(ast.iter_child_nodes(n))
        _GENFN[k] = found
    return _GENFN[k]


class Frame:
    def __init__(self, func: Closure, parent: Optional["Frame"], locals_set):
        _FRAME_SEQ[0] += 1
        self.seq = _FRAME_SEQ[0]  # activation order: freeze_heap remembers it ("activations that existed before the call under contract")
        self.func = func
        self.parent = parent
        self.locals: Dict[str, Any] = {}
        self.local_names = locals_set
        self.globals_decl = set()
        self.nonlocal_decl = set()
        self.exc_stack: List[PyExc] = []
        self.self_obj = None


# --------------------------------------------------------------------------------------
# source loading
# --------------------------------------------------------------------------------------


class Loader:
    def __init__(self):
        self.cache: Dict[int, Closure] = {}
        self.hashes: Dict[str, str] = {}
        self.local_cache: Dict[int, set] = {}

    def closure_of(self, fn) -> Closure:
        key = id(fn)
        if key in self.cache:
            return self.cache[key]
        try:
            src = inspect.getsource(fn.__code__)  # the code object: never follows __wrapped__
        except (OSError, TypeError) as e:
            raise Unsupported(f"no source for {fn!r}: {e}")
        src = textwrap.dedent(src)
        tree = ast.parse(src)
        node = tree.body[0]
        if not isinstance(node, (ast.FunctionDef, ast.AsyncFunctionDef)):
            raise Unsupported(f"{fn!r} is not a def")
        qn = f"{fn.__globals__.get('__name__', fn.__module__)}:{fn.__code__.co_qualname}"
        self.hashes[qn] = hashlib.sha256(src.encode()).hexdigest()[:16]
        defaults = list(fn.__defaults__ or ())
        kwdefaults = dict(fn.__kwdefaults__ or {})
        cells = {}
        if fn.__closure__:
            for name, cell in zip(fn.__code__.co_freevars, fn.__closure__):
                try:
                    cells[name] = cell.cell_contents
                except ValueError:
                    pass
        cls = cells.get("__class__")
        if cls is None:
            cls = _defining_class(fn)
        clo = Closure(node, None, qn, fn.__globals__, live=fn, defaults=defaults, kwdefaults=kwdefaults, cls=cls)
        clo.cells = cells
        self.cache[key] = clo
        return clo

    def local_names(self, node) -> set:
        key = id(node)
        if key in self.local_cache:
            return self.local_cache[key]
        names = set()
        a = node.args
        for arg in a.posonlyargs + a.args + a.kwonlyargs:
            names.add(arg.arg)
        if a.vararg:
            names.add(a.vararg.arg)
        if a.kwarg:
            names.add(a.kwarg.arg)
        body = node.body if isinstance(node.body, list) else [node.body]
        globs = set()

        def visit(n):
            if isinstance(n, (ast.FunctionDef, ast.AsyncFunctionDef, ast.ClassDef)):
                names.add(n.name)
                return
            if isinstance(n, ast.Lambda):
                return
            if isinstance(n, (ast.ListComp, ast.SetComp, ast.DictComp, ast.GeneratorExp)):
                # comprehension targets are local to the comprehension; walrus is not used in targets
                return
            if isinstance(n, ast.Name) and isinstance(n.ctx, (ast.Store, ast.Del)):
                names.add(n.id)
            elif isinstance(n, (ast.Global, ast.Nonlocal)):
                globs.update(n.names)
            elif isinstance(n, ast.ExceptHandler) and n.name:
                names.add(n.name)
            elif isinstance(n, (ast.Import, ast.ImportFrom)):
                for al in n.names:
                    names.add((al.asname or al.name).split(".")[0])
            for c in ast.iter_child_nodes(n):
                visit(c)

        for s in body:
            visit(s)
        names -= globs
        self.local_cache[key] = names
        return names


def _defining_class(fn):
    qn = getattr(fn, "__qualname__", "")
    if "." not in qn or "<locals>" in qn:
        return None
    mod = inspect.getmodule(fn)
    obj = mod
    try:
        for part in qn.split(".")[:-1]:
            obj = getattr(obj, part)
    except AttributeError:
        return None
    return obj if isinstance(obj, type) else None


LOADER = Loader()

_DROPPED_CALL_ATTRS = {("logger", "debug"), ("logger", "info"), ("logger", "warning")}

_BINOPS = {
    ast.Add: operator.add, ast.Sub: operator.sub, ast.Mult: operator.mul, ast.Div: operator.truediv,
    ast.FloorDiv: operator.floordiv, ast.Mod: operator.mod, ast.BitAnd: operator.and_, ast.BitOr: operator.or_,
    ast.BitXor: operator.xor, ast.Pow: operator.pow, ast.LShift: operator.lshift, ast.RShift: operator.rshift,
}


def _raised_inside_theory(e) -> bool:
    """the innermost frame of the traceback is theory code (pyvc/theories): the model met a value it has no view of"""
    tb = e.__traceback__
    last = None
    while tb is not None:
        last = tb
        tb = tb.tb_next
    return last is not None and "/pyvc/theories/" in last.tb_frame.f_code.co_filename.replace("\\", "/")


def is_concrete(v, depth=0) -> bool:
    if isinstance(v, (Sym, Obj, SymSeq, SymDict, SymCallable, Closure, BoundMethod, OpaqueStar)):
        return False
    if getattr(v, "__pyvc_symbolic__", False):
        return False
    if isinstance(v, (pytypes.FunctionType, pytypes.MethodType, pytypes.GeneratorType)) and (getattr(v, "__module__", "") or "").split(".")[0] == "pandera":
        return False  # never hand live pandera code to a natively executed library call (it would run un-interpreted)
    if depth > 3:
        return True
    if isinstance(v, (list, tuple, set, frozenset)):
        return all(is_concrete(x, depth + 1) for x in v)
    if isinstance(v, dict):
        return all(is_concrete(k, depth + 1) and is_concrete(x, depth + 1) for k, x in v.items())
    return True


class ModelTable(dict):
    """id(live callable) -> model.  Builtin methods bound to a class (dict.fromkeys, ...) are fresh objects on every
    attribute access, so their ids are transient: they are keyed by (owner, name) instead, and every registered callable is
    kept alive so that its id cannot be recycled by an unrelated object."""

    def __init__(self):
        super().__init__()
        self.by_qual = {}
        self.keepalive = []

    def register(self, fn, model):
        if isinstance(fn, pytypes.BuiltinFunctionType) and isinstance(getattr(fn, "__self__", None), type):
            self.by_qual[(fn.__self__, fn.__name__)] = model
            return
        self.keepalive.append(fn)
        self[id(fn)] = model

    def lookup(self, fn):
        m = self.get(id(fn))
        if m is None and isinstance(fn, pytypes.BuiltinFunctionType) and isinstance(getattr(fn, "__self__", None), type):
            m = self.by_qual.get((fn.__self__, fn.__name__))
        return m


def _static_flag(obj, name):
    """flag lookup that does not trigger __getattr__ (pl.col.<anything> builds an expression whose truth value raises)"""
    try:
        return inspect.getattr_static(obj, name, False) is True
    except Exception:  # noqa: BLE001
        return False


def _raised_here_not_in_iterator(e):
    return "is not iterable" in str(e)


class Interp:
    def __init__(self):
        self.models: Dict[int, Any] = ModelTable()  # id(live callable) -> model(interp, *args, **kw)
        self.models_by_name: Dict[str, Any] = {}
        self.contracts: Dict[int, Any] = {}  # id(live function) -> Contract (applied at call sites)
        self.inline_modules = ("pandera",)
        self.no_inline: set = set()
        self.sym_globals: Dict[Tuple[str, str], Any] = {}
        # live module-level / class-level mutable containers of pandera reached by the interpreted code (id -> "module.name"):
        # state every thread shares.  A write to one is recorded (`shared_container_write`) and undone at the end of the path.
        self.live_shared: Dict[int, str] = {}
        self.loop_specs: Dict[Tuple[str, int], Any] = {}
        self.opaque_calls: Dict[str, int] = {}
        self.inlined: Dict[str, str] = {}
        self.yield_hook = None
        self.max_depth = 40
        self.callsite_counter: Dict[str, int] = {}
        self.target_qualname = ""
        self.callback_raise_classes = None  # set by driver
        self.opaque_may_raise = False
        from . import stdlib_models

        stdlib_models.install(self)

    # ------------------------------------------------------------------ exceptions helpers
    def make_exc(self, cls, *args, **fields):
        o = Obj(cls, cls.__name__, pre=False)
        o.attrs["args"] = tuple(args)
        o.attrs.update(fields)
        ft = EXC_FIELD_TYPES.get(cls.__name__)
        if ft and not args:
            # an exception raised by a callee under contract: its documented fields exist, with arbitrary values
            o.field_types = dict(ft)
            o.lazy = True
        return o

    def raise_py(self, cls, *args):
        raise PyExc(self.make_exc(cls, *args))

    # ------------------------------------------------------------------ calling
    def call(self, fn, args=(), kwargs=None):
        kwargs = kwargs or {}
        p = cur()
        if p.depth > self.max_depth:
            raise Unsupported("call depth exceeded (recursion?)")
        if isinstance(fn, Closure):
            return self.call_closure(fn, list(args), kwargs)
        if isinstance(fn, BoundMethod):
            return self.call(fn.func, [fn.self_obj] + list(args), kwargs)
        if isinstance(fn, SymCallable):
            return self.call_callback(fn, args, kwargs)
        if isinstance(fn, functools.partial):
            kw = dict(fn.keywords)
            kw.update(kwargs)
            return self.call(fn.func, list(fn.args) + list(args), kw)
        if isinstance(fn, PartialVal):
            kw = dict(fn.kwargs)
            kw.update(kwargs)
            return self.call(fn.func, list(fn.args) + list(args), kw)
        if getattr(type(fn), "pyvc_not_callable", False) is True:
            # a theory value of a library class that defines no __call__ (a pandas Series / DataFrame): python's own TypeError
            self.raise_py(TypeError, f"'{getattr(fn.pyvc_class(), '__name__', 'object')}' object is not callable")
        # models first (live callables with a theory implementation)
        m = self.models.lookup(fn)
        if m is None and isinstance(fn, functools._lru_cache_wrapper):
            # a memoised function is STATE between calls: the call either computes, or returns what an earlier call computed for an
            # argument that is EQUAL (== and hash) to this one - not necessarily the same object.  Nothing else is known about a hit.
            name = getattr(fn, "__qualname__", getattr(fn, "__name__", "memoised function"))
            plain = lambda a: a is None or isinstance(a, (str, int, float, bool, bytes, type)) or (isinstance(a, (tuple, frozenset)) and all(plain(x) for x in a))  # noqa: E731
            if all(plain(a) for a in list(args) + list(kwargs.values())):
                return fn(*args, **kwargs)  # plain values: equal means indistinguishable, the memo cannot be told from the function
            if p.choose([("computes", None), ("returns_the_result_cached_for_an_equal_argument", None)], f"lru_cache({name})") == 0:
                return self.call(fn.__wrapped__, list(args), kwargs)
            r = SAny(name=f"result of {name} cached for an equal argument")
            p.ghost.setdefault("memo_hits", []).append((fn, tuple(args), r))
            return r
        if m is None and inspect.ismethod(fn):
            m = self.models.get(id(fn.__func__))
            if m is not None:
                return self._call_model(m, fn, (fn.__self__,) + tuple(args), kwargs)
        if m is not None:
            return self._call_model(m, fn, args, kwargs)
        if callable(fn) and (getattr(fn, "__module__", None) or "").split(".")[0] in ("pyvc", "contracts"):
            try:
                return fn(*args, **kwargs)  # theory / contract code: runs natively on symbolic values
            except TypeError as e:
                # the program calls a library operation with arguments its theory model does not have (binding failed at the
                # call itself, no frame of the model ran): the call left the modelled vocabulary -> undecided, never a crash
                if e.__traceback__ is not None and e.__traceback__.tb_next is None and ("unexpected keyword" in str(e) or "positional argument" in str(e)):
                    raise Unsupported(f"theory model {getattr(fn, '__qualname__', fn)} does not model this call: {e}")
                if _raised_inside_theory(e):
                    raise Unsupported(f"theory model {getattr(fn, '__qualname__', fn)} cannot handle this call (a value outside its vocabulary): {type(e).__name__}: {e}")
                raise
            except (AttributeError, IndexError, KeyError) as e:
                # a library object the theory has no view of (e.g. a real polars expression) reached a theory model
                if _raised_inside_theory(e):
                    raise Unsupported(f"theory model {getattr(fn, '__qualname__', fn)} cannot handle this call (a value outside its vocabulary): {type(e).__name__}: {e}")
                raise
        if inspect.ismethod(fn):  # live bound method (e.g. classmethod bound to a class)
            return self.call(fn.__func__, [fn.__self__] + list(args), kwargs)
        if isinstance(fn, type):
            return self.instantiate(fn, list(args), kwargs)
        if isinstance(fn, pytypes.FunctionType):
            c = self.contracts.get(id(fn))
            if c is not None:
                return c.apply(self, list(args), kwargs)
            mod = getattr(fn, "__module__", "") or ""
            if mod.split(".")[0] in self.inline_modules and id(fn) not in self.no_inline:
                clo = LOADER.closure_of(fn)
                self.inlined[clo.qualname] = LOADER.hashes[clo.qualname]
                return self.call_closure(clo, list(args), kwargs)
        if callable(fn) and _static_flag(fn, "__pyvc_model__"):
            return fn(*args, **kwargs)
        # all-concrete call to a library / builtin function: run it
        if is_concrete(list(args)) and is_concrete(kwargs) and callable(fn):
            mod = getattr(fn, "__module__", None) or ""
            if mod.split(".")[0] not in self.inline_modules:
                try:
                    return fn(*args, **kwargs)
                except PathAbort:
                    raise
                except Unsupported:
                    raise
                except Exception as e:  # the real library raised: that is the program's exception
                    raise PyExc(self.make_exc(type(e), *e.args))
        if callable(fn) and _static_flag(fn, "__pyvc_model__"):
            return fn(*args, **kwargs)
        return self.opaque_call(fn, args, kwargs)

    def opaque_call(self, fn, args, kwargs):
        name = getattr(fn, "__qualname__", None) or getattr(fn, "__name__", None) or repr(fn)
        mod = getattr(fn, "__module__", "") or ""
        key = f"{mod}.{name}"
        self.opaque_calls[key] = self.opaque_calls.get(key, 0) + 1
        if self.opaque_may_raise:
            k = cur().choose([("ret", None), ("raise", None)], f"opaque {name}")
            if k == 1:
                raise PyExc(self.make_exc(OtherException))
        return SAny(name=f"ret_{name}")

    def _call_model(self, m, fn, args, kwargs):
        """a theory model of a library function: a value outside its vocabulary (a real library object reaching theory code) makes
        the call UNDECIDED, never a checker crash - as for theory methods called directly"""
        try:
            import inspect as _inspect

            try:
                _inspect.signature(m).bind(self, *args, **kwargs)
            except TypeError as e:
                # the code under contract calls the callee with arguments its interface contract (the model) does not know: the
                # callee's interface is not the one that was specified - undecided, not a crash of the checker
                raise Unsupported(f"call of {getattr(fn, '__qualname__', getattr(fn, '__name__', fn))} does not fit the interface its contract states: {e}")
            except ValueError:
                pass  # (no signature available: builtins)
            return m(self, *args, **kwargs)
        except (AttributeError, IndexError, KeyError, TypeError) as e:
            if _raised_inside_theory(e):
                raise Unsupported(f"theory model of {getattr(fn, '__qualname__', getattr(fn, '__name__', fn))} cannot handle this call (a value outside its vocabulary): {type(e).__name__}: {e}")
            raise

    def call_callback(self, cb: SymCallable, args, kwargs):
        idx = len(cb.calls)
        cb.calls.append((tuple(args), dict(kwargs)))
        cur().event("callback", cb.name, idx, tuple(args))
        if cb.raises:
            classes = cb.raise_classes or self.callback_raise_classes or [OtherException]
            opts = [("ret", None)] + [(c.__name__, None) for c in classes]
            k = cur().choose(opts, f"{cb.name}#{idx}")
            if k > 0:
                exc = self.make_exc(classes[k - 1])
                exc.attrs["__from_callback__"] = (cb.name, idx)
                cur().event("callback_raised", cb.name, idx, classes[k - 1].__name__)
                raise PyExc(exc)
        return T.fresh_value(cb.result, f"{cb.name}#{idx}")

    def instantiate(self, cls, args, kwargs):
        # exceptions, NamedTuples, dataclasses and plain pandera classes become fresh heap objects
        if issubclass(cls, enum.Enum):
            if is_concrete(args):
                try:
                    return cls(*args)
                except ValueError as e:
                    raise PyExc(self.make_exc(ValueError, *e.args))
            # symbolic string -> member: fork over members by value, else ValueError
            (v,) = args
            members = list(cls)
            for m in members:
                if cur().decide(py_eq(v, m.value), f"{cls.__name__}=={m.name}"):
                    return m
            self.raise_py(ValueError, "not a valid member")
        o = Obj(cls, cls.__name__.lower(), pre=False)
        if issubclass(cls, tuple) and hasattr(cls, "_fields"):  # NamedTuple
            fields = cls._fields
            defaults = getattr(cls, "_field_defaults", {})
            vals = dict(defaults)
            for name, a in zip(fields, args):
                vals[name] = a
            for k, v in kwargs.items():
                if k not in fields:
                    self.raise_py(TypeError, f"unexpected keyword {k}")
                vals[k] = v
            for f in fields:
                if f not in vals:
                    self.raise_py(TypeError, f"missing field {f}")
                o.attrs[f] = vals[f]
            o.attrs["__fields__order"] = fields
            return o
        init = _find_in_mro(cls, "__init__")
        if init is object.__init__ or init is None:
            return o
        if isinstance(init, pytypes.FunctionType):
            mod = (init.__module__ or "").split(".")[0]
            if mod in self.inline_modules or getattr(cls, "__dataclass_fields__", None):
                if getattr(cls, "__dataclass_fields__", None) and init.__qualname__.endswith("__init__") and init.__module__ != cls.__module__ or _is_dataclass_init(cls, init):
                    self._dataclass_init(o, cls, args, kwargs)
                    return o
                self.call(init, [o] + args, kwargs)
                return o
        if issubclass(cls, BaseException):
            o.attrs["args"] = tuple(args)
            return o
        if is_concrete(args) and is_concrete(kwargs):
            try:
                return cls(*args, **kwargs)
            except Exception as e:
                raise PyExc(self.make_exc(type(e), *e.args))
        raise Unsupported(f"cannot instantiate {cls!r} symbolically")

    def _dataclass_init(self, o, cls, args, kwargs):
        import dataclasses

        fs = [f for f in dataclasses.fields(cls) if f.init]
        vals = {}
        for f, a in zip(fs, args):
            vals[f.name] = a
        vals.update(kwargs)
        for f in fs:
            if f.name in vals:
                o.attrs[f.name] = vals[f.name]
            elif f.default is not dataclasses.MISSING:
                o.attrs[f.name] = f.default
            elif f.default_factory is not dataclasses.MISSING:  # type: ignore
                o.attrs[f.name] = f.default_factory()  # type: ignore
            else:
                self.raise_py(TypeError, f"missing {f.name}")

    # ------------------------------------------------------------------ closures
    def bind(self, clo: Closure, args: list, kwargs: dict) -> Dict[str, Any]:
        a = clo.node.args
        params = a.posonlyargs + a.args
        out: Dict[str, Any] = {}
        star = None
        if args and isinstance(args[-1], OpaqueStar) and args[-1].kind == "args":
            star = args.pop()
        if len(args) > len(params):
            if not a.vararg:
                self.raise_py(TypeError, f"{clo.qualname}() takes {len(params)} positional arguments but {len(args)} were given")
            out[a.vararg.arg] = tuple(args[len(params):]) if star is None else StarTuple(tuple(args[len(params):]), star)
            args = args[: len(params)]
        elif a.vararg:
            out[a.vararg.arg] = () if star is None else StarTuple((), star)
        elif star is not None:
            raise Unsupported("opaque *args passed to a function without *args")
        for prm, v in zip(params, args):
            out[prm.arg] = v
        kwargs = dict(kwargs)
        kwstar = kwargs.pop("**opaque", None)
        ndefault_start = len(params) - len(clo.defaults)
        for i, prm in enumerate(params):
            if prm.arg in out:
                if prm.arg in kwargs:
                    self.raise_py(TypeError, f"multiple values for {prm.arg}")
                continue
            if prm.arg in kwargs:
                out[prm.arg] = kwargs.pop(prm.arg)
            elif i >= ndefault_start:
                out[prm.arg] = clo.defaults[i - ndefault_start]
            else:
                self.raise_py(TypeError, f"{clo.qualname}() missing argument {prm.arg}")
        for prm, dflt in zip(a.kwonlyargs, a.kw_defaults):
            if prm.arg in kwargs:
                out[prm.arg] = kwargs.pop(prm.arg)
            elif prm.arg in clo.kwdefaults:
                out[prm.arg] = clo.kwdefaults[prm.arg]
            elif dflt is not None and clo.frame is not None:
                out[prm.arg] = clo._kw_default_values[prm.arg]
            else:
                self.raise_py(TypeError, f"missing keyword-only argument {prm.arg}")
        if a.kwarg:
            d = DictObj(kwargs)
            if kwstar is not None:
                d.opaque_rest = kwstar
            out[a.kwarg.arg] = d
        elif kwargs:
            self.raise_py(TypeError, f"{clo.qualname}() got unexpected keyword {sorted(kwargs)}")
        elif kwstar is not None:
            raise Unsupported("opaque **kwargs passed to a function without **kwargs")
        return out

    def call_closure(self, clo: Closure, args: list, kwargs: dict):
        p = cur()
        bound = self.bind(clo, list(args), kwargs)
        fr = Frame(clo, clo.frame, LOADER.local_names(clo.node))
        fr.locals.update(bound)
        prm = clo.node.args.posonlyargs + clo.node.args.args
        if prm:
            fr.self_obj = bound.get(prm[0].arg)
        p.depth += 1
        try:
            if isinstance(clo.node, ast.Lambda):
                return self.eval(clo.node.body, fr)
            if self.yield_hook is None and _is_generator_function(clo.node):
                # a generator function called for its values (for x in gen(): ..., list(gen()), next(gen(), d)): evaluated EAGERLY into
                # the list of what it yields - the same values in the same order for a generator that terminates and whose consumer
                # does not interleave effects with it (the consumers in pandera iterate it to the end)
                collected = ListObj()
                collected.pre = False

                def collect(I_, fr_, v, collected=collected):
                    list.append(collected, v)
                    return None

                self.yield_hook = collect
                try:
                    try:
                        self.exec_block(clo.node.body, fr)
                    except _Return:
                        pass
                finally:
                    self.yield_hook = None
                return collected
            try:
                self.exec_block(clo.node.body, fr)
            except _Return as r:
                return r.value
            return None
        finally:
            p.depth -= 1

    # ------------------------------------------------------------------ names
    def lookup(self, name, fr: Frame):
        f = fr
        first = True
        while f is not None:
            if name in f.locals and not (first and name in f.globals_decl):
                return f.locals[name]
            if first and name in f.local_names and name not in f.globals_decl and name not in f.nonlocal_decl:
                self.raise_py(UnboundLocalError, f"local variable '{name}' referenced before assignment")
            cells = getattr(f.func, "cells", None)
            if cells and name in cells:
                return cells[name]
            f = f.parent
            first = False
        return self.lookup_global(name, fr.func)

    def lookup_global(self, name, func: Closure):
        g = func.module_globals
        modname = g.get("__name__", "?")
        key = (modname, name)
        p = cur()
        if key in p.globals_state:
            return p.globals_state[key]
        if key in self.sym_globals:
            v = T.fresh_value(self.sym_globals[key], f"{modname.rsplit('.', 1)[-1]}.{name}")
            p.globals_state[key] = v
            p.ghost.setdefault("globals0", {})[key] = v
            return v
        if name in g:
            self.note_live_shared(g[name], f"{modname}.{name}")
            return g[name]
        if hasattr(builtins, name):
            return getattr(builtins, name)
        self.raise_py(NameError, name)

    def store_name(self, name, value, fr: Frame):
        if name in fr.globals_decl:
            modname = fr.func.module_globals.get("__name__", "?")
            key = (modname, name)
            p = cur()
            if key not in p.globals_state and key in self.sym_globals:
                self.lookup_global(name, fr.func)  # materialise old value first
            p.globals_state[key] = value
            p.event("global_write", key)
            return
        if name in fr.nonlocal_decl:
            f = fr.parent
            while f is not None:
                if name in f.locals or name in f.local_names:
                    # a write to a variable of an ENCLOSING activation: state that every closure over it shares (frame obligations
                    # treat the cells of activations that were finished before the call under contract as pre-existing state)
                    ws = cur().ghost.setdefault("closure_writes", {})
                    ws.setdefault((id(f), name), (f, name, f.locals.get(name, MISSING)))
                    f.locals[name] = value
                    return
                f = f.parent
            raise Unsupported(f"nonlocal {name} not found")
        fr.locals[name] = value

    # ------------------------------------------------------------------ attributes
    def getattr(self, v, name):
        if isinstance(v, Obj):
            return self.obj_getattr(_alias_root(v) if name != "__class__" else v, name)
        if isinstance(v, SuperProxy):
            mro = v.obj.cls.__mro__ if isinstance(v.obj, Obj) else type(v.obj).__mro__
            idx = mro.index(v.cls)
            for c in mro[idx + 1:]:
                if name in c.__dict__:
                    a = c.__dict__[name]
                    if isinstance(a, pytypes.FunctionType):
                        return BoundMethod(v.obj, a)
                    if isinstance(a, (classmethod,)):
                        return BoundMethod(v.obj.cls if isinstance(v.obj, Obj) else type(v.obj), a.__func__)
                    if isinstance(a, staticmethod):
                        return a.__func__
                    if isinstance(a, property):
                        return self.call(a.fget, [v.obj])
                    if type(a).__name__ == "wrapper_descriptor" and name == "__init__":
                        return BuiltinInit(v.obj)
                    return a
            self.raise_py(AttributeError, name)
        if v is None:
            self.raise_py(AttributeError, f"'NoneType' object has no attribute '{name}'")
        if isinstance(v, (ListObj, list)) and name in ("append", "extend", "pop", "insert", "remove", "clear", "sort", "reverse"):
            return ListMutator(self, v, name)
        if isinstance(v, (DictObj, dict)) and name in ("pop", "update", "setdefault", "popitem", "clear"):
            return DictMutator(self, v, name)
        if isinstance(v, (DictObj, dict)) and name == "get" and not getattr(v, "__pyvc_symbolic__", False):
            return DictGet(self, v)  # additive (C16): d.get(k, default) with a symbolic default / value is a plain read
        if isinstance(v, SAny) and not hasattr(type(v), name):
            # attribute of an opaque value: opaque
            return OpaqueAttr(v, name)
        if isinstance(v, pytypes.ModuleType) or isinstance(v, type):
            modname = v.__name__ if isinstance(v, pytypes.ModuleType) else None
            if modname is not None:
                key = (modname, name)
                p = cur()
                if key in p.globals_state:
                    return p.globals_state[key]
                if key in self.sym_globals:
                    val = T.fresh_value(self.sym_globals[key], f"{modname.rsplit('.', 1)[-1]}.{name}")
                    p.globals_state[key] = val
                    p.ghost.setdefault("globals0", {})[key] = val
                    return val
        if isinstance(v, set) and name in ("add", "update", "discard", "remove", "clear", "pop", "difference_update", "intersection_update", "symmetric_difference_update"):
            return SetMutator(self, v, name)
        try:
            r = getattr(v, name)
            if isinstance(v, (pytypes.ModuleType, type)):
                self.note_live_shared(r, f"{getattr(v, '__module__', None) + '.' + v.__qualname__ if isinstance(v, type) else v.__name__}.{name}")
            return r
        except AttributeError as e:
            if getattr(v, "__pyvc_symbolic__", False):
                hook = getattr(type(v), "pyvc_missing_attr", None)
                if hook is not None:
                    return hook(v, self, name)  # (the library's own __getattr__: e.g. a DataFrame's columns are attributes)
                raise Unsupported(f"theory value {type(v).__name__} has no model for .{name}")
            if type(v).__module__.split(".")[0] == "pyvc":
                # an interpreter value (an opaque attribute, a bound method, ...): what the real object would answer is not known
                raise Unsupported(f"attribute .{name} of an interpreter value {type(v).__name__}")
            raise PyExc(self.make_exc(AttributeError, *e.args))

    def obj_getattr(self, o: Obj, name):
        if name == "__class__":
            return o.cls
        if name == "__dict__":
            return ObjDictView(o)
        cls_attr = _find_in_mro(o.cls, name) if o.cls is not None else None
        if isinstance(cls_attr, property):
            if name in o.field_types or name in o.attrs:  # abstracted property: declared as a field
                pass
            else:
                return self.call(cls_attr.fget, [o])
        if isinstance(cls_attr, (pytypes.FunctionType, classmethod, staticmethod)) and name not in o.field_types and not dict.__contains__(o.attrs, name):
            # a method of the class (not shadowed by an instance attribute): never materialise a symbolic attribute for it
            if isinstance(cls_attr, pytypes.FunctionType):
                return BoundMethod(o, cls_attr)
            if isinstance(cls_attr, classmethod):
                return BoundMethod(o.cls, cls_attr.__func__)
            return cls_attr.__func__
        if name in ("__str__", "__repr__") and type(cls_attr).__name__ in ("wrapper_descriptor", "method_descriptor"):
            return SlotText(o, name)
        if name in o.attrs:
            return o.attrs[name]
        if name in o.__dict__.get("deleted", ()):  # deleted attribute
            self.raise_py(AttributeError, name)
        if cls_attr is not None and not isinstance(cls_attr, property):
            if name in o.field_types and o.pre:
                return heap.materialise(o, name)
            if isinstance(cls_attr, pytypes.FunctionType):
                return BoundMethod(o, cls_attr)
            if isinstance(cls_attr, classmethod):
                return BoundMethod(o.cls, cls_attr.__func__)
            if isinstance(cls_attr, staticmethod):
                return cls_attr.__func__
            if isinstance(cls_attr, functools.cached_property):
                return self.call(cls_attr.func, [o])
            if hasattr(cls_attr, "__get__") and not isinstance(cls_attr, (int, str, bool, tuple, frozenset, type(None), enum.Enum)) and type(cls_attr).__name__ in ("member_descriptor", "_tuplegetter"):
                pass
            else:
                return cls_attr
        if o.pre or (getattr(o, "lazy", False) and name in o.field_types):
            v = heap.materialise(o, name)
            if v is not MISSING:
                return v
        self.raise_py(AttributeError, f"'{o.cls.__name__ if o.cls else 'object'}' object has no attribute '{name}'")

    def hasattr(self, v, name) -> bool:
        if isinstance(v, Obj):
            v = _alias_root(v)
            if name in v.attrs:
                return True
            if name in getattr(v, "deleted", ()):
                return False
            if v.cls is not None and _find_in_mro(v.cls, name) is not None:
                return True
            if (v.pre or getattr(v, "lazy", False)) and name in v.field_types:
                return True
            return False
        if isinstance(v, Sym) or getattr(v, "__pyvc_symbolic__", False):
            ph = getattr(type(v), "pyvc_hasattr", None)
            if ph is not None:
                return self.truth(ph(v, name), f"hasattr(.{name})")
            return hasattr(type(v), name) or name in getattr(v, "extra_attrs", ())
        return hasattr(v, name)

    def setattr(self, v, name, value):
        if isinstance(v, Obj) and name == "__dict__":
            # `obj.__dict__ = d`: the instance dict is REPLACED.  With d the instance dict of another object (copy.copy hands
            # x.__dict__ itself to __setstate__) the two objects share every attribute from here on.
            if isinstance(value, ObjDictView):
                v.alias_of = _alias_root(value.o)
                v.attrs = v.alias_of.attrs  # (the same dict object: contracts that read .attrs see the shared state)
                cur().event("dict_aliased", v, v.alias_of)
                return
            raise Unsupported("obj.__dict__ = <dict>")
        if isinstance(v, Obj):
            v = _alias_root(v)
        if isinstance(v, Obj):
            cls_attr = _find_in_mro(v.cls, name) if v.cls is not None else None
            if isinstance(cls_attr, property) and name not in v.field_types:
                if cls_attr.fset is None:
                    self.raise_py(AttributeError, f"can't set attribute {name}")
                self.call(cls_attr.fset, [v, value])
                return
            if v.cls is not None and getattr(v.cls, "__pyvc_frozen__", False):
                self.raise_py(AttributeError, "frozen")
            if v.pre and name not in v.attrs:
                heap.materialise(v, name)  # remember old value
            v.attrs[name] = value
            v.writes.append(name)
            if hasattr(v, "deleted"):
                v.deleted.discard(name)
            cur().event("write", v, name, value)
            if (v.pre or getattr(v, "published", False)) and isinstance(value, (ListObj, DictObj, Obj)) and not getattr(value, "pre", False):
                # publication: a freshly built object becomes reachable from shared state; from here on writing it is a write to shared state
                try:
                    value.published = f"{v.name}.{name}"
                except AttributeError:
                    pass
            elif getattr(v, "published", False) and not v.pre:
                cur().event("published_write", v, name)
            return
        if isinstance(v, pytypes.ModuleType):
            key = (v.__name__, name)
            cur().globals_state[key] = value
            cur().event("global_write", key)
            return
        if getattr(v, "__pyvc_symbolic__", False):
            return v.pyvc_setattr(self, name, value)
        raise Unsupported(f"write to attribute {name} of live object {type(v).__name__}: declare it symbolic")

    def delattr(self, v, name):
        if isinstance(v, Obj):
            v = _alias_root(v)
            if v.pre and name not in v.attrs:
                heap.materialise(v, name)
            if name in v.attrs:
                del v.attrs[name]
            if not hasattr(v, "deleted"):
                v.deleted = set()
            v.deleted.add(name)
            v.writes.append(name)
            cur().event("write", v, name)
            return
        raise Unsupported("del on live object")

    # ------------------------------------------------------------------ truthiness
    def truth(self, v, label="if") -> bool:
        if isinstance(v, bool):
            return v
        if isinstance(v, Sym):
            return cur().decide(v.truth(), label)
        if isinstance(v, Obj):
            if v.cls is not None:
                b = _find_in_mro(v.cls, "__bool__")
                if b is not None and isinstance(b, pytypes.FunctionType):
                    return self.truth(self.call(b, [v]))
                ln = _find_in_mro(v.cls, "__len__")
                if ln is not None and isinstance(ln, pytypes.FunctionType):
                    return self.truth(self.call(ln, [v]))
            return True
        if hasattr(v, "pyvc_truth"):
            return self.truth(v.pyvc_truth(), label)
        return bool(v)

    # ------------------------------------------------------------------ statements
    def exec_block(self, stmts, fr: Frame):
        for s in stmts:
            self.exec_stmt(s, fr)

    def exec_stmt(self, s, fr: Frame):
        m = getattr(self, "s_" + type(s).__name__, None)
        if m is None:
            raise Unsupported(f"statement {type(s).__name__} at {fr.func.qualname}:{getattr(s, 'lineno', '?')}")
        return m(s, fr)

    def s_Expr(self, s, fr):
        if isinstance(s.value, ast.Constant):
            return  # docstring
        self.eval(s.value, fr)

    def s_Pass(self, s, fr):
        pass

    def s_Return(self, s, fr):
        raise _Return(self.eval(s.value, fr) if s.value is not None else None)

    def s_Break(self, s, fr):
        raise _Break()

    def s_Continue(self, s, fr):
        raise _Continue()

    def s_Global(self, s, fr):
        fr.globals_decl.update(s.names)

    def s_Nonlocal(self, s, fr):
        fr.nonlocal_decl.update(s.names)

    def s_Import(self, s, fr):
        import importlib

        for al in s.names:
            mod = importlib.import_module(al.name)
            if al.asname:
                fr.locals[al.asname] = mod
            else:
                fr.locals[al.name.split(".")[0]] = importlib.import_module(al.name.split(".")[0])

    def s_ImportFrom(self, s, fr):
        import importlib

        mod = importlib.import_module(s.module)
        for al in s.names:
            if not hasattr(mod, al.name):  # `from package import submodule`: the import system loads the submodule
                try:
                    importlib.import_module(f"{s.module}.{al.name}")
                except ImportError as e:
                    self.raise_py(ImportError, *e.args)
            fr.locals[al.asname or al.name] = getattr(mod, al.name)

    def s_FunctionDef(self, s, fr):
        clo = Closure(s, fr, fr.func.qualname + ".<locals>." + s.name, fr.func.module_globals, cls=fr.func.cls)
        clo.defaults = [self.eval(d, fr) for d in s.args.defaults]
        clo._kw_default_values = {
            a.arg: self.eval(d, fr) for a, d in zip(s.args.kwonlyargs, s.args.kw_defaults) if d is not None
        }
        clo.kwdefaults = dict(clo._kw_default_values)
        val: Any = clo
        for dec in reversed(s.decorator_list):
            d = self.eval(dec, fr)
            if d is functools.wraps or (isinstance(d, PartialVal) and d.func is functools.wraps):
                continue
            if isinstance(d, WrapsMarker):
                continue
            val = self.call(d, [val])
        fr.locals[s.name] = val

    s_AsyncFunctionDef = s_FunctionDef

    def s_Assign(self, s, fr):
        v = self.eval(s.value, fr)
        for t in s.targets:
            self.assign(t, v, fr)

    def s_AnnAssign(self, s, fr):
        if s.value is not None:
            self.assign(s.target, self.eval(s.value, fr), fr)

    def s_AugAssign(self, s, fr):
        load = _copy.copy(s.target)
        load.ctx = ast.Load()
        cur_v = self.eval(load, fr)
        rhs = self.eval(s.value, fr)
        if isinstance(cur_v, (list, ListObj)) and isinstance(s.op, ast.Add):
            self.list_mutate(cur_v, "extend", [rhs])
            return
        self.assign(s.target, self.binop(type(s.op), cur_v, rhs), fr)

    def s_Delete(self, s, fr):
        for t in s.targets:
            if isinstance(t, ast.Attribute):
                self.delattr(self.eval(t.value, fr), self.mangle(t.attr, fr))
            elif isinstance(t, ast.Name):
                fr.locals.pop(t.id, None)
            elif isinstance(t, ast.Subscript):
                c = self.eval(t.value, fr)
                k = self.eval(t.slice, fr)
                if isinstance(c, (dict, DictObj)):
                    DictMutator(self, c, "pop")(k)
                else:
                    raise Unsupported("del subscript")
            else:
                raise Unsupported("del target")

    def assign(self, t, v, fr):
        if isinstance(t, ast.Name):
            self.store_name(t.id, v, fr)
        elif isinstance(t, ast.Attribute):
            self.setattr(self.eval(t.value, fr), self.mangle(t.attr, fr), v)
        elif isinstance(t, (ast.Tuple, ast.List)) and any(isinstance(e, ast.Starred) for e in t.elts):
            # a, *rest, z = concrete sequence   (C17: `obj_arg_name, *_ = _get_fn_argnames(wrapped)`)
            (si,) = [i for i, e in enumerate(t.elts) if isinstance(e, ast.Starred)]
            items = list(self.concrete_iter(v))
            after = len(t.elts) - si - 1
            if len(items) < len(t.elts) - 1:
                self.raise_py(ValueError, f"not enough values to unpack (expected at least {len(t.elts) - 1}, got {len(items)})")
            for e, x in zip(t.elts[:si], items[:si]):
                self.assign(e, x, fr)
            self.assign(t.elts[si].value, ListObj(items[si:len(items) - after]), fr)
            for e, x in zip(t.elts[si + 1:], items[len(items) - after:] if after else []):
                self.assign(e, x, fr)
        elif isinstance(t, (ast.Tuple, ast.List)):
            if any(isinstance(x, ast.Starred) for x in t.elts) and hasattr(v, "pyvc_unpack_star"):
                # additive (C16): `a, *rest = <theory sequence>`
                star = [isinstance(x, ast.Starred) for x in t.elts].index(True)
                vals = v.pyvc_unpack_star(self, star, len(t.elts) - star - 1)
                for e2, x in zip(t.elts, vals):
                    self.assign(e2.value if isinstance(e2, ast.Starred) else e2, x, fr)
                return
            vals = self.unpack(v, len(t.elts))
            for e, x in zip(t.elts, vals):
                self.assign(e, x, fr)
        elif isinstance(t, ast.Subscript):
            c = self.eval(t.value, fr)
            k = self.eval(t.slice, fr)
            self.setitem(c, k, v)
        else:
            raise Unsupported(f"assign target {type(t).__name__}")

    def unpack(self, v, n):
        if isinstance(v, (tuple, list)):
            if len(v) != n:
                self.raise_py(ValueError, "unpack")
            return list(v)
        if isinstance(v, Obj) and "__fields__order" in v.attrs:
            return [v.attrs[f] for f in v.attrs["__fields__order"]]
        if hasattr(v, "pyvc_unpack"):
            return v.pyvc_unpack(n)
        raise Unsupported(f"unpack {type(v).__name__}")

    def setitem(self, c, k, v):
        if hasattr(c, "pyvc_setitem"):
            return c.pyvc_setitem(self, k, v)
        if isinstance(c, (dict, DictObj)):
            if not is_concrete(k) and not isinstance(k, Obj):
                raise Unsupported("dict store with symbolic key")
            self.note_container_write(c)
            dict.__setitem__(c, k, v)
            return
        if isinstance(c, (list, ListObj)):
            self.note_container_write(c)
            list.__setitem__(c, k, v)
            return
        if c is None:
            self.raise_py(TypeError, "'NoneType' object does not support item assignment")
        raise Unsupported(f"setitem on {type(c).__name__}")

    def note_live_shared(self, v, where):
        """remember a live mutable container that belongs to a pandera module or class (shared by every thread)"""
        if type(v) in (dict, list, set, collections.defaultdict, collections.OrderedDict) and where.split(".")[0] in self.inline_modules:
            self.live_shared.setdefault(id(v), where)
            self.models.keepalive.append(v)

    def note_container_write(self, c):
        if id(c) in self.live_shared and not isinstance(c, (ListObj, DictObj)):
            p = cur()
            p.event("shared_container_write", self.live_shared[id(c)])
            snap = p.ghost.setdefault("live_snap", {})  # undone by restore_live_shared at the end of the path
            if id(c) not in snap:
                snap[id(c)] = (c, _copy.copy(c))
            return
        if getattr(c, "published", False) and not getattr(c, "pre", False):
            cur().event("published_container_write", c, c.published)
        if getattr(c, "pre", False) or getattr(c, "live", False):
            cur().event("container_write", c)
            snap = cur().ghost.setdefault("container0", {})
            if id(c) not in snap:
                snap[id(c)] = (c, _copy.copy(dict(c)) if isinstance(c, dict) else list(c))
        elif not isinstance(c, (ListObj, DictObj)) and cur().ghost.get("live_containers", {}).get(id(c)):
            raise Unsupported("write to live container")

    def list_mutate(self, lst, op, args):
        self.note_container_write(lst)
        return getattr(list, op)(lst, *args)

    def s_If(self, s, fr):
        if self.truth(self.eval(s.test, fr), f"if@{fr.func.__name__}:{s.lineno}"):
            self.exec_block(s.body, fr)
        else:
            self.exec_block(s.orelse, fr)

    def s_Assert(self, s, fr):
        v = self.eval(s.test, fr)
        if not self.truth(v):
            cur().event("assert_failed", fr.func.qualname, s.lineno)
            self.raise_py(AssertionError)

    def s_Raise(self, s, fr):
        if s.exc is None:
            if not fr.exc_stack:
                self.raise_py(RuntimeError, "No active exception to reraise")
            raise fr.exc_stack[-1]
        e = self.eval(s.exc, fr)
        if isinstance(e, type):
            e = self.instantiate(e, [], {})
        if not isinstance(e, Obj):
            if isinstance(e, BaseException):
                e = self.make_exc(type(e), *e.args)
            else:
                raise Unsupported(f"raise of {type(e).__name__}")
        if s.cause is not None:
            e.attrs["__cause__"] = self.eval(s.cause, fr)
        raise PyExc(e)

    def exc_matches(self, exc_obj: Obj, handler_type) -> bool:
        if handler_type is None:
            return True
        classes = handler_type if isinstance(handler_type, tuple) else (handler_type,)
        for c in classes:
            if exc_obj.cls is OtherException:
                if c in (Exception, BaseException):
                    return True
                continue
            if isinstance(c, type) and issubclass(exc_obj.cls, c):
                return True
        return False

    def s_Try(self, s, fr):
        try:
            try:
                self.exec_block(s.body, fr)
            except PyExc as e:
                for h in s.handlers:
                    ht = self.eval(h.type, fr) if h.type is not None else None
                    if self.exc_matches(e.obj, ht):
                        if h.name:
                            fr.locals[h.name] = e.obj
                        fr.exc_stack.append(e)
                        try:
                            self.exec_block(h.body, fr)
                        finally:
                            fr.exc_stack.pop()
                            if h.name:
                                fr.locals.pop(h.name, None)
                        break
                else:
                    raise
            else:
                self.exec_block(s.orelse, fr)
        except (PathAbort, Unsupported):
            raise
        except BaseException:
            if s.finalbody:
                self.exec_block(s.finalbody, fr)  # a raise/return inside finally overrides, as in python
            raise
        else:
            if s.finalbody:
                self.exec_block(s.finalbody, fr)

    def s_With(self, s, fr):
        if len(s.items) != 1:
            # nest
            inner = ast.With(items=s.items[1:], body=s.body)
            ast.copy_location(inner, s)
            outer = ast.With(items=s.items[:1], body=[inner])
            ast.copy_location(outer, s)
            return self.s_With(outer, fr)
        item = s.items[0]
        if self.with_generator_cm(s, item, fr):
            return
        cm = self.eval(item.context_expr, fr)
        enter = self.getattr(cm, "__enter__")
        exit_ = self.getattr(cm, "__exit__")
        v = self.call(enter, [])
        if item.optional_vars is not None:
            self.assign(item.optional_vars, v, fr)
        try:
            self.exec_block(s.body, fr)
        except PyExc as e:
            suppress = self.call(exit_, [e.obj.cls, e.obj, None])
            if not self.truth(suppress):
                raise
        except (PathAbort, Unsupported):
            raise
        except BaseException:
            self.call(exit_, [None, None, None])
            raise
        else:
            self.call(exit_, [None, None, None])

    def with_generator_cm(self, s, item, fr):
        """`with f(args) [as x]: BODY` where f is a pandera function made a context manager by @contextlib.contextmanager (one yield):
        the generator body is interpreted and BODY runs at its `yield` - inversion of control, which is exactly what
        _GeneratorContextManager does: code before the yield = __enter__, an exception of BODY is thrown into the generator at the
        yield (so its try/except/finally decide), normal completion of BODY resumes it after the yield.  Returns False when the
        context expression is not of that form (or has a model)."""
        ce = item.context_expr
        if not isinstance(ce, ast.Call):
            return False
        try:
            f = self.eval(ce.func, fr)
        except (PyExc, Unsupported):
            return False
        g = getattr(f, "__wrapped__", None)
        if not (isinstance(f, pytypes.FunctionType) and isinstance(g, pytypes.FunctionType) and inspect.isgeneratorfunction(g)
                and f.__code__.co_filename.endswith("contextlib.py") and (g.__module__ or "").split(".")[0] in self.inline_modules):
            return False
        if self.models.lookup(f) is not None or self.contracts.get(id(f)) is not None or id(f) in self.no_inline:
            return False
        args = [self.eval(a, fr) for a in ce.args]
        kwargs = {k.arg: self.eval(k.value, fr) for k in ce.keywords}
        state = {"yields": 0, "control": None}
        prev_hook = self.yield_hook

        def hook(I, gfr, value):
            state["yields"] += 1
            if state["yields"] > 1:
                raise Unsupported("context-manager generator yields more than once")
            self.yield_hook = prev_hook
            try:
                if item.optional_vars is not None:
                    self.assign(item.optional_vars, value, fr)
                try:
                    self.exec_block(s.body, fr)
                except (_Return, _Break, _Continue) as c:
                    state["control"] = c  # leaving BODY by return/break/continue: __exit__(None, None, None), then the jump
            finally:
                self.yield_hook = hook
            return None

        self.yield_hook = hook
        try:
            clo = LOADER.closure_of(g)
            self.inlined[clo.qualname] = LOADER.hashes[clo.qualname]
            self.call_closure(clo, args, kwargs)
        finally:
            self.yield_hook = prev_hook
        if state["yields"] == 0:
            self.raise_py(RuntimeError, "generator didn't yield")
        if state["control"] is not None:
            raise state["control"]
        return True

    def s_While(self, s, fr):
        n = 0
        while True:
            t = self.eval(s.test, fr)
            if not is_concrete(t):
                raise Unsupported("while with symbolic condition needs an invariant")
            if not t:
                break
            n += 1
            if n > 10000:
                raise Unsupported("while bound")
            try:
                self.exec_block(s.body, fr)
            except _Break:
                return
            except _Continue:
                continue
        self.exec_block(s.orelse, fr)

    # ---- for loops
    def s_For(self, s, fr):
        it = self.eval(s.iter, fr)
        sym = self.symbolic_iter(it)
        if sym is not None:
            return self.for_symbolic(s, sym, fr)
        try:
            items = self.concrete_iter(it)
        except TypeError:
            self.raise_py(TypeError, "not iterable")
        for x in items:
            self.assign(s.target, x, fr)
            try:
                self.exec_block(s.body, fr)
            except _Break:
                return
            except _Continue:
                continue
        self.exec_block(s.orelse, fr)

    def concrete_iter(self, it):
        if isinstance(it, Obj):
            if "__fields__order" in it.attrs:
                return [it.attrs[f] for f in it.attrs["__fields__order"]]
            raise Unsupported(f"iteration over object {it}")
        if hasattr(it, "pyvc_iter"):
            return it.pyvc_iter(self)
        if isinstance(it, (Sym, SymCallable)):
            raise Unsupported(f"iteration over {type(it).__name__}")
        if isinstance(it, dict):
            return list(it.keys())
        try:
            return list(it)
        except TypeError as e:  # `for x in None` / in a non-iterable: python raises TypeError at the loop
            if _raised_here_not_in_iterator(e):
                self.raise_py(TypeError, *e.args)
            raise

    def symbolic_iter(self, it):
        """-> (seq, mapper) when `it` iterates over a symbolic sequence, else None"""
        if isinstance(it, SymSeq):
            if it.appended:
                raise Unsupported("iteration over a symbolic list with appended tail")
            return (it, lambda k, x: x)
        if isinstance(it, Enumerated) and self.symbolic_iter(it.seq) is not None:
            seq, inner = self.symbolic_iter(it.seq)
            return (seq, lambda k, x, st=it.start, inner=inner: (k + st, inner(k, x)))
        if isinstance(it, SymDict):
            return (it.keys_seq, lambda k, x: x)
        if isinstance(it, SymDictItems):
            return (it.d.keys_seq, lambda k, x, d=it.d: (x, d.value_for(x)))
        if isinstance(it, SymDictValues):
            return (it.d.keys_seq, lambda k, x, d=it.d: d.value_for(x))
        return None

    def for_symbolic(self, s, sym, fr: Frame):
        """Cut the loop with an invariant (unbounded):  establish / preserve / use.

        Default invariant when the contract gives none: every name assigned in the body and every
        fresh mutable object mentioned in the body is havocked, and the heap of pre-existing objects
        is as it was at loop entry (checked at the end of the generic iteration).
        """
        seq, mapper = sym
        p = cur()
        ordinal = self._loop_ordinal(s, fr)
        spec = self.loop_specs.get((fr.func.qualname, ordinal))
        qn = f"{fr.func.qualname}/loop{ordinal}"
        pre_objs = [o for o in p.objects if o.pre]
        heap_at_entry = {o: dict(o.attrs) for o in pre_objs}
        if spec is not None and spec.invariant is not None:
            ok = spec.invariant(self, fr, 0, "init")
            for name, g in _conj_items(ok):
                p.check(g, f"{qn}/inv.init.{name}")
        mode = p.choose([("iter", None), ("exit", None)], f"{qn}")
        k = core.sym_int(f"k_{ordinal}")
        core.register_model_var(f"{qn}.k", k.z)
        n = seq.slen()
        self.havoc_loop_state(s, fr, spec, k)
        if mode == 0:
            p.assume(core.And(k >= 0, k < n))
        else:
            p.assume(k == n)
        if spec is not None and spec.invariant is not None:
            for name, g in _conj_items(spec.invariant(self, fr, k, "assume")):
                p.assume(g)
        if mode == 1:
            self.exec_block(s.orelse, fr)
            return
        x = mapper(k, seq.at(k))
        self.assign(s.target, x, fr)
        p.ghost.setdefault("loop_stack", []).append((qn, k))
        try:
            try:
                self.exec_block(s.body, fr)
            except _Continue:
                pass
            except _Break:
                p.ghost["loop_stack"].pop()
                return  # leaves the loop with the current state
        except BaseException:
            if p.ghost.get("loop_stack") and p.ghost["loop_stack"][-1][0] == qn:
                p.ghost["loop_stack"].pop()
            raise
        p.ghost["loop_stack"].pop()
        # end of the generic iteration: re-establish the invariant, then this path is done
        if spec is not None and spec.invariant is not None:
            for name, g in _conj_items(spec.invariant(self, fr, k + 1, "keep")):
                p.check(g, f"{qn}/inv.keep.{name}")
        if spec is None or spec.heap_unchanged:
            self.check_heap_equal(heap_at_entry, f"{qn}/inv.keep.heap_restored")
        raise PathAbort("loop iteration verified")

    def _loop_ordinal(self, s, fr):
        key = id(fr.func.node)
        table = getattr(self, "_loop_tables", None)
        if table is None:
            table = self._loop_tables = {}
        if key not in table:
            loops = [n for n in ast.walk(fr.func.node) if isinstance(n, (ast.For, ast.While))]
            loops.sort(key=lambda n: (n.lineno, n.col_offset))
            table[key] = {id(n): i for i, n in enumerate(loops)}
        return table[key].get(id(s), -1)

    def havoc_loop_state(self, s, fr, spec, k):
        assigned, mentioned = set(), set()
        for n in ast.walk(ast.Module(body=s.body, type_ignores=[])):
            if isinstance(n, ast.Name):
                mentioned.add(n.id)
                if isinstance(n.ctx, ast.Store):
                    assigned.add(n.id)
        for n in ast.walk(s.target):
            if isinstance(n, ast.Name):
                assigned.add(n.id)
        f = fr
        frames = []
        while f is not None:
            frames.append(f)
            f = f.parent
        # names used by nested functions that the body calls: their free variables are touched by the loop as well
        for name in list(mentioned):
            for f in frames:
                if name in f.locals:
                    v = f.locals[name]
                    if isinstance(v, Closure) and v.frame is not None:
                        for n in ast.walk(v.node):
                            if isinstance(n, ast.Name):
                                mentioned.add(n.id)
                    break
        for name in sorted(mentioned):
            for f in frames:
                if name in f.locals:
                    v = f.locals[name]
                    if spec is not None and name in spec.havoc:
                        f.locals[name] = spec.havoc[name](self, fr, k, v)
                    elif spec is not None and name in spec.keep:
                        pass
                    elif name in assigned and f is fr:
                        f.locals[name] = self.havoc_value(v, name)
                    elif isinstance(v, (ListObj, DictObj)) or (isinstance(v, (list, dict)) and not is_concrete_immutable(v)):
                        f.locals[name] = self.havoc_value(v, name)
                    elif isinstance(v, Obj) and not v.pre:
                        self.havoc_obj(v)
                    elif isinstance(v, SymSeq) and not v.pre:
                        f.locals[name] = self.havoc_value(v, name)
                    break

    def havoc_value(self, v, name):
        if isinstance(v, SBool) or isinstance(v, bool):
            return core.sym_bool(name + "'")
        if isinstance(v, SNum) or (isinstance(v, int) and not isinstance(v, bool)):
            return core.sym_int(name + "'") if not isinstance(v, SNum) or v.is_int else core.sym_real(name + "'")
        if isinstance(v, (list, ListObj, SymSeq)):
            n = core.sym_int(f"len({name}')")
            cur().assume(n >= 0)
            return SymSeq(name + "'", n, lambda i, _n=name: SAny(name=f"{_n}'[{getattr(i, 'z', i)}]"), pre=False)
        if v is None:
            return SAny(name=name + "'")  # was None before the loop; after k iterations: unknown
        if isinstance(v, Obj) and not v.pre:
            self.havoc_obj(v)
            return v
        if hasattr(v, "pyvc_havoc"):
            return v.pyvc_havoc(name)
        return SAny(name=name + "'")

    def havoc_obj(self, o: Obj, seen=None):
        seen = seen if seen is not None else set()
        if id(o) in seen:
            return
        seen.add(id(o))
        for a, v in list(o.attrs.items()):
            if a.startswith("__"):
                continue
            if isinstance(v, Obj):
                if not v.pre:
                    self.havoc_obj(v, seen)
            elif isinstance(v, (list, ListObj, dict, DictObj, SymSeq)) or isinstance(v, Sym):
                o.attrs[a] = self.havoc_value(v, f"{o.name}.{a}")

    def check_heap_equal(self, snapshot, oid):
        p = cur()
        diffs = []
        for o, attrs in snapshot.items():
            for a, v0 in attrs.items():
                v1 = o.attrs.get(a, MISSING)
                if v1 is v0:
                    continue
                if v1 is MISSING:
                    diffs.append((o, a, False))
                    continue
                diffs.append((o, a, py_eq(v1, v0) if not (isinstance(v1, Obj) or isinstance(v0, Obj)) else (v1 is v0)))
            for a in o.attrs:
                if a not in attrs and a in o.writes and a not in o.attrs0:
                    diffs.append((o, a, False))
        if not diffs:
            p.check(True, oid)
            return
        for o, a, eq in diffs:
            p.check(eq, oid, note=f"{o.name}.{a}")

    # ------------------------------------------------------------------ expressions
    def eval(self, e, fr: Frame):
        m = getattr(self, "e_" + type(e).__name__, None)
        if m is None:
            raise Unsupported(f"expression {type(e).__name__} at {fr.func.qualname}:{getattr(e, 'lineno', '?')}")
        return m(e, fr)

    def e_Constant(self, e, fr):
        return e.value

    def e_Name(self, e, fr):
        return self.lookup(e.id, fr)

    @staticmethod
    def mangle(attr, fr):
        """private name mangling (language reference 6.2.1): `__name` inside a class body is compiled as `_Class__name`"""
        cls = getattr(fr.func, "cls", None)
        if cls is not None and attr.startswith("__") and not attr.endswith("__"):
            return "_" + cls.__name__.lstrip("_") + attr
        return attr

    def e_Attribute(self, e, fr):
        return self.getattr(self.eval(e.value, fr), self.mangle(e.attr, fr))

    def e_Tuple(self, e, fr):
        return tuple(self.eval_elts(e.elts, fr))

    def e_List(self, e, fr):
        return ListObj(self.eval_elts(e.elts, fr))

    def e_Set(self, e, fr):
        return set(self.eval_elts(e.elts, fr))

    def eval_elts(self, elts, fr):
        out = []
        for x in elts:
            if isinstance(x, ast.Starred):
                v = self.eval(x.value, fr)
                if isinstance(v, StarTuple):
                    out.extend(v.items)
                    out.append(v.star)
                elif isinstance(v, OpaqueStar):
                    out.append(v)
                else:
                    out.extend(self.concrete_iter(v))
            else:
                out.append(self.eval(x, fr))
        return out

    def e_Dict(self, e, fr):
        d = DictObj()
        for k, v in zip(e.keys, e.values):
            if k is None:
                d.update(self.eval(v, fr))
            else:
                d[self.eval(k, fr)] = self.eval(v, fr)
        return d

    def e_JoinedStr(self, e, fr):
        parts = []
        allc = True
        for v in e.values:
            if isinstance(v, ast.Constant):
                parts.append(v.value)
            else:
                try:
                    x = self.eval(v.value, fr)
                    if getattr(v, "conversion", -1) == 114:  # {x!r}: the text is repr(x), not str(x)
                        x = self.call(builtins.repr, [x])
                    elif getattr(v, "conversion", -1) not in (-1, 115) or getattr(v, "format_spec", None) is not None:
                        raise Unsupported("f-string conversion / format spec")
                except PyExc:
                    raise
                parts.append(x)
                if not is_concrete(x) or not isinstance(x, (str, int, float, bool, type(None), enum.Enum)):
                    allc = False
        if allc:
            try:
                return "".join(str(x) if not isinstance(x, str) else x for x in parts)
            except Exception:
                pass
        return Fmt(parts)

    def e_FormattedValue(self, e, fr):
        return self.eval(e.value, fr)

    def e_Lambda(self, e, fr):
        clo = Closure(e, fr, fr.func.qualname + ".<lambda>", fr.func.module_globals, cls=fr.func.cls)
        clo.defaults = [self.eval(d, fr) for d in e.args.defaults]
        clo._kw_default_values = {}
        return clo

    def e_NamedExpr(self, e, fr):
        v = self.eval(e.value, fr)
        self.assign(e.target, v, fr)
        return v

    def e_IfExp(self, e, fr):
        if self.truth(self.eval(e.test, fr), f"ifexp@{fr.func.__name__}:{e.lineno}"):
            return self.eval(e.body, fr)
        return self.eval(e.orelse, fr)

    def e_BoolOp(self, e, fr):
        if isinstance(e.op, ast.And):
            v = True
            for x in e.values:
                v = self.eval(x, fr)
                if not self.truth(v, f"and@{fr.func.__name__}:{e.lineno}"):
                    return v
            return v
        v = False
        for x in e.values:
            v = self.eval(x, fr)
            if self.truth(v, f"or@{fr.func.__name__}:{e.lineno}"):
                return v
        return v

    def e_UnaryOp(self, e, fr):
        v = self.eval(e.operand, fr)
        if isinstance(e.op, ast.Not):
            if isinstance(v, Sym):
                return ~v.truth()
            return not self.truth(v)
        if isinstance(e.op, ast.Invert):
            return ~v
        if isinstance(e.op, ast.USub):
            return -v
        if isinstance(e.op, ast.UAdd):
            return +v
        raise Unsupported("unary op")

    def binop(self, op, a, b):
        f = _BINOPS.get(op)
        if f is None:
            raise Unsupported(f"binop {op}")
        if isinstance(a, Obj) or isinstance(b, Obj):
            return self.obj_binop(op, a, b)
        try:
            return f(a, b)
        except (PathAbort, Unsupported, PyExc):
            raise
        except TypeError as e:
            if a is None or b is None or (is_concrete(a) and is_concrete(b)):
                raise PyExc(self.make_exc(TypeError, *e.args))
            no_op = lambda x: op in getattr(type(x), "__pyvc_undefined_binops__", ())  # noqa: E731
            if no_op(a) and no_op(b):
                # the theory states that the real class defines no such operator (polars frames have no & / |): python's own TypeError
                raise PyExc(self.make_exc(TypeError, *e.args))
            raise Unsupported(f"binop {op.__name__} on {type(a).__name__},{type(b).__name__}: {e}")

    def obj_binop(self, op, a, b):
        names = {ast.Add: "__add__", ast.BitOr: "__or__", ast.BitAnd: "__and__", ast.Sub: "__sub__"}
        n = names.get(op)
        if n and isinstance(a, Obj) and a.cls is not None:
            f = _find_in_mro(a.cls, n)
            if isinstance(f, pytypes.FunctionType):
                return self.call(f, [a, b])
        raise Unsupported(f"binop on object {a}")

    def e_BinOp(self, e, fr):
        a = self.eval(e.left, fr)
        b = self.eval(e.right, fr)
        if isinstance(e.op, ast.Mod) and isinstance(a, (str, Fmt)):
            return Fmt([a, b])
        return self.binop(type(e.op), a, b)

    def compare(self, op, a, b):
        if isinstance(op, ast.Is):
            return self.is_(a, b)
        if isinstance(op, ast.IsNot):
            r = self.is_(a, b)
            return (~r) if isinstance(r, SBool) else (not r)
        if isinstance(op, ast.In):
            return self.contains(b, a)
        if isinstance(op, ast.NotIn):
            r = self.contains(b, a)
            return (~r) if isinstance(r, SBool) else (not r)
        if isinstance(op, ast.Eq):
            return self.eq(a, b)
        if isinstance(op, ast.NotEq):
            r = self.eq(a, b)
            return (~r) if isinstance(r, SBool) else (not r) if isinstance(r, bool) else self._invert(r)
        f = {ast.Lt: operator.lt, ast.LtE: operator.le, ast.Gt: operator.gt, ast.GtE: operator.ge}[type(op)]
        if a is None or b is None:
            self.raise_py(TypeError, "'<' not supported between instances of NoneType")
        try:
            return f(a, b)
        except TypeError as e:
            if is_concrete(a) and is_concrete(b):
                raise PyExc(self.make_exc(TypeError, *e.args))
            raise Unsupported(f"compare {type(a).__name__} {type(b).__name__}: {e}")

    def _invert(self, r):
        try:
            return ~r
        except TypeError:
            return not r

    def is_(self, a, b):
        if a is b:
            return True
        if isinstance(a, SBool) and isinstance(b, bool):
            return a == b
        if isinstance(b, SBool) and isinstance(a, bool):
            return b == a
        if isinstance(a, SAny) and isinstance(b, SAny):
            return SBool(a.z == b.z)
        return False

    def eq(self, a, b):
        if isinstance(a, Obj) or isinstance(b, Obj):
            if a is b:
                return True
            o = a if isinstance(a, Obj) else b
            other = b if o is a else a
            f = _find_in_mro(o.cls, "__eq__") if o.cls is not None else None
            if isinstance(f, pytypes.FunctionType) and (f.__module__ or "").startswith("pandera"):
                return self.call(f, [o, other])
            if o.cls is not None and issubclass(o.cls, tuple) and isinstance(other, Obj) and other.cls is o.cls:
                return core.And(*[py_eq(o.attrs[f], other.attrs[f]) for f in o.attrs["__fields__order"]])
            return False
        return py_eq(a, b)

    def contains(self, c, x):
        if hasattr(c, "pyvc_contains"):
            return c.pyvc_contains(self, x)
        if isinstance(c, SymSeq):
            raise Unsupported("`in` on symbolic sequence (needs theory)")
        if isinstance(c, (list, tuple, set, frozenset, dict, ListObj, DictObj)) or isinstance(c, type({}.keys())):
            if is_concrete(x) and is_concrete(list(c)):
                try:
                    return x in c
                except TypeError:
                    return any(x == y for y in c)
            acc = False
            for y in c:
                r = self.eq(x, y)
                if r is True:
                    return True
                if r is False:
                    continue
                acc = core.Or(acc, r) if acc is not False else r
            return acc
        if isinstance(c, str) and isinstance(x, str):
            return x in c
        if isinstance(c, str) and isinstance(x, SStr):
            return SBool(z3.Contains(z3.StringVal(c), x.z))
        if isinstance(c, SStr) and isinstance(x, (str, SStr)):
            return SBool(z3.Contains(c.z, z3.StringVal(x) if isinstance(x, str) else x.z))
        if isinstance(c, Obj):
            f = _find_in_mro(c.cls, "__contains__") if c.cls is not None else None
            if isinstance(f, pytypes.FunctionType):
                return self.call(f, [c, x])
        raise Unsupported(f"`in` on {type(c).__name__}")

    def e_Compare(self, e, fr):
        left = self.eval(e.left, fr)
        result = True
        for op, rhs in zip(e.ops, e.comparators):
            right = self.eval(rhs, fr)
            r = self.compare(op, left, right)
            if len(e.ops) == 1:
                return r
            if not self.truth(r):
                return r
            result = r
            left = right
        return result

    def e_Subscript(self, e, fr):
        c = self.eval(e.value, fr)
        k = self.eval(e.slice, fr)
        return self.getitem(c, k)

    def e_Slice(self, e, fr):
        return slice(
            self.eval(e.lower, fr) if e.lower else None,
            self.eval(e.upper, fr) if e.upper else None,
            self.eval(e.step, fr) if e.step else None,
        )

    def getitem(self, c, k):
        if hasattr(c, "pyvc_getitem"):
            return c.pyvc_getitem(self, k)
        if isinstance(c, SymSeq):
            return c.at(k)
        if isinstance(c, SymDict):
            return c.value_for(k)
        if isinstance(c, (dict, DictObj)):
            if is_concrete(k) or isinstance(k, Obj):
                if k in c:
                    return dict.__getitem__(c, k)
                if getattr(c, "default_factory", None) is not None:  # collections.defaultdict
                    v = self.call(c.default_factory, [])
                    dict.__setitem__(c, k, v)
                    return v
                self.raise_py(KeyError, k)
            for kk, vv in c.items():
                if self.truth(py_eq(k, kk)):
                    return vv
            self.raise_py(KeyError, k)
        if isinstance(c, (list, tuple, str, ListObj)):
            if isinstance(k, (int, slice)):
                try:
                    return c[k]
                except IndexError:
                    self.raise_py(IndexError, "index out of range")
            raise Unsupported("symbolic index into concrete sequence")
        if isinstance(c, Obj):
            if "__fields__order" in c.attrs and isinstance(k, int):
                return c.attrs[c.attrs["__fields__order"][k]]
            f = _find_in_mro(c.cls, "__getitem__") if c.cls is not None else None
            if isinstance(f, pytypes.FunctionType):
                return self.call(f, [c, k])
            raise Unsupported(f"subscript of object {c}")
        if c is None:
            self.raise_py(TypeError, "'NoneType' object is not subscriptable")
        if isinstance(c, SAny):
            return SAny(name="item")
        if is_concrete(c) and is_concrete(k):
            try:
                return c[k]
            except Exception as ex:
                raise PyExc(self.make_exc(type(ex), *ex.args))
        raise Unsupported(f"subscript of {type(c).__name__}")

    def e_Starred(self, e, fr):
        raise Unsupported("starred outside call")

    def e_Call(self, e, fr):
        # dropped calls (DESIGN 4.1)
        f = e.func
        if isinstance(f, ast.Attribute) and isinstance(f.value, ast.Name) and (f.value.id, f.attr) in _DROPPED_CALL_ATTRS:
            return None
        if isinstance(f, ast.Name) and f.id == "cast" and len(e.args) == 2:
            return self.eval(e.args[1], fr)
        if isinstance(f, ast.Name) and f.id == "super" and not e.args:
            return SuperProxy(fr.func.cls if fr.func.cls is not None else self._owner_cls(fr), self._self_of(fr))
        fn = self.eval(f, fr)
        if fn is builtins.locals and not e.args and not e.keywords:
            return DictObj(fr.locals)  # additive (C16): locals() is a snapshot dict of the frame's bound names
        args = self.eval_elts(e.args, fr)
        kwargs = {}
        for kw in e.keywords:
            if kw.arg is None:
                d = self.eval(kw.value, fr)
                if isinstance(d, OpaqueStar):
                    kwargs["**opaque"] = d
                elif isinstance(d, (dict, DictObj)):
                    for k, v in d.items():
                        kwargs[k] = v
                    if getattr(d, "opaque_rest", None) is not None:
                        kwargs["**opaque"] = d.opaque_rest
                else:
                    raise Unsupported("** of non-dict")
            else:
                kwargs[kw.arg] = self.eval(kw.value, fr)
        if fn is super:
            return SuperProxy(args[0], args[1])
        return self.call(fn, args, kwargs)

    def _self_of(self, fr):
        f = fr
        while f is not None:
            if f.self_obj is not None and isinstance(f.func.node, (ast.FunctionDef, ast.AsyncFunctionDef)) and f.parent is None:
                return f.self_obj
            if f.parent is None:
                return f.self_obj
            f = f.parent
        return None

    def _owner_cls(self, fr):
        f = fr
        while f.parent is not None:
            f = f.parent
        return f.func.cls

    def e_Await(self, e, fr):
        return self.eval(e.value, fr)

    def e_Yield(self, e, fr):
        v = self.eval(e.value, fr) if e.value is not None else None
        if self.yield_hook is None:
            raise Unsupported("yield outside a one-yield context manager")
        return self.yield_hook(self, fr, v)

    def e_YieldFrom(self, e, fr):
        if self.yield_hook is None:
            raise Unsupported("yield from outside a generator")
        hook = self.yield_hook
        src = self.eval(e.value, fr)
        self.yield_hook = hook  # (evaluating the operand may have run - and finished - another eager generator)
        for v in self.concrete_iter(src):
            hook(self, fr, v)
        return None

    # comprehensions
    def _comp(self, e, fr, emit):
        cfr = Frame(fr.func, fr, set())
        cfr.self_obj = fr.self_obj

        def rec(i):
            if i == len(e.generators):
                emit(cfr)
                return
            g = e.generators[i]
            it = self.eval(g.iter, cfr if i else fr)
            if self.symbolic_iter(it) is not None:
                raise SymbolicComprehension(it, g, i)
            for x in self.concrete_iter(it):
                self.assign(g.target, x, cfr)
                if all(self.truth(self.eval(c, cfr)) for c in g.ifs):
                    rec(i + 1)

        rec(0)

    def e_ListComp(self, e, fr):
        out = ListObj()
        try:
            self._comp(e, fr, lambda c: out.append(self.eval(e.elt, c)))
        except SymbolicComprehension as sc:
            return self.symbolic_comprehension(e, fr, sc)
        return out

    def e_GeneratorExp(self, e, fr):
        try:
            return self.e_ListComp(e, fr)
        except SymbolicComprehension:
            raise

    def e_SetComp(self, e, fr):
        out = set()
        self._comp(e, fr, lambda c: out.add(self.eval(e.elt, c)))
        return out

    def e_DictComp(self, e, fr):
        out = DictObj()
        self._comp(e, fr, lambda c: out.__setitem__(self.eval(e.key, c), self.eval(e.value, c)))
        return out

    def symbolic_comprehension(self, e, fr, sc):
        """[f(x) for x in symseq]  ->  a SymSeq of the same length with elementwise f (no filter)."""
        g = sc.gen
        if sc.index == 0 and len(e.generators) == 1 and g.ifs and getattr(self, "comp_filter_hook", None) is not None:
            # theory hook (additive, C16): a theory may give the filtered view of its own sequence type
            r = self.comp_filter_hook(self, e, fr, g, sc.it)
            if r is not None:
                return r
        if sc.index != 0 or len(e.generators) != 1 or g.ifs:
            raise Unsupported("comprehension over symbolic sequence with filter / nesting")
        seq, mapper = self.symbolic_iter(sc.it)

        def elem(i):
            cfr = Frame(fr.func, fr, set())
            cfr.self_obj = fr.self_obj
            self.assign(g.target, mapper(i, seq.at(i)), cfr)
            return self.eval(e.elt, cfr)

        return SymSeq(f"comp({seq.name})", seq.slen(), elem, pre=False)


class SymbolicComprehension(Exception):
    def __init__(self, it, gen, index):
        self.it, self.gen, self.index = it, gen, index


class StarTuple(tuple):
    """a tuple with an opaque tail: (a, b, *rest)"""

    def __new__(cls, items, star):
        t = super().__new__(cls, items)
        t.items = items
        t.star = star
        return t


class PartialVal:
    def __init__(self, func, args, kwargs):
        self.func, self.args, self.kwargs = func, tuple(args), dict(kwargs)
        self.__name__ = getattr(func, "__name__", "partial")


class WrapsMarker:
    pass


class OpaqueAttr:
    """attribute (method) of an opaque value: calling it is an opaque call"""

    def __init__(self, base, name):
        self.base, self.name = base, name
        self.__name__ = name
        self.__qualname__ = f"<opaque>.{name}"
        self.__module__ = "opaque"

    # used as a VALUE (compared, tested): nothing is known about it - never answer concretely
    def __eq__(self, o):
        if o is self:
            return True
        raise Unsupported(f"comparison of the opaque attribute value .{self.name}")

    def __ne__(self, o):
        if o is self:
            return False
        raise Unsupported(f"comparison of the opaque attribute value .{self.name}")

    __hash__ = object.__hash__

    def __bool__(self):
        raise Unsupported(f"truth value of the opaque attribute value .{self.name}")


class SlotText:
    """str(obj) / repr(obj) through a builtin slot (object.__str__, BaseException.__str__): opaque text"""

    __pyvc_model__ = True

    def __init__(self, obj, name):
        self.obj, self.name = obj, name
        self.__name__ = name

    def __call__(self, *a, **k):
        return Fmt([f"<{self.name} of ", self.obj, ">"])


class BuiltinInit:
    """object.__init__ / BaseException.__init__ reached through super(): records `args`"""

    __pyvc_model__ = True

    def __init__(self, obj):
        self.obj = obj
        self.__name__ = "__init__"

    def __call__(self, *args, **kw):
        if isinstance(self.obj, Obj) and self.obj.cls is not None and issubclass(self.obj.cls, BaseException):
            self.obj.attrs["args"] = tuple(args)
        return None


def _alias_root(o):
    """the object whose instance dict `o` uses (o itself unless `o.__dict__ = other.__dict__` was executed)"""
    seen = 0
    while getattr(o, "alias_of", None) is not None and seen < 10:
        o, seen = o.alias_of, seen + 1
    return o


class ObjDictView:
    """obj.__dict__: the instance dict of a heap object"""

    def __init__(self, o):
        self.o = o

    def update(self, other=None, **kw):
        # d.update(state): copies the entries (copy.copy without a custom __setstate__)
        from .stdlib_models import LazyCopyAttrs

        if isinstance(other, ObjDictView):
            tgt = _alias_root(self.o)
            if tgt.attrs:
                raise Unsupported("__dict__.update on an object that already has attributes")
            tgt.attrs = LazyCopyAttrs(_alias_root(other.o))
            return None
        raise Unsupported("__dict__.update(<dict>)")


class ListMutator:
    def __init__(self, interp, lst, op):
        self.interp, self.lst, self.op = interp, lst, op
        self.__pyvc_model__ = True

    def __call__(self, *args, **kw):
        return self.interp.list_mutate(self.lst, self.op, list(args))


class DictMutator:
    def __init__(self, interp, d, op):
        self.interp, self.d, self.op = interp, d, op
        self.__pyvc_model__ = True

    def __call__(self, *args, **kw):
        self.interp.note_container_write(self.d)
        if self.op == "pop":
            k = args[0]
            if not (is_concrete(k) or isinstance(k, Obj)):
                raise Unsupported("dict.pop with symbolic key")
            if k in self.d:
                return dict.pop(self.d, k)
            if len(args) > 1:
                return args[1]
            self.interp.raise_py(KeyError, k)
        return getattr(dict, self.op)(self.d, *args, **kw)


class SetMutator:
    def __init__(self, interp, st, op):
        self.interp, self.st, self.op = interp, st, op
        self.__pyvc_model__ = True

    def __call__(self, *args, **kw):
        self.interp.note_container_write(self.st)
        try:
            return getattr(set, self.op)(self.st, *args, **kw)
        except KeyError as e:
            self.interp.raise_py(KeyError, *e.args)


def restore_live_shared(p):
    """undo the writes an explored path made to live module-level containers (the verifier runs in the same process)"""
    for c, snap in (p.ghost.get("live_snap") or {}).values():
        if isinstance(c, list):
            c[:] = snap
        else:
            c.clear()
            c.update(snap)


class DictGet:
    """d.get(key[, default]) on a python dict of the interpreted heap (concrete or heap-object keys)"""

    def __init__(self, interp, d):
        self.interp, self.d = interp, d
        self.__pyvc_model__ = True

    def __call__(self, k, default=None):
        if not (is_concrete(k) or isinstance(k, Obj)):
            raise Unsupported("dict.get with symbolic key")
        return dict.get(self.d, k, default)


def is_concrete_immutable(v):
    return isinstance(v, (tuple, frozenset, str, int, float, bool, type(None)))


def _find_in_mro(cls, name):
    if cls is None:
        return None
    for c in cls.__mro__:
        if name in c.__dict__:
            return c.__dict__[name]
    return None


def _is_dataclass_init(cls, init):
    return bool(getattr(cls, "__dataclass_fields__", None)) and "__init__" not in _own_source_names(cls)


def _own_source_names(cls):
    out = set()
    for c in cls.__mro__:
        if c is object:
            continue
        try:
            src = inspect.getsource(c)
        except (OSError, TypeError):
            continue
        tree = ast.parse(textwrap.dedent(src))
        for n in tree.body[0].body:
            if isinstance(n, ast.FunctionDef):
                out.add(n.name)
    return out


def _conj_items(r):
    if isinstance(r, dict):
        return list(r.items())
    return [("inv", r)]
