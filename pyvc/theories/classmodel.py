"""Theory of class hierarchies and of dicts with symbolic keys (assumed contracts on *python itself*:
`inspect.getmro`, `vars`, `issubclass`, `getattr(x, key, None)`, `type(name, bases, ns)`, `dict` operations,
`reversed`, star-unpacking, filtered generator expressions).  Used by C16 (DataFrameModel -> schema compiler).

Nothing here models pandera code.

Abstract MRO
------------
`Mro.fresh()` is a symbolic sequence of class records `ClassRec` of unknown length `n >= 1`:

    rec(i).ns      the class' own namespace (`vars(cls)` / `cls.__dict__`): a `NsDict`, an insertion ordered dict of unknown
                   length `L(i) >= 0` with *distinct* string keys  name(i, t)  and values  val(i, t)
    rec(i).is_model   issubclass(rec(i), <the DataFrameModel base>)   (symbolic bool)

Values of a namespace are `AttrVal`s: `getattr(val, KEY, None)` is the uninterpreted `tagged(i, t, KEY)`:
either None or a `TagVal` whose class (`isinstance(.., CheckInfo)`) is the uninterpreted `tag_is(i, t, KEY, cls)`.
All symbols are z3 functions over (class position, item position) so that contracts can quantify over them.

MapVal
------
A python dict whose keys may be symbolic strings: `has: String -> Bool`, `val: String -> U`; `d[k] = v`, `d.update(e)`,
`k in d`, `d[k]`, `d.get(k)`, `d.pop(k, default)` are the usual pointwise definitions (order is not modelled: iteration
over a MapVal is unsupported).
"""
from __future__ import annotations

import builtins
import inspect

import z3

from .. import core
from ..core import PyExc, SAny, SBool, SNum, SStr, Sym, Unsupported, cur
from ..heap import DictObj, ListObj, Obj
from ..values import SymDict, SymSeq

S = z3.StringSort()
Z = z3.IntSort()
B = z3.BoolSort()
U = core.U


def _fresh(name, *sorts):
    return z3.Function(cur().fresh_name(name), *sorts)


def zint(x):
    return x.z if isinstance(x, SNum) else (z3.IntVal(x) if isinstance(x, int) else x)


def zstr(x):
    return x.z if isinstance(x, (SStr, SAny)) else (z3.StringVal(x) if isinstance(x, str) else x)


def zb(x):
    return core.as_z3_bool(x)


# ---------------------------------------------------------------------------------------------------------
# abstract MRO
# ---------------------------------------------------------------------------------------------------------


class Hier:
    """the z3 vocabulary of one symbolic class hierarchy (linearised: the MRO of `cls`)"""

    def __init__(self, name="mro", min_len=1, key_sort="str"):
        """key_sort: "str" (z3 strings: prefix tests possible) or "atom" (uninterpreted names: equality only, much easier for
        the solver's model finder)"""
        p = cur()
        self.name = name
        self.key_sort = key_sort
        S = z3.StringSort() if key_sort == "str" else U
        self.n = core.sym_int(f"len({name})")
        p.assume(self.n >= min_len)
        core.register_model_var(f"len({name})", self.n.z)
        self.L = _fresh(f"{name}.nslen", Z, Z)  # number of entries of the namespace of class i
        self.key = _fresh(f"{name}.key", Z, Z, S)  # name(i, t)
        self.is_model = _fresh(f"{name}.is_model", Z, B)
        self.tagged = {}  # KEY -> (i,t)->Bool : getattr(val(i,t), KEY, None) is not None
        self.tag_is = {}  # (KEY, cls) -> (i,t)->Bool : isinstance(getattr(val(i,t), KEY, None), cls)
        self.tag_id = {}  # KEY -> (i,t)->U : identity of the tag object
        self.val_id = _fresh(f"{name}.val", Z, Z, U)
        # python facts used: namespace lengths are >= 0 (assumed per instantiated class record, see `rec`).  Distinctness of
        # the keys of one namespace is a python fact too, but no C16 proof needs it, so it is not assumed.
        self.recs = {}
        self.cls_obj = None

    def f_tagged(self, key):
        if key not in self.tagged:
            self.tagged[key] = _fresh(f"{self.name}.has[{key}]", Z, Z, B)
            self.tag_id[key] = _fresh(f"{self.name}.tag[{key}]", Z, Z, U)
        return self.tagged[key]

    def f_tag_is(self, key, cls):
        k = (key, cls)
        if k not in self.tag_is:
            self.tag_is[k] = _fresh(f"{self.name}.isinst[{key},{cls.__name__}]", Z, Z, B)
        return self.tag_is[k]

    def rec(self, i):
        k = i.z.get_id() if isinstance(i, Sym) else i
        if k not in self.recs:
            self.recs[k] = ClassRec(self, i)
            cur().assume(SBool(self.L(zint(i)) >= 0))
        return self.recs[k]

    def seq(self, lo=0, hi_off=0, name=None):
        """mro[lo : n - hi_off] as a symbolic sequence of class records"""
        n = self.n - lo - hi_off
        return MroSeq(self, lo, hi_off, name or self.name)

    # lexicographic order on (class position, item position)
    @staticmethod
    def lex_lt(i1, t1, i2, t2):
        return z3.Or(i1 < i2, z3.And(i1 == i2, t1 < t2))

    def valid(self, i, t, lo=0, hi=None):
        hi = self.n.z if hi is None else hi
        return z3.And(lo <= i, i < hi, 0 <= t, t < self.L(i))


class MroSeq(SymSeq):
    """mro[lo : n-hi_off]; optionally filtered by `is_model` (then positions are those of the *filtered* sequence,
    mapped to MRO positions by a strictly increasing `pos`)."""

    def __init__(self, hier: Hier, lo=0, hi_off=0, name="mro", filtered=None, reverse_of=None):
        self.hier = hier
        self.lo, self.hi_off = lo, hi_off
        self.filtered = filtered  # None or the `pos` function of the filtered view
        n = hier.n - lo - hi_off
        if filtered is not None:
            n = filtered[1]
        super().__init__(name, n, self._elem, pre=True)
        self.reverse_of = reverse_of

    def _elem(self, j):
        return self.hier.rec(self.mro_pos(j))

    def mro_pos(self, j):
        """MRO position of the j-th element of this view"""
        if self.reverse_of is not None:
            return self.reverse_of.mro_pos(self.reverse_of.slen() - 1 - j)
        if self.filtered is not None:
            return SNum(self.filtered[0](zint(j)))
        return j + self.lo if self.lo else (j if isinstance(j, SNum) else SNum(z3.IntVal(j)))

    def pyvc_getitem(self, I, k):
        if isinstance(k, slice):
            if k.step is not None or self.filtered is not None or self.reverse_of is not None:
                raise Unsupported("slice of a filtered/reversed MRO view")
            lo = k.start or 0
            hi = k.stop
            if not isinstance(lo, int) or lo < 0 or not (hi is None or (isinstance(hi, int) and hi <= 0)):
                raise Unsupported("MRO slice other than [a:-b]")
            hi_off = -(hi or 0)
            # python: a slice never fails; the theory needs the slice to be non-degenerate
            cur().assume(self.hier.n - self.lo - self.hi_off - lo - hi_off >= 0)
            return MroSeq(self.hier, self.lo + lo, self.hi_off + hi_off, self.name)
        return self.at(k)

    def pyvc_filter_is_model(self):
        """(x for x in self if issubclass(x, Model)): the subsequence of the records with is_model, same order"""
        if self.filtered is not None or self.reverse_of is not None:
            raise Unsupported("nested filter")
        h = self.hier
        p = cur()
        m = core.sym_int(f"len(models({self.name}))")
        pos = _fresh(f"{self.name}.pos", Z, Z)
        lo, hi = z3.IntVal(self.lo), (h.n - self.hi_off).z
        j, j2, i = z3.Ints("j j2 i")
        p.assume(m >= 0)
        p.assume(m <= SNum(hi - lo))
        # strictly increasing into [lo, hi), hits exactly the model classes
        p.assume(SBool(z3.ForAll([j], z3.Implies(z3.And(0 <= j, j < m.z), z3.And(lo <= pos(j), pos(j) < hi, h.is_model(pos(j)))), patterns=[pos(j)])))
        p.assume(SBool(z3.ForAll([j, j2], z3.Implies(z3.And(0 <= j, j < j2, j2 < m.z), pos(j) < pos(j2)), patterns=[z3.MultiPattern(pos(j), pos(j2))])))
        inv = _fresh(f"{self.name}.posinv", Z, Z)
        p.assume(SBool(z3.ForAll([i], z3.Implies(z3.And(lo <= i, i < hi, h.is_model(i)), z3.And(0 <= inv(i), inv(i) < m.z, pos(inv(i)) == i)), patterns=[h.is_model(i)])))
        core.register_model_var(f"len(models({self.name}))", m.z)
        return MroSeq(h, self.lo, self.hi_off, f"models({self.name})", filtered=(pos, m, inv))

    def pyvc_reversed(self):
        return MroSeq(self.hier, self.lo, self.hi_off, f"reversed({self.name})", filtered=self.filtered, reverse_of=self)


class ClassRec:
    """one class of the abstract MRO"""

    __pyvc_symbolic__ = True

    def __init__(self, hier: Hier, i):
        self.hier, self.i = hier, (i if isinstance(i, SNum) else SNum(z3.IntVal(i)))
        self.ns = NsDict(hier, self.i)
        self.extra_attrs = {}

    def pyvc_class(self):
        return type

    def __repr__(self):
        return f"<class mro[{self.i.z}]>"

    def __eq__(self, o):
        if isinstance(o, ClassRec) and o.hier is self.hier:
            return self.i == o.i
        return False

    def __hash__(self):
        return hash(("ClassRec", id(self.hier), self.i.z.get_id()))

    def __getattr__(self, name):
        if name == "__dict__":
            return object.__getattribute__(self, "ns")
        ex = object.__getattribute__(self, "__dict__").get("extra_attrs", {})
        if name in ex:
            return ex[name]
        raise AttributeError(name)


class NsDict(SymDict):
    """`vars(cls)`: insertion-ordered, distinct string keys, values AttrVal"""

    def __init__(self, hier: Hier, i: SNum):
        self.hier, self.i = hier, i
        n = SNum(hier.L(i.z))
        mk = SStr if hier.key_sort == "str" else (lambda z: SAny(z=z))
        keys = SymSeq(f"keys(vars(mro[{i.z}]))", n, lambda t: mk(hier.key(i.z, zint(t))))
        super().__init__(f"vars(mro[{i.z}])", keys, None)
        self._items = {}

    def item(self, t):
        k = t.z.get_id() if isinstance(t, Sym) else t
        if k not in self._items:
            self._items[k] = AttrVal(self.hier, self.i, t if isinstance(t, SNum) else SNum(z3.IntVal(t)))
        return self._items[k]

    def value_for(self, key):
        # the interpreter asks for the value of the key it is iterating on: key == hier.key(i, t) for the generic t
        kz = zstr(key)
        if z3.is_app(kz) and kz.decl().eq(self.hier.key) and kz.arg(0).eq(self.i.z):
            return self.item(SNum(kz.arg(1)))
        raise Unsupported("lookup in a class namespace by a key that is not its own iteration key")

    def pyvc_contains(self, I, x):
        t = z3.Int("t")
        return SBool(z3.Exists([t], z3.And(0 <= t, t < self.hier.L(self.i.z), self.hier.key(self.i.z, t) == zstr(x))))


class AttrVal(SAny):
    """a value stored in a class namespace"""

    def __init__(self, hier: Hier, i: SNum, t: SNum):
        super().__init__(z=hier.val_id(i.z, t.z))
        self.hier, self.i, self.t = hier, i, t
        self._tags = {}

    def tag(self, key):
        """getattr(self, key, None)"""
        h = self.hier
        f = h.f_tagged(key)
        present = SBool(f(self.i.z, self.t.z))
        if not cur().decide(present, f"has {key}"):
            return None
        if key not in self._tags:
            self._tags[key] = TagVal(self, key)
        return self._tags[key]


class TagVal(SAny):
    """getattr(attr_value, KEY) when present (e.g. the CheckInfo attached by @check)"""

    def __init__(self, owner: AttrVal, key):
        h = owner.hier
        super().__init__(z=h.tag_id[key](owner.i.z, owner.t.z))
        self.owner, self.key = owner, key

    def pyvc_isinstance(self, c):
        cs = c if isinstance(c, tuple) else (c,)
        h = self.owner.hier
        return core.Or(*[SBool(h.f_tag_is(self.key, one)(self.owner.i.z, self.owner.t.z)) for one in cs])

    def __repr__(self):
        return f"<tag {self.key} of mro[{self.owner.i.z}].ns[{self.owner.t.z}]>"


# ---------------------------------------------------------------------------------------------------------
# dict with symbolic string keys
# ---------------------------------------------------------------------------------------------------------


class MapVal:
    __pyvc_symbolic__ = True

    def __init__(self, has=None, val=None, name="map", pre=False):
        self.name = name
        self.has = has if has is not None else (lambda s: z3.BoolVal(False))
        self.val = val if val is not None else (lambda s: z3.Const("nothing", U))
        self.pre = pre
        self.writes = []

    @classmethod
    def fresh(cls, name, pre=True):
        h = _fresh(f"{name}.has", S, B)
        v = _fresh(f"{name}.val", S, U)
        return cls(lambda s: h(s), lambda s: v(s), name, pre)

    def pyvc_class(self):
        return dict

    def pyvc_contains(self, I, x):
        return SBool(self.has(zstr(x)))

    def pyvc_getitem(self, I, k):
        kz = zstr(k)
        if not cur().decide(SBool(self.has(kz)), f"{self.name} has key"):
            I.raise_py(KeyError, k)
        return SAny(z=self.val(kz))

    def pyvc_setitem(self, I, k, v):
        kz, vz = zstr(k), _uz(v)
        oh, ov = self.has, self.val
        self.has = lambda s: z3.Or(s == kz, oh(s))
        self.val = lambda s: z3.If(s == kz, vz, ov(s))
        self.writes.append(("set", k))

    def update(self, other=None, **kw):
        if isinstance(other, MapVal):
            oh, ov, eh, ev = self.has, self.val, other.has, other.val
            self.has = lambda s: z3.Or(eh(s), oh(s))
            self.val = lambda s: z3.If(eh(s), ev(s), ov(s))
            self.writes.append(("update", other.name))
        elif isinstance(other, dict):
            for k, v in other.items():
                self.pyvc_setitem(None, k, v)
        elif other is not None:
            raise Unsupported("MapVal.update with " + type(other).__name__)
        for k, v in kw.items():
            self.pyvc_setitem(None, k, v)

    def get(self, k, default=None):
        kz = zstr(k)
        if cur().decide(SBool(self.has(kz)), f"{self.name} has key"):
            return SAny(z=self.val(kz))
        return default

    def snapshot(self):
        return MapVal(self.has, self.val, self.name + "@", pre=False)

    def pyvc_copy(self):
        return MapVal(self.has, self.val, self.name + "_copy", pre=False)

    def pyvc_bool(self, I):
        s = z3.String("s")
        return SBool(z3.Exists([s], self.has(s)))

    def pyvc_iter(self, I):
        raise Unsupported("iteration over a dict with symbolic keys (order not modelled)")

    def __repr__(self):
        return f"<map {self.name}>"


_U_OF = {}


def _uz(v):
    """z3 term of sort U for an interpreter value"""
    if isinstance(v, SAny):
        return v.z
    if isinstance(v, SBool):
        return z3.Function("U_of_bool", B, U)(v.z)
    if isinstance(v, SNum) and v.is_int:
        return z3.Function("U_of_int", Z, U)(v.z)
    if isinstance(v, SStr):
        return z3.Function("U_of_str", S, U)(v.z)
    if isinstance(v, bool):
        return z3.Function("U_of_bool", B, U)(z3.BoolVal(v))
    if isinstance(v, int):
        return z3.Function("U_of_int", Z, U)(z3.IntVal(v))
    if isinstance(v, str):
        return z3.Function("U_of_str", S, U)(z3.StringVal(v))
    # any other python / heap value: one constant per object identity
    k = id(v)
    if k not in _U_OF:
        _U_OF[k] = (z3.Const(f"obj!{len(_U_OF)}", U), v)
    return _U_OF[k][0]


# ---------------------------------------------------------------------------------------------------------
# installation: python builtins / inspect over the abstract hierarchy
# ---------------------------------------------------------------------------------------------------------


def drop_transient_models(I):
    """stdlib_models registers `dict.fromkeys` by the id of a *transient* bound-builtin object; that id is reused by other
    transient bound builtins (e.g. `d.items`), which then hit the wrong model.  C16 targets never call dict.fromkeys."""
    for k, v in list(I.models.items()):
        if getattr(v, "__name__", "") == "_fromkeys":
            del I.models[k]


def install(I, model_base=None):
    """model_base: the live class X for which `issubclass(rec, X)` means rec.is_model"""
    from .. import stdlib_models  # noqa: F401  (already installed by Interp.__init__)

    drop_transient_models(I)
    M = I.models
    prev_issubclass = M.get(id(builtins.issubclass))
    prev_getattr = M.get(id(builtins.getattr))
    prev_isinstance = M.get(id(builtins.isinstance))
    prev_tuple = M.get(id(builtins.tuple))
    prev_list = M.get(id(builtins.list))
    prev_dict = M.get(id(builtins.dict))

    def _getmro(I, c):
        if isinstance(c, ClassObj):
            return c.hier.seq()
        if isinstance(c, ClassRec):
            raise Unsupported("getmro of a base class record")
        return inspect.getmro(c)

    M[id(inspect.getmro)] = _getmro

    def _issubclass(I, a, b):
        if isinstance(a, ClassRec):
            if model_base is not None and b is model_base:
                return SBool(a.hier.is_model(a.i.z))
            raise Unsupported(f"issubclass(<class record>, {b!r})")
        return prev_issubclass(I, a, b)

    M[id(builtins.issubclass)] = _issubclass

    def _vars(I, v):
        if isinstance(v, ClassRec):
            return v.ns
        if isinstance(v, ClassObj):
            return v.hier.rec(0).ns
        if hasattr(v, "pyvc_vars"):
            return v.pyvc_vars()
        if isinstance(v, type):
            return dict(vars(v))
        raise Unsupported(f"vars() of {type(v).__name__}")

    M[id(builtins.vars)] = _vars

    def _getattr(I, v, name, *default):
        if isinstance(v, AttrVal):
            if not default or default[0] is not None:
                raise Unsupported("getattr on a namespace value without None default")
            return v.tag(name)
        if isinstance(v, ClassRec) and hasattr(v, "pyvc_getattr"):
            return v.pyvc_getattr(I, name, *default)
        return prev_getattr(I, v, name, *default)

    M[id(builtins.getattr)] = _getattr

    def _tuple(I, v=()):
        if isinstance(v, MroSeq):
            return v
        return prev_tuple(I, v)

    M[id(builtins.tuple)] = _tuple

    def _reversed(I, v):
        if isinstance(v, MroSeq):
            return v.pyvc_reversed()
        return list(reversed(I.concrete_iter(v)))

    M[id(builtins.reversed)] = _reversed

    def _set(I, v=()):
        if v == () or (isinstance(v, (list, tuple, set)) and len(v) == 0):
            return SetVal()
        return set(I.concrete_iter(v))

    M[id(builtins.set)] = _set

    def _dict(I, *a, **kw):
        if a and isinstance(a[0], MapVal):
            m = a[0].pyvc_copy()
            m.update(None, **kw)
            return m
        return prev_dict(I, *a, **kw)

    M[id(builtins.dict)] = _dict
    M[id(inspect.isroutine)] = lambda I, v: (SBool(z3.Function("isroutine", U, B)(v.z)) if isinstance(v, SAny) else inspect.isroutine(v))

    # filtered generator expression over an MRO view: hook consulted by Interp.symbolic_comprehension
    def comp_filter(I, e, fr, gen, seq):
        if not isinstance(seq, MroSeq) or len(gen.ifs) != 1:
            return None
        import ast

        c = gen.ifs[0]
        # shape:  issubclass(<target>, <Name>)  with the element itself as result
        ok = (isinstance(c, ast.Call) and isinstance(c.func, ast.Name) and c.func.id == "issubclass" and len(c.args) == 2
              and isinstance(c.args[0], ast.Name) and isinstance(gen.target, ast.Name) and c.args[0].id == gen.target.id
              and isinstance(e.elt, ast.Name) and e.elt.id == gen.target.id)
        if not ok:
            return None
        base = I.eval(c.args[1], fr)
        if model_base is None or base is not model_base:
            return None
        return seq.pyvc_filter_is_model()

    I.comp_filter_hook = comp_filter


class SetVal:
    """a set of strings given by its membership predicate (for `set()` accumulators in loops over symbolic dicts)"""

    __pyvc_symbolic__ = True

    def __init__(self, member=None, name="set"):
        self.member = member if member is not None else (lambda s: z3.BoolVal(False))
        self.name = name
        self.added = []

    def pyvc_class(self):
        return set

    def pyvc_contains(self, I, x):
        return SBool(self.member(zstr(x)))

    def add(self, x):
        xz, om = zstr(x), self.member
        self.member = lambda s: z3.Or(s == xz, om(s))
        self.added.append(x)

    def __repr__(self):
        return f"<set {self.name}>"


class ClassObj(Obj):
    """the class object `cls` itself (head of the abstract MRO): a heap object so that attribute writes are tracked"""

    def __init__(self, hier: Hier, live_cls, name="cls", fields=None):
        super().__init__(live_cls, name, pre=True, fields=fields or {})
        self.hier = hier
        hier.cls_obj = self

    def bind_classmethods(self, *names):
        """`cls.<name>` for classmethods defined on the live base class binds to this object, not to the live class"""
        from ..interp import _find_in_mro
        from ..values import BoundMethod

        for n in names:
            a = _find_in_mro(self.cls, n)
            f = a.__func__ if isinstance(a, (classmethod, staticmethod)) else a
            self.attrs[n] = f if isinstance(a, staticmethod) else BoundMethod(self, f)
            self.attrs0[n] = self.attrs[n]
