"""text: program text as a tree (assumed contracts on str.format / str.join / repr / f-strings / black / eval).

pandera's `to_script` builds a python program with string templates.  The interpreter already keeps f-strings with
symbolic parts as `Fmt(parts)`; this theory keeps the remaining string operations structural:

    "…{a}…{b}…".format(a=x, b=y)  ->  Tmpl(template, {a: x, b: y})      (a value that is not text is inserted as str(value))
    sep.join(items)               ->  Joined(sep, items)
    x.__repr__() / repr(x)        ->  Repr(x)
    text + text                   ->  Concat
    text.strip()                  ->  the same program (whitespace at the ends carries no meaning)
    black.format_str(text, mode)  ->  the same program (assumed: black preserves meaning)

`evaluates_to(text, value)` is the axiomatisation of python evaluation of an expression text, restricted to the forms
the emitters use (everything else is "does not evaluate to it"):

    E1  eval(repr(v)) == v          for v: None, bool, int, FINITE float, str, list of those, Timestamp / Timedelta (with the import);
                                    the repr of inf / -inf / nan is a NAME (`inf`, `nan`) that evaluates to nothing
    E6  eval('float("' + str(v) + '")') == v   for every float v (the non-finite ones included)
    E2  eval(str(v))  == v          for v: None, bool, int, float, list of scalars     (str == repr on these)
    E3  eval(q + s + q) == s        for a quote character q and a str s that contains no q, no backslash, no line break
                                    (sufficient; strings with q / an escape sequence / a line break do break - witnesses replayed)
    E4  eval(s) for a *raw* str s is a name lookup / arbitrary expression: never guaranteed to be s
    E5  a concrete text is evaluated natively (ast.literal_eval)
E1-E5 are replayed on the real interpreter by `selftest()`.
"""
from __future__ import annotations

import ast
import string

import z3

from .. import core
from ..core import And, Not, Or, PyExc, SAny, SBool, SNum, SStr, Sym, Unsupported, cur, py_eq
from ..heap import DictObj, ListObj, Obj
from ..values import Fmt
from .serial import FlowJson, JsonList, TdVal, TsVal


class Txt(Fmt):
    """structured program text"""

    def __init__(self, parts=()):
        super().__init__(parts)

    def truth(self):
        return SBool(True)

    def strip(self, *a):
        return self

    def __add__(self, o):
        return Concat([self, o])

    def __radd__(self, o):
        return Concat([o, self])

    def pyvc_class(self):
        return str

    def pyvc_contains(self, I, needle):
        return contains_word(self, needle)


class Tmpl(Txt):
    def __init__(self, template, slots):
        super().__init__((template,))
        self.template = template
        self.slots = dict(slots)


class Joined(Txt):
    def __init__(self, sep, items):
        super().__init__(tuple(items))
        self.sep, self.items = sep, list(items)

    def truth(self):
        return SBool(bool(self.items))


class Concat(Txt):
    def __init__(self, parts):
        flat = []
        for p in parts:
            flat.extend(p.parts_list if isinstance(p, Concat) else [p])
        super().__init__(tuple(flat))
        self.parts_list = flat


class Repr(Txt):
    def __init__(self, value):
        super().__init__(("repr(", value, ")"))
        self.value = value


def walk(t):
    """all nodes / inserted values of a text tree"""
    yield t
    if isinstance(t, Tmpl):
        for v in t.slots.values():
            yield from walk(v)
    elif isinstance(t, Joined):
        for v in t.items:
            yield from walk(v)
    elif isinstance(t, Concat):
        for v in t.parts_list:
            yield from walk(v)
    elif isinstance(t, Repr):
        yield from walk(t.value)
    elif isinstance(t, Fmt):
        for v in t.parts:
            if v is not t:
                yield from walk(v)


def contains_word(t, needle):
    """`needle in text` for the two import probes of to_script ("Timestamp" / "Timedelta"): certainly true when a value of
    that type is written with repr; otherwise unknown when arbitrary strings occur in the text; else computed on the
    concrete fragments"""
    if not isinstance(needle, str):
        raise Unsupported("symbolic needle")
    cls = {"Timestamp": TsVal, "Timedelta": TdVal}.get(needle)
    unknown = False
    for n in walk(t):
        if cls is not None and isinstance(n, cls):
            return True
        if isinstance(n, str) and needle in n:
            return True
        if isinstance(n, (SStr, JsonList, FlowJson)) or (isinstance(n, SAny) and not isinstance(n, Fmt)):
            unknown = True
    if unknown:
        return core.sym_bool(f"text_contains_{needle}")
    return False


# --------------------------------------------------------------------------------------
# evaluation axioms
# --------------------------------------------------------------------------------------

REPR_EVALUABLE = (type(None), bool, int, float, str, SBool, SNum, SStr, JsonList, TsVal, TdVal)


def plain(s, q):
    """s can be written between two `q` characters without escaping"""
    if isinstance(s, str):
        return not (q in s or "\\" in s or "\n" in s or "\r" in s)
    if isinstance(s, SStr):
        return SBool(z3.Not(z3.Or(z3.Contains(s.z, z3.StringVal(q)), z3.Contains(s.z, z3.StringVal("\\")),
                                  z3.Contains(s.z, z3.StringVal("\n")), z3.Contains(s.z, z3.StringVal("\r")))))
    return False


def identical(a, b):
    if a is b:
        return True
    if isinstance(a, (Obj, JsonList, FlowJson, TsVal, TdVal)) or isinstance(b, (Obj, JsonList, FlowJson)):
        return py_eq(a, b) if isinstance(a, (TsVal, TdVal)) and isinstance(b, (TsVal, TdVal)) else False
    if a is None or b is None:
        return False
    if isinstance(a, (list, tuple, ListObj)) or isinstance(b, (list, tuple, ListObj)):
        return False
    return py_eq(a, b)


_is_finite_float = z3.Function("float_is_finite", z3.RealSort(), z3.BoolSort())


def finite(v):
    """v is not one of the floats inf / -inf / nan.  Symbolic reals stand for floats: whether one of them is a non-finite float is an
    uninterpreted predicate of the value (mathematical reals have no such element; the contracts must not assume it away)."""
    import math

    if isinstance(v, bool):
        return True
    if isinstance(v, float):
        return math.isfinite(v)
    if isinstance(v, SNum) and v.z.sort() == z3.RealSort():
        return SBool(_is_finite_float(v.z))
    return True


def float_call_form(t):
    """Fmt(['float("', v, '")']) -> v"""
    if isinstance(t, Fmt) and not isinstance(t, Txt) and len(t.parts) == 3 and t.parts[0] == 'float("' and t.parts[2] == '")':
        return t.parts[1]
    return None


def quoted_form(t):
    """Fmt([q, s, q]) -> (q, s)"""
    if isinstance(t, Fmt) and not isinstance(t, Txt) and len(t.parts) == 3 and t.parts[0] == t.parts[2] and t.parts[0] in ("'", '"'):
        return t.parts[0], t.parts[1]
    return None


def evaluates_to(text, want, any_text=True):
    """-> (holds, form) where `holds` is bool/SBool and `form` names the axiom used.
    any_text=False gives the residual for hand-quoted text: assuming the string needs no escaping."""
    from pandera import dtypes as pdt

    if isinstance(text, Txt) and isinstance(text, Concat) and len(text.parts_list) == 1:
        return evaluates_to(text.parts_list[0], want, any_text)
    if isinstance(text, Repr):
        v = text.value
        if not isinstance(v, REPR_EVALUABLE):
            return False, f"E1 does not cover repr of {type(v).__name__}"
        return And(identical(v, want), finite(v)), "E1 repr"
    fv = float_call_form(text)
    if fv is not None:
        is_float = isinstance(fv, float) or (isinstance(fv, SNum) and fv.z.sort() == z3.RealSort())
        return (identical(fv, want) if is_float else False), "E6 float(str(v))"
    q = quoted_form(text)
    if q is not None:
        qc, s = q
        if isinstance(s, pdt.DataType):
            s = str(s)
        if not isinstance(s, (str, SStr)):
            return False, f"E3 needs a str between the quotes, got {type(s).__name__}"
        same_ = identical(s, want) if not isinstance(want, pdt.DataType) else _dtype_alias_ok(s, want)
        return (And(same_, plain(s, qc)) if any_text else same_), "E3 hand-quoted"
    if isinstance(text, (Fmt,)):
        return False, "unrecognised text form"
    # a python value inserted by str.format: the text is str(value)
    if isinstance(text, str):
        try:
            lit = ast.literal_eval(text)
        except Exception:
            return False, f"E5 concrete text {text!r} is not a literal"
        if isinstance(want, pdt.DataType):
            return _dtype_alias_ok(lit, want), "E5 concrete"
        if isinstance(want, (Sym, Obj)) or getattr(want, "__pyvc_symbolic__", False):
            return False, "E5 concrete text for a symbolic value"
        return (lit == want and type(lit) is type(want)), "E5 concrete"
    if text is None or isinstance(text, (bool, int, float, SBool, SNum, JsonList)):
        return identical(text, want), "E2 str of a scalar"
    if isinstance(text, SStr):
        return False, "E4 raw text"
    return False, f"E4 str() of {type(text).__name__} is not an expression for the value"


def _dtype_alias_ok(alias, dtype):
    from pandera.engines import pandas_engine

    if not isinstance(alias, str):
        return False
    try:
        return pandas_engine.Engine.dtype(alias) == dtype
    except Exception:
        return False


# --------------------------------------------------------------------------------------
# installation
# --------------------------------------------------------------------------------------


class _ReprOf:
    __pyvc_model__ = True

    def __init__(self, v):
        self.v = v
        self.__name__ = "__repr__"

    def __call__(self):
        return make_repr(self.v)


def make_repr(v):
    from ..interp import is_concrete

    if is_concrete(v) and isinstance(v, (str, int, float, bool, type(None))):
        return Repr(v)
    return Repr(v)


def _is_text(v):
    return isinstance(v, (str, Fmt, SStr))


def install(I):
    import builtins

    from ..interp import is_concrete

    orig_getattr = I.getattr

    def getattr_(v, name):
        if name == "__repr__" and not isinstance(v, (Obj, type)):
            return _ReprOf(v)
        return orig_getattr(v, name)

    I.getattr = getattr_
    I.models[id(builtins.repr)] = lambda I, v: make_repr(v)
    import math

    I.models[id(math.isfinite)] = lambda I, v: finite(v)

    orig_setitem = I.setitem

    def setitem(c, k, v):
        # d[key] = v with a symbolic str key on a dict built by the function itself: python semantics (overwrite an equal key)
        if isinstance(c, DictObj) and isinstance(k, SStr) and not getattr(c, "pre", False):
            for kk in list(c):
                if kk is k or I.truth(py_eq(k, kk), "dict key equal"):
                    dict.__setitem__(c, kk, v)
                    return
            dict.__setitem__(c, k, v)
            return
        return orig_setitem(c, k, v)

    I.setitem = setitem
    orig_call = I.call

    def call(fn, args=(), kwargs=None):
        kwargs = kwargs or {}
        slf = getattr(fn, "__self__", None)
        nm = getattr(fn, "__name__", None)
        if isinstance(slf, str) and type(fn).__name__ == "builtin_function_or_method":
            if nm == "format" and not (is_concrete(list(args)) and is_concrete(kwargs)):
                if args:
                    raise Unsupported("positional str.format")
                names = [f for _, f, spec, conv in string.Formatter().parse(slf) if f is not None]
                if any((spec or conv) for _, f, spec, conv in string.Formatter().parse(slf) if f is not None):
                    raise Unsupported("format spec / conversion in template")
                for n in names:
                    if n not in kwargs:
                        I.raise_py(KeyError, n)
                return Tmpl(slf, {n: kwargs[n] for n in names})
            if nm == "join" and len(args) == 1:
                items = I.concrete_iter(args[0])
                if not is_concrete(items):
                    return Joined(slf, items)
        return orig_call(fn, args, kwargs)

    I.call = call

    try:
        import black

        I.models[id(black.format_str)] = lambda I, src, mode=None, **kw: src
    except ImportError:  # pragma: no cover
        pass


# --------------------------------------------------------------------------------------
# the axioms, replayed on the real interpreter
# --------------------------------------------------------------------------------------


def selftest():
    import pandas as pd

    out = []

    def ax(name, ok, detail=""):
        out.append((name, bool(ok), detail))

    scalars = [None, True, False, 0, -7, 2.5, "", "plain", "it's", 'say "hi"', "back\\slash", "line\nbreak", "é", [1, "a", None], [], ["x'y"]]
    for v in scalars:
        ax("E1 eval(repr(v)) == v", eval(repr(v)) == v and type(eval(repr(v))) is type(v), repr(v))
        if not isinstance(v, str):
            ax("E2 eval(str(v)) == v", eval(str(v)) == v, repr(v))
    for v in (float("inf"), float("-inf"), float("nan")):
        try:
            r = eval(repr(v), {})
        except NameError as e:
            r = e
        ax("E1 does not hold for a non-finite float: its repr is a name", isinstance(r, NameError), repr(v))
        back = eval('float("' + str(v) + '")', {})
        ax("E6 eval('float(\"' + str(v) + '\")') == v", back == v or (back != back and v != v), repr(v))
    for v in (1.5, -2.0, 1e300):
        ax("E6 eval('float(\"' + str(v) + '\")') == v", eval('float("' + str(v) + '")', {}) == v, repr(v))
    env = {"Timestamp": pd.Timestamp, "Timedelta": pd.Timedelta}
    for v in (pd.Timestamp("2020-01-01 00:00:00.5"), pd.Timestamp(3), pd.Timedelta(1000), pd.Timedelta(1, unit="D")):
        ax("E1 eval(repr(v)) == v with the pandas import", eval(repr(v), dict(env)) == v, repr(v))
    for q in ("'", '"'):
        for s in ("", "plain", "a b", "é", "x" + ("'" if q == '"' else '"') + "y"):
            ax("E3 eval(q+s+q) == s for plain s", plain(s, q) and eval(q + s + q) == s, repr((q, s)))
        for s in ("x" + q + "y", "a\\b", "line\nbreak", "tab\\t"):
            bad = False
            try:
                bad = eval(q + s + q) != s
            except SyntaxError:
                bad = True
            ax("E3 not plain => hand-quoting does not give s back", (not plain(s, q)) and bad, repr((q, s)))
    for s in ("filter", "my title", "desc x", "int64"):
        r = None
        try:
            r = eval(s, {})
        except Exception as e:
            r = e
        ax("E4 a raw str is not an expression for itself", not (isinstance(r, str) and r == s), repr((s, r)))
    ax("E4 str(dict) evaluates to a dict, not a list of checks", isinstance(eval(str({"greater_than": {"min_value": 0}})), dict))
    # str.format inserts str(value); join; strip
    ax("format inserts str(value)", "a={a} b={b}".format(a=None, b=True) == "a=None b=True")
    ax("format inserts text unchanged", "a={a}".format(a='"x"') == 'a="x"')
    ax("'{{' is a literal brace", "{{{a}}}".format(a=1) == "{1}")
    try:
        import black

        src = "x = DataFrameSchema(columns={'a': Column(dtype=\"int64\", checks=[Check.gt(min_value=0)], nullable=False)}, strict='filter')\n"
        ax("black.format_str preserves the program", ast.dump(ast.parse(black.format_str(src, mode=black.FileMode(line_length=80)))) == ast.dump(ast.parse(src)))
    except ImportError:  # pragma: no cover
        pass
    return out
