"""serial: assumed contracts on the *dependencies* of pandera's schema serialisation (C12).

Everything in this file is an axiom about a library (pandas, yaml, json, black) or about concrete
execution of pandera's dtype engine; nothing here stands for a function of pandera/io or
pandera/schema_statistics (those are interpreted from their live source).

  * `TsVal`  - a tz-naive pandas Timestamp, identified with its integer nanosecond count `ns`
       strftime("%Y-%m-%d %H:%M:%S") = the text of floor(ns / 10^9) seconds              (pandas: sub-second part dropped)
       pd.to_datetime(that text, format=the same format) = Timestamp(floor(ns/10^9)*10^9) (exact inverse on whole seconds)
       pd.to_datetime(bool) raises TypeError; (number | other text) raises ValueError; None -> None; Timestamp -> itself
  * `TdVal`  - a pandas Timedelta, identified with its nanosecond count;  `.value` = ns;
       pd.to_timedelta(int n, unit=u) = Timedelta(n * (1 | 10^3 | 10^6 | 10^9) ns) for u = ns | us | ms | s; bool / text raise ValueError; None -> None; Timedelta -> itself
  * JSON transport `transport(x)`:  yaml.safe_load(yaml.safe_dump(x)) == x and json.loads(json.dumps(x)) == x
       for x in the JSON domain  J ::= None | bool | int | float | str | [J*] | {str: J}  (insertion order kept, sort_keys=False);
       tuples come back as lists; anything else is not representable (RepresenterError / TypeError) -> reported.
  * `Engine.dtype(...)`, `DataType.check(...)`, `str(DataType)` on CONCRETE arguments run natively (real pandera code).
  * black.format_str preserves the meaning of the program text (identity on the abstract text).
All axioms above are replayed against the real libraries by `selftest()` (run by the structural obligation
`serial_axioms_hold_natively`).
"""
from __future__ import annotations

import z3

from .. import core
from ..core import PyExc, SAny, SBool, SNum, SStr, Sym, Unsupported, cur, py_eq
from ..heap import DictObj, ListObj, Obj

DATETIME_FORMAT = "%Y-%m-%d %H:%M:%S"
NS = 1_000_000_000


class TsVal:
    """tz-naive pd.Timestamp"""

    __pyvc_symbolic__ = True

    def __init__(self, ns: SNum, name="ts"):
        self.ns = ns
        self.name = name

    @classmethod
    def fresh(cls, name):
        ns = core.sym_int(name + ".ns")
        core.register_model_var(name, lambda m, z=ns.z: f"Timestamp({m.eval(z, model_completion=True)} ns)")
        return cls(ns, name)

    def strftime(self, fmt):
        if not isinstance(fmt, str):
            raise Unsupported("strftime with symbolic format")
        if fmt != DATETIME_FORMAT:
            raise Unsupported(f"strftime({fmt!r}): only the second-resolution format is axiomatised")
        return TsText(SNum(self.ns.z / NS), fmt)  # z3 Int division = floor for a positive divisor

    def __eq__(self, o):
        if isinstance(o, TsVal):
            return self.ns == o.ns
        return False

    def __ne__(self, o):
        r = self.__eq__(o)
        return (~r) if isinstance(r, SBool) else (not r)

    __hash__ = object.__hash__

    def pyvc_class(self):
        import pandas as pd

        return pd.Timestamp

    def __repr__(self):
        return f"<Timestamp {self.ns.z} ns>"


class TsText:
    """the text produced by Timestamp.strftime: a str (JSON domain) that determines the whole second"""

    __pyvc_symbolic__ = True

    def __init__(self, sec: SNum, fmt):
        self.sec = sec
        self.fmt = fmt

    def __eq__(self, o):
        if isinstance(o, TsText):
            return (self.sec == o.sec) if self.fmt == o.fmt else False
        return False

    __hash__ = object.__hash__

    def pyvc_class(self):
        return str


class TdVal:
    """pd.Timedelta"""

    __pyvc_symbolic__ = True

    def __init__(self, ns: SNum, name="td"):
        self.ns = ns
        self.name = name

    @classmethod
    def fresh(cls, name):
        ns = core.sym_int(name + ".ns")
        core.register_model_var(name, lambda m, z=ns.z: f"Timedelta({m.eval(z, model_completion=True)} ns)")
        return cls(ns, name)

    @property
    def value(self):
        return self.ns

    def __eq__(self, o):
        if isinstance(o, TdVal):
            return self.ns == o.ns
        return False

    def __ne__(self, o):
        r = self.__eq__(o)
        return (~r) if isinstance(r, SBool) else (not r)

    __hash__ = object.__hash__

    def pyvc_class(self):
        import pandas as pd

        return pd.Timedelta

    def __repr__(self):
        return f"<Timedelta {self.ns.z} ns>"


class JsonList(SAny):
    """an opaque list of JSON scalars (allowed_values / forbidden_values): transported unchanged"""

    def pyvc_class(self):
        return list


class FlowJson(SAny):
    """an arbitrary JSON scalar OR None that the code under verification may only pass along: any decision on it
    (truthiness, ==, `is`) is reported as unsupported instead of being answered (sound for flow-only attributes)"""

    def truth(self):
        raise Unsupported(f"decision on the flow-only value {self.z}")

    def __eq__(self, o):
        if o is self:
            return True
        raise Unsupported(f"comparison of the flow-only value {self.z}")

    def __ne__(self, o):
        if o is self:
            return False
        raise Unsupported(f"comparison of the flow-only value {self.z}")

    __hash__ = SAny.__hash__


# --------------------------------------------------------------------------------------
# JSON / YAML transport
# --------------------------------------------------------------------------------------


def json_kind(v):
    """'scalar' | 'list' | 'dict' | None (not representable)"""
    if v is None or isinstance(v, (bool, int, float, str, SBool, SNum, SStr, TsText, JsonList, FlowJson)):
        return "scalar"
    if isinstance(v, (list, tuple, ListObj)):
        return "list"
    if isinstance(v, (dict, DictObj)):
        return "dict"
    return None


def transport(v, where="$", bad=None, text_keys=True):
    """dump + load: a fresh structure equal to `v` on the JSON domain; `bad` collects the paths of values that the
    dumper cannot represent (the dump raises there)."""
    bad = bad if bad is not None else []
    k = json_kind(v)
    if k == "scalar":
        return v
    if k == "list":
        return ListObj(transport(x, f"{where}[{i}]", bad, text_keys) for i, x in enumerate(v))
    if k == "dict":
        out = DictObj()
        for key, x in v.items():
            if text_keys and not isinstance(key, (str, SStr)):
                bad.append((f"{where}.<key {key!r}>", key))
            out[key] = transport(x, f"{where}.{key if isinstance(key, str) else '<k>'}", bad, text_keys)
        return out
    bad.append((where, v))
    return v


class DumpedText:
    """the text written by yaml.safe_dump / json.dumps (sort_keys=False): determined by, and determining, the dumped
    JSON value including key order"""

    __pyvc_symbolic__ = True

    def __init__(self, value, fmt, sort_keys, bad):
        self.value, self.fmt, self.sort_keys, self.bad = value, fmt, sort_keys, bad

    def pyvc_class(self):
        return str


# --------------------------------------------------------------------------------------
# installation
# --------------------------------------------------------------------------------------


def install(I):
    import pandas as pd

    from pandera import dtypes as pdt
    from pandera.engines import engine as eng

    def to_datetime(I, x=None, format=None, **kw):
        if isinstance(x, TsText):
            if x.fmt == format:
                return TsVal(SNum(x.sec.z * NS), "to_datetime")
            I.raise_py(ValueError, "time data doesn't match format")
        if isinstance(x, TsVal) or x is None:
            return x
        if isinstance(x, (bool, SBool)):
            I.raise_py(TypeError, "dtype bool cannot be converted to datetime64[ns]")
        if isinstance(x, (SNum, int, float)) and format is not None:
            I.raise_py(ValueError, "time data doesn't match format")
        if isinstance(x, (SStr, str)):
            # arbitrary text: matches the format or not
            if cur().choose([("parses", None), ("ValueError", None)], "to_datetime(text)") == 1:
                I.raise_py(ValueError, "time data doesn't match format")
            return TsVal.fresh("parsed_ts")
        raise Unsupported(f"pd.to_datetime({type(x).__name__})")

    def to_timedelta(I, x=None, unit=None, **kw):
        if isinstance(x, TdVal) or x is None:
            return x
        if isinstance(x, (bool, SBool)):
            I.raise_py(ValueError, "Value must be Timedelta, string, integer, float, timedelta or convertible, not bool")
        if isinstance(x, (SStr, str, TsText)):
            I.raise_py(ValueError, "unit must not be specified if the input is/contains a str")
        factor = {"ns": 1, "us": 1_000, "ms": 1_000_000, "s": NS}.get(unit)
        if isinstance(x, SNum) and x.is_int and factor:
            return TdVal(SNum(x.z * factor), "to_timedelta")
        if isinstance(x, int) and factor:
            return TdVal(SNum(z3.IntVal(x * factor)), "to_timedelta")
        raise Unsupported(f"pd.to_timedelta({type(x).__name__}, unit={unit!r})")

    # engine bug worked around locally: stdlib_models registers the model of `dict.fromkeys` under the id() of a
    # temporary builtin-method object; that id is recycled for other temporaries (e.g. `d.items`) -> drop the entry
    for key, f in list(I.models.items()):
        if getattr(f, "__name__", "") == "_fromkeys":
            del I.models[key]
    # float("-inf") etc.: the interpreter would allocate a heap object for a builtin value type
    def _float(I, v=0.0):
        if isinstance(v, SNum):
            return v
        if isinstance(v, (str, int, float)):
            try:
                return float(v)
            except ValueError as e:
                raise PyExc(I.make_exc(ValueError, *e.args))
        raise Unsupported(f"float({type(v).__name__})")

    import builtins as _b

    I.models[id(_b.float)] = _float
    I.models[id(_b.reversed)] = lambda I, seq: ListObj(reversed(list(I.concrete_iter(seq))))
    I.models[id(pd.to_datetime)] = to_datetime
    I.models[id(pd.to_timedelta)] = to_timedelta

    # concrete execution of the dtype engine (real pandera code, concrete arguments only)
    from ..interp import is_concrete

    orig_is = I.is_

    def is_(a, b):
        if (isinstance(a, FlowJson) or isinstance(b, FlowJson)) and a is not b:
            raise Unsupported("identity test on a flow-only value")
        return orig_is(a, b)

    I.is_ = is_
    orig_call = I.call

    def call(fn, args=(), kwargs=None):
        kwargs = kwargs or {}
        slf = getattr(fn, "__self__", None)
        if slf is not None and (isinstance(slf, pdt.DataType) or isinstance(slf, eng.Engine)) and not isinstance(fn, type):
            if is_concrete(list(args)) and is_concrete(kwargs):
                try:
                    return fn(*args, **kwargs)
                except Exception as e:
                    raise PyExc(I.make_exc(type(e), *e.args))
            raise Unsupported(f"dtype engine call {getattr(fn, '__name__', fn)} with symbolic arguments")
        return orig_call(fn, args, kwargs)

    I.call = call

    # str(DataType) runs natively (is_concrete) only for some builtins: make it explicit
    import builtins

    str_model = I.models[id(builtins.str)]

    def _str(I, v=""):
        if isinstance(v, pdt.DataType):
            return str(v)
        if isinstance(v, TsText):
            return v
        return str_model(I, v)

    I.models[id(builtins.str)] = _str

    try:
        import yaml

        def safe_dump(I, obj, stream=None, sort_keys=True, **kw):
            bad = []
            val = transport(obj, "$", bad, text_keys=False)
            if bad:
                cur().event("dump_not_representable", "yaml", tuple(w for w, _ in bad))
                I.raise_py(yaml.representer.RepresenterError, "cannot represent an object", bad[0][1])
            if stream is not None:
                raise Unsupported("yaml.safe_dump to a stream")
            return DumpedText(val, "yaml", sort_keys, bad)

        def safe_load(I, text):
            if isinstance(text, DumpedText) and text.fmt == "yaml":
                if text.sort_keys:
                    raise Unsupported("yaml dumped with sort_keys=True: key order not modelled")
                return transport(text.value, "$", [], text_keys=False)
            raise Unsupported("yaml.safe_load of arbitrary text")

        I.models[id(yaml.safe_dump)] = safe_dump
        I.models[id(yaml.safe_load)] = safe_load
    except ImportError:  # pragma: no cover
        pass

    import json

    def dumps(I, obj, sort_keys=False, **kw):
        bad = []
        val = transport(obj, "$", bad, text_keys=True)
        if bad:
            cur().event("dump_not_representable", "json", tuple(w for w, _ in bad))
            I.raise_py(TypeError, "Object is not JSON serializable", bad[0][1])
        return DumpedText(val, "json", sort_keys, bad)

    def loads(I, text, **kw):
        if isinstance(text, DumpedText) and text.fmt == "json":
            if text.sort_keys:
                raise Unsupported("json dumped with sort_keys=True: key order not modelled")
            return transport(text.value, "$", [], text_keys=True)
        raise Unsupported("json.loads of arbitrary text")

    I.models[id(json.dumps)] = dumps
    I.models[id(json.loads)] = loads


# --------------------------------------------------------------------------------------
# the axioms, replayed on the real libraries
# --------------------------------------------------------------------------------------


def selftest():
    """-> list of (axiom, ok, detail)"""
    import json

    import pandas as pd
    import yaml

    out = []

    def ax(name, ok, detail=""):
        out.append((name, bool(ok), detail))

    F = DATETIME_FORMAT
    for ns in (0, 1, NS - 1, NS, 1577836800 * NS + 500_000_000, -1, -NS - 1, 253402300799 * NS // 100):
        ts = pd.Timestamp(ns)
        txt = ts.strftime(F)
        back = pd.to_datetime(txt, format=F)
        ax("to_datetime(strftime(ts)) == floor_second(ts)", back.value == (ns // NS) * NS, f"ns={ns} text={txt} back={back.value}")
        ax("strftime depends on the whole second only", txt == pd.Timestamp((ns // NS) * NS).strftime(F), f"ns={ns}")
        td = pd.Timedelta(ns, unit="ns")
        ax("Timedelta.value is its ns count", td.value == ns, f"ns={ns}")
        ax("to_timedelta(n, unit='ns').value == n", pd.to_timedelta(td.value, unit="ns") == td, f"ns={ns}")
        if abs(ns) < 10 ** 9:
            for u, fct in (("us", 1_000), ("ms", 1_000_000), ("s", NS)):
                ax("to_timedelta(n, unit=u).value == n * factor(u)", pd.to_timedelta(ns, unit=u).value == ns * fct, f"n={ns} unit={u}")

    def raises(f, *a, **k):
        try:
            f(*a, **k)
        except Exception as e:
            return type(e)
        return None

    ax("to_datetime(bool) raises TypeError", raises(pd.to_datetime, True, format=F) is TypeError)
    ax("to_datetime(number) raises ValueError", issubclass(raises(pd.to_datetime, 5, format=F) or int, ValueError))
    ax("to_datetime(other text) raises ValueError", issubclass(raises(pd.to_datetime, "abc", format=F) or int, ValueError))
    ax("to_datetime(None) is None", pd.to_datetime(None, format=F) is None)
    ax("to_datetime(Timestamp) is the Timestamp", pd.to_datetime(pd.Timestamp(5), format=F) == pd.Timestamp(5))
    ax("to_timedelta(bool) raises ValueError", issubclass(raises(pd.to_timedelta, True, unit="ns") or int, ValueError))
    ax("to_timedelta(text, unit) raises ValueError", issubclass(raises(pd.to_timedelta, "2020-01-01 00:00:00", unit="ns") or int, ValueError))
    ax("to_timedelta(None) is None", pd.to_timedelta(None, unit="ns") is None)
    ax("to_timedelta(Timedelta) is the Timedelta", pd.to_timedelta(pd.Timedelta(7), unit="ns") == pd.Timedelta(7))
    samples = [
        None, True, False, 0, -3, 2.5, "", "a b", "say \"hi\"", "it's", "x: y", "- z", "#", "null", "true", "1", "1.0", "é", "line\nbreak",
        [], [1, "a", None, [True]], {}, {"b": 1, "a": {"z": [1, 2], "y": None}}, {"title": None, "checks": {"greater_than": {"value": 0, "options": {"ignore_na": True}}}},
    ]
    for s in samples:
        y = yaml.safe_load(yaml.safe_dump(s, sort_keys=False))
        ax("yaml.safe_load(yaml.safe_dump(x)) == x on the JSON domain", y == s and (not isinstance(s, dict) or list(y) == list(s)), repr(s))
        j = json.loads(json.dumps(s, sort_keys=False))
        ax("json.loads(json.dumps(x)) == x on the JSON domain", j == s and (not isinstance(s, dict) or list(j) == list(s)), repr(s))
    ax("yaml tuples come back as lists", yaml.safe_load(yaml.safe_dump((1, 2))) == [1, 2])
    ax("json tuples come back as lists", json.loads(json.dumps((1, 2))) == [1, 2])
    for badv in (frozenset({1}), pd.Timestamp(0), pd.Timedelta(1), object()):
        ax("yaml.safe_dump rejects non-JSON values", raises(yaml.safe_dump, {"a": badv}) is not None, repr(badv))
        ax("json.dumps rejects non-JSON values", raises(json.dumps, {"a": badv}) is not None, repr(badv))
    return out
