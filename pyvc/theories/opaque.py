"""OpaqueVal: a library value the contracts say nothing about (a data container, a native dtype object, a failure-case table).

Sound abstraction for FRAME obligations ("the function writes none of its arguments"): every observation of the value is
unconstrained but CONSISTENT - the same attribute gives the same opaque value, the same comparison / isinstance question gives the
same (symbolic) answer - calling it gives a new opaque value, iterating it yields no element or one generic element (loop bodies
that are pure predicates of the element: stated where used), and its truth value is a symbolic boolean."""
from .. import core
from ..core import cur


class OpaqueVal:
    __pyvc_symbolic__ = True

    def __init__(self, name):
        d = self.__dict__
        d["_name"], d["_attrs"], d["_eq"], d["_isinst"], d["_truth"] = name, {}, {}, {}, None

    def __repr__(self):
        return f"<opaque {self._name}>"

    def __getattr__(self, name):
        if name.startswith("__") or name.startswith("pyvc_"):
            raise AttributeError(name)
        if name not in self._attrs:
            self._attrs[name] = OpaqueVal(f"{self._name}.{name}")
        return self._attrs[name]

    def __setattr__(self, name, value):
        raise core.Unsupported(f"write to attribute {name} of an opaque library value")

    def __call__(self, *a, **k):
        return OpaqueVal(f"{self._name}()")

    def pyvc_class(self):
        return None  # unknown class: isinstance is answered by pyvc_isinstance

    def pyvc_isinstance(self, c):
        key = c if isinstance(c, tuple) else (c,)
        if key not in self._isinst:
            self._isinst[key] = core.sym_bool(f"isinstance({self._name},{'|'.join(getattr(x, '__name__', str(x)) for x in key)})")
        return self._isinst[key]

    def pyvc_hasattr(self, name):
        """whether the library value has the attribute: unknown, but one answer per name (an attribute already read exists)"""
        if name in self._attrs:
            return True
        h = self.__dict__.setdefault("_has", {})
        if name not in h:
            h[name] = core.sym_bool(f"hasattr({self._name},{name})")
        return h[name]

    def pyvc_iter(self, I):
        k = cur().choose([("empty", None), ("one_generic_element", None)], f"iter({self._name})")
        return [] if k == 0 else [OpaqueVal(f"{self._name}[i]")]

    def _cmp(self, o):
        if o is self:
            return True
        if isinstance(o, OpaqueVal) and id(self) in o._eq:
            return o._eq[id(self)]
        if id(o) not in self._eq:
            self._eq[id(o)] = core.sym_bool(f"{self._name}=={getattr(o, '_name', o)}")
        return self._eq[id(o)]

    def __eq__(self, o):
        return self._cmp(o)

    def __ne__(self, o):
        r = self._cmp(o)
        return (not r) if isinstance(r, bool) else core.Not(r)

    __hash__ = object.__hash__

    def __invert__(self):
        return OpaqueVal(f"~{self._name}")

    def __or__(self, o):
        return OpaqueVal(f"{self._name}|..")

    __ror__ = __and__ = __rand__ = __or__

    def pyvc_truth(self):
        if self.__dict__["_truth"] is None:
            self.__dict__["_truth"] = core.sym_bool(f"bool({self._name})")
        return self._truth

    def all(self, *a, **k):
        return OpaqueVal(f"{self._name}.all()")
