"""Theory for the data-type engines (C09): assumed contracts on *dependencies* only.

* `dataclasses`: the `__eq__` / `__hash__` that `@dataclass(eq=True, frozen=True)` generates have no source
  (`<string>`); their documented meaning is "same class and the tuples of compare-fields are equal"
  (docs.python.org/3/library/dataclasses.html).  Python's rich-comparison protocol for `==`
  (`NotImplemented` -> reflected operand -> identity) is modelled in `install_eq`.
* `inspect.isclass(x)` == `isinstance(x, type)`.
* `typing_inspect.get_origin / get_generic_bases / get_args`: real function on concrete arguments; a `str`,
  a heap object (instance of a pandera class) or an opaque non-typing value has no origin / no generic bases.
* `SymMapping`: a read-only mapping of unknown content (the engine's `equivalents` table): `.get(k)` either
  *hits* (value = the registered object for that key, one object per key) or *misses* (default).
* `builtins.hash` on heap objects: uninterpreted per object, congruent with dataclass equality is NOT assumed.
"""
from __future__ import annotations

import dataclasses
import inspect
import types as pytypes

import z3

from .. import core
from ..core import SAny, SBool, SStr, Sym, Unsupported, cur, py_eq
from ..heap import Obj


def _generated(f) -> bool:
    return isinstance(f, pytypes.FunctionType) and f.__code__.co_filename == "<string>"


def _owner(cls, name, f):
    for c in cls.__mro__:
        if c.__dict__.get(name) is f:
            return c
    return cls


def dataclass_eq(I, a: Obj, b, f):
    """the generated __eq__ of dataclass `owner`: other.__class__ is self.__class__ and compare-fields equal"""
    owner = _owner(a.cls, "__eq__", f)
    bcls = b.cls if isinstance(b, Obj) else type(b)
    if bcls is not a.cls:
        return NotImplemented
    conj = []
    for fld in dataclasses.fields(owner):
        if not fld.compare:
            continue
        x, y = I.getattr(a, fld.name), I.getattr(b, fld.name)
        conj.append(I.eq(x, y))
    return core.And(*conj) if conj else True


def rich_eq_one(I, a, b):
    """a.__eq__(b) for a heap object a"""
    if not isinstance(a, Obj) or a.cls is None:
        return NotImplemented
    from ..interp import _find_in_mro

    f = _find_in_mro(a.cls, "__eq__")
    if f is None or f is object.__eq__:
        return NotImplemented
    if _generated(f):
        return dataclass_eq(I, a, b, f)
    if isinstance(f, pytypes.FunctionType):
        return I.call(f, [a, b])
    return NotImplemented


def install_eq(I):
    """python's `==` on heap objects: __eq__, then the reflected __eq__, then identity"""
    from ..interp import _find_in_mro

    orig = I.eq

    def eq(a, b):
        if isinstance(a, Obj) or isinstance(b, Obj):
            if a is b:
                return True
            # a subclass on the right gets the first try (python data model) - only matters when both define __eq__
            r = rich_eq_one(I, a, b)
            if r is NotImplemented:
                r = rich_eq_one(I, b, a)
            if r is NotImplemented:
                return False
            return r
        return orig(a, b)

    I.eq = eq
    # super().__eq__(obj) reaching a generated __eq__
    orig_call = I.call

    def call(fn, args=(), kwargs=None):
        if _generated(fn) and fn.__name__ == "__eq__":
            a, b = list(args)[:2]
            return dataclass_eq(I, a, b, fn)
        return orig_call(fn, args, kwargs)

    I.call = call


def install(I):
    import typing_inspect

    install_eq(I)
    M = I.models

    def isclass(I_, v):
        if isinstance(v, (Obj, Sym)) or getattr(v, "__pyvc_symbolic__", False):
            return False
        return isinstance(v, type)

    M[id(inspect.isclass)] = isclass

    def _no_typing(v):
        return isinstance(v, (Obj, SStr)) or getattr(v, "__pyvc_no_typing__", False)

    def get_origin(I_, v):
        if _no_typing(v):
            return None
        if isinstance(v, Sym):
            raise Unsupported("typing_inspect.get_origin of an opaque value")
        return typing_inspect.get_origin(v)

    def get_generic_bases(I_, v):
        if _no_typing(v):
            return ()
        if isinstance(v, Sym):
            raise Unsupported("typing_inspect.get_generic_bases of an opaque value")
        return typing_inspect.get_generic_bases(v)

    M[id(typing_inspect.get_origin)] = get_origin
    orig_contains = I.contains

    def contains(c, x):
        # `name in SomeClass.__dict__` (a mappingproxy of a live class): concrete
        if isinstance(c, pytypes.MappingProxyType) and isinstance(x, (str, int, type)):
            return x in c
        return orig_contains(c, x)

    I.contains = contains
    M[id(typing_inspect.get_generic_bases)] = get_generic_bases


class SymMapping:
    """read-only mapping with unknown content; one decision per distinct key (hit / miss)"""

    __pyvc_symbolic__ = True

    def __init__(self, name, value_factory):
        self.name = name
        self.value_factory = value_factory  # key -> registered value (created once per key, pre-existing object)
        self.lookups = []  # (key, value-or-None)
        self.memo = {}

    def _key(self, k):
        if isinstance(k, Sym):
            return ("sym", k.z.get_id())
        return ("obj", id(k))

    def get(self, k, default=None):
        kk = self._key(k)
        if kk not in self.memo:
            hit = cur().choose([("hit", None), ("miss", None)], f"{self.name}.get#{len(self.memo)}") == 0
            self.memo[kk] = self.value_factory(k, len(self.memo)) if hit else None
        v = self.memo[kk]
        self.lookups.append((k, v))
        return default if v is None else v

    def pyvc_contains(self, I, k):
        return self.get(k) is not None

    def pyvc_getitem(self, I, k):
        v = self.get(k)
        if v is None:
            I.raise_py(KeyError, k)
        return v


def install_str_like(I):
    """a symbolic `str` behaves like a str under reflection: `x.__class__ is str`, `getattr(x, name, default)` follows
    the attributes every str has; `type(None)(x)` raises TypeError like CPython ("NoneType takes no arguments")."""
    import builtins

    orig_getattr = I.getattr

    def getattr_(v, name):
        if isinstance(v, SStr) and name == "__class__":
            return str
        return orig_getattr(v, name)

    I.getattr = getattr_
    orig_model = I.models[id(builtins.getattr)]

    def getattr_model(I_, v, name, *default):
        if isinstance(v, SStr):
            if name == "__class__":
                return str
            if not hasattr("", name):
                if default:
                    return default[0]
                I_.raise_py(AttributeError, name)
            raise Unsupported(f"attribute {name} of a symbolic str")
        return orig_model(I_, v, name, *default)

    I.models[id(builtins.getattr)] = getattr_model
    orig_inst = I.instantiate

    def instantiate(cls, args, kwargs):
        if cls is type(None) and (args or kwargs):
            I.raise_py(TypeError, "NoneType takes no arguments")
        return orig_inst(cls, args, kwargs)

    I.instantiate = instantiate
