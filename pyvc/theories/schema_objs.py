"""Theory of schema objects (used by C15): symbolic Column / Index / MultiIndex / DataFrameSchema heap objects,
immutable-content check lists, value equality of schema objects, sharing analysis.

Assumed contracts on DEPENDENCIES only (stated here, listed in notes/C15.md):

* `Engine.dtype(x)` (pandas_engine / polars_engine; its own property is C09): a `DataType` instance resolves to
  itself; anything else resolves to some `DataType` or raises `TypeError`.
* check / parser lists are python lists whose *elements* are never written by the functions under contract
  (checked: elements are pre-existing heap objects, any write is a frame violation).  The list value is summarised
  by an equality term `eq`: two lists are equal iff they carry the same term; `copy.deepcopy` preserves it
  (a deep copy of a list of checks compares equal to the original - `Check.__eq__` is structural), identity differs.

Nothing in here models pandera code.
"""
from __future__ import annotations

import inspect

import z3

from pyvc import core, heap
from pyvc import types as T
from pyvc.core import And, Not, Or, SAny, SBool, Sym, Unsupported, cur, py_eq
from pyvc.heap import MISSING, DictObj, ListObj, Obj
from pyvc.stdlib_models import LazyCopyAttrs, deep_copy
from pyvc.values import SymSeq

gb = z3.Function("check_has_groupby", core.U, z3.IntSort(), z3.BoolSort())


class ImmSeq(SymSeq):
    """A list (of checks / parsers) of unknown length.  `eq` is the value of the list for `==`."""

    __pyvc_symbolic__ = True

    def __init__(self, name, n, elem_fn, eq=None, pre=True, origin=None):
        super().__init__(name, n, elem_fn, pre=pre)
        self.eq = eq if eq is not None else z3.Const(cur().fresh_name(f"val({name})"), core.U)
        self.origin = origin if origin is not None else self  # the pre-existing list this one was copied from

    @classmethod
    def fresh(cls, name, elem_cls=None):
        n = core.sym_int(f"len({name})")
        cur().assume(n >= 0)
        core.register_model_var(f"len({name})", n.z)
        s = cls(name, n, None)

        def elem(i, s=s, name=name, elem_cls=elem_cls):
            iz = i.z if isinstance(i, core.SNum) else z3.IntVal(i)
            o = Obj(elem_cls, f"{name}[{iz}]", pre=True, strict=True)
            # `groupby` of the i-th check: None or not, decided by the uninterpreted predicate gb(list, i)
            has = cur().decide(SBool(gb(s.eq, iz)), f"{name}[{iz}].groupby is not None")
            v = SAny(name=f"{name}[{iz}].groupby") if has else None
            o.attrs["groupby"] = v
            o.attrs0["groupby"] = v
            return o

        s.elem_fn = elem
        return s

    def __eq__(self, other):  # type: ignore[override]
        if isinstance(other, ImmSeq):
            if self.eq is other.eq or self.eq.eq(other.eq):
                return self.appended == other.appended if (self.appended or other.appended) else True
            return SBool(self.eq == other.eq)
        return False

    def __ne__(self, other):  # type: ignore[override]
        r = self.__eq__(other)
        return (~r) if isinstance(r, SBool) else (not r)

    def __hash__(self):
        return id(self)

    def pyvc_deepcopy(self, I, memo):
        if self.appended:
            raise Unsupported("deepcopy of a symbolic list with appended tail")
        n = ImmSeq(self.name + "_dc", self.n, None, eq=self.eq, pre=False, origin=self.origin)
        memo[id(self)] = n
        n.elem_fn = lambda i, src=self, I=I, memo=memo: deep_copy(I, src.at(i), memo)
        return n

    def pyvc_copy(self):
        n = ImmSeq(self.name + "_c", self.n, self.elem_fn, eq=self.eq, pre=False, origin=self.origin)
        n.cache = self.cache
        return n

    def pyvc_class(self):
        return list

    def pyvc_havoc(self, name):
        raise Unsupported(f"check list {name} written inside a loop")


# --------------------------------------------------------------------------------------------------------
# live signatures: the attribute lists come from the code under verification, not from this file
# --------------------------------------------------------------------------------------------------------


def ctor_params(cls):
    """names of the keyword parameters of cls.__init__ (live signature), without self / *args / **kwargs"""
    sig = inspect.signature(cls.__init__)
    return [n for n, p in sig.parameters.items() if n != "self" and p.kind in (p.POSITIONAL_OR_KEYWORD, p.KEYWORD_ONLY)]


def ctor_defaults(cls):
    sig = inspect.signature(cls.__init__)
    return {n: p.default for n, p in sig.parameters.items() if n != "self" and p.default is not inspect.Parameter.empty}


# the attribute that stores a constructor parameter when the two names differ (read off the property getters)
STORED_AS = {"dtype": "_dtype"}
SCHEMA_STORED_AS = {"dtype": "_dtype", "coerce": "_coerce", "unique": "_unique"}


def dtype_ref():
    from pandera.dtypes import DataType

    return T.Ref(DataType, strict=True, auto_coerce=T.Bool)


def component_fields(kind="column"):
    f = dict(_dtype=T.Opt(dtype_ref()), nullable=T.Bool, unique=T.Bool, report_duplicates=T.Any, coerce=T.Bool,
             title=T.Any, description=T.Any, default=T.Any, metadata=T.Any, drop_invalid_rows=T.Bool)
    if kind == "column":
        f.update(required=T.Bool, regex=T.Bool)
    return f


def _install_lists(o, name, check_cls=None, parser_cls=None):
    for a, c in (("checks", check_cls), ("parsers", parser_cls)):
        v = ImmSeq.fresh(f"{name}.{a}", c)
        o.attrs[a] = v
        o.attrs0[a] = v


def make_component(cls, name, label, kind="column"):
    """a pre-existing Column / Index object: every attribute symbolic, `name` == label (concrete or symbolic)"""
    from pandera.api.checks import Check
    from pandera.api.parsers import Parser

    o = Obj(cls, name, pre=True, fields=component_fields(kind), strict=True)
    o.attrs["name"] = label
    o.attrs0["name"] = label
    _install_lists(o, name, Check, Parser)
    if kind == "index":
        # class invariant of Index (proved: ArraySchema._validate_attributes/post.an_index_that_passes_has_no_groupby_check)
        cs = o.attrs["checks"]
        j = z3.Int(cur().fresh_name("j"))
        cur().assume(SBool(z3.ForAll([j], z3.Implies(z3.And(j >= 0, j < cs.n.z), z3.Not(gb(cs.eq, j))))))
    return o


def make_multiindex(cls, index_cls, column_cls, name, labels):
    """a pre-existing MultiIndex over levels `labels`, in the state its constructor establishes:
    `indexes` = the Index objects, `columns` = {label: Column(dtype, checks, nullable, unique of the level)}"""
    o = Obj(cls, name, pre=True, fields=schema_fields(), strict=True)
    levels = ListObj([make_component(index_cls, f"{name}.indexes[{i}]", lab, "index") for i, lab in enumerate(labels)])
    levels.pre = True
    levels.name = f"{name}.indexes"
    o.attrs["indexes"] = levels
    o.attrs0["indexes"] = levels
    cols = DictObj()
    cols.pre = True
    cols.name = f"{name}.columns"
    dflt = ctor_defaults(column_cls)
    for lab, lv in zip(labels, levels):
        # class invariant of MultiIndex (proved: MultiIndex.__init__/post.columns_mirror_levels.*): the column of a level
        # carries the level's dtype, checks, nullable, unique; every other Column parameter has its default; name == key
        c = Obj(column_cls, f"{name}.columns[{lab!r}]", pre=True, fields={}, strict=True)
        vals = {k: (list(v) if isinstance(v, list) else v) for k, v in dflt.items()}
        vals.update(_dtype=attr(lv, "_dtype"), nullable=attr(lv, "nullable"), unique=attr(lv, "unique"), name=lab)
        vals.pop("dtype", None)
        lc = attr(lv, "checks")
        vals["checks"] = ImmSeq(f"{name}.columns[{lab!r}].checks", lc.n, lc.at, eq=lc.eq, pre=True)
        vals["parsers"] = ListObj()
        vals["parsers"].pre = True
        for k, v in vals.items():
            c.attrs[k] = v
            c.attrs0[k] = v
        cols[lab] = c
    o.attrs["columns"] = cols
    o.attrs0["columns"] = cols
    o.attrs["index"] = None
    o.attrs0["index"] = None
    _install_lists(o, name)
    return o


def schema_fields():
    return dict(_dtype=T.Opt(dtype_ref()), _coerce=T.Bool, strict=T.Any, name=T.Any, ordered=T.Bool, _unique=T.Any,
                report_duplicates=T.Any, unique_column_names=T.Bool, add_missing_columns=T.Bool, drop_invalid_rows=T.Bool,
                metadata=T.Any, title=T.Any, description=T.Any)


def make_schema(cls, column_cls, name, labels, index=None):
    """a pre-existing DataFrameSchema with columns `labels` (in this order); every column attribute and every
    schema-level attribute symbolic; class invariant of DataFrameSchema.__init__: column.name == its key"""
    o = Obj(cls, name, pre=True, fields=schema_fields(), strict=True)
    cols = DictObj()
    cols.pre = True
    cols.name = f"{name}.columns"
    for lab in labels:
        cols[lab] = make_component(column_cls, f"{name}.columns[{lab!r}]", lab, "column")
    o.attrs["columns"] = cols
    o.attrs0["columns"] = cols
    o.attrs["index"] = index
    o.attrs0["index"] = index
    _install_lists(o, name)
    return o


# --------------------------------------------------------------------------------------------------------
# dependency model: Engine.dtype
# --------------------------------------------------------------------------------------------------------


def install_engine_dtype(I):
    from pandera.dtypes import DataType

    # pyvc.stdlib_models registers `dict.fromkeys` under the id of a temporary bound-builtin object; that id is reused
    # by other builtin method objects (e.g. `d.keys`) - drop the entry (dict.fromkeys is not used by the C15 targets)
    for k in [k for k, v in I.models.items() if getattr(v, "__name__", "") == "_fromkeys"]:
        del I.models[k]
    from pandera.engines import pandas_engine

    def dtype_model(I, cls, x):
        if isinstance(x, Obj) and x.cls is not None and issubclass(x.cls, DataType):
            return x
        k = cur().choose([("dtype", None), ("TypeError", None)], "Engine.dtype")
        if k == 1:
            I.raise_py(TypeError, "data type not understood")
        return dtype_ref().fresh("resolved_dtype")

    engines = [pandas_engine.Engine]
    try:
        from pandera.engines import polars_engine

        engines.append(polars_engine.Engine)
    except Exception:  # pragma: no cover - polars missing
        pass
    for E in engines:
        f = E.__dict__.get("dtype")
        if f is not None:
            I.models[id(f.__func__ if hasattr(f, "__func__") else f)] = dtype_model


# --------------------------------------------------------------------------------------------------------
# reading attributes, value equality, sharing
# --------------------------------------------------------------------------------------------------------


def attr(o: Obj, name):
    """current value of attribute `name` of a heap object (materialising lazily typed fields of pre-existing
    objects, following lazy copies); MISSING when the object has no such attribute"""
    a = getattr(o, "alias_of", None)
    if a is not None:  # `o.__dict__ = a.__dict__`: o's attributes ARE a's
        return attr(a, name)
    if name in o.attrs:
        return o.attrs[name]
    if name in getattr(o, "deleted", ()):
        return MISSING
    if o.pre:
        return heap.materialise(o, name)
    return MISSING


def attr0(o: Obj, name):
    """value at entry of attribute `name` of a pre-existing object"""
    if name in o.attrs0:
        return o.attrs0[name]
    if name in o.attrs and name not in o.writes:
        return o.attrs[name]
    return heap.materialise(o, name)


def source_of(o: Obj):
    a = o.attrs
    return a.src if isinstance(a, LazyCopyAttrs) else None


def root_of(o: Obj):
    while source_of(o) is not None:
        o = source_of(o)
    return o


def untouched_copy_attr(x: Obj, y: Obj, n) -> bool:
    """True when x is a (copy of a ...) lazy deep copy of the pre-existing object y and neither x, nor any copy in
    between, nor y has materialised / written / deleted attribute n: by the deepcopy model x.n is then a deep copy of
    y.n at entry, hence equal to it - decided without materialising the attribute (no path fork)."""
    cur_o = x
    while cur_o is not y:
        a = cur_o.attrs
        if not isinstance(a, LazyCopyAttrs) or not a.deep or dict.__contains__(a, n) or n in a.local_deleted:
            return False
        cur_o = a.src
    return y.pre and n not in y.writes and n not in y.attrs and (n in y.field_types or not y.strict)


def attr_equal(x: Obj, y: Obj, n, at_entry=True):
    """x.n == y.n (y read at its entry value when at_entry)"""
    if untouched_copy_attr(x, y, n):
        return True
    a = attr(x, n)
    b = attr0(y, n) if (at_entry and y.pre) else attr(y, n)
    if a is MISSING or b is MISSING:
        return a is MISSING and b is MISSING
    return value_equal(a, b, None, at_entry)


def value_equal(x, y, names=None, at_entry=False, seen=None):
    """python `==` of two schema values as pandera defines it (attribute-wise on `__dict__`), as a bool / SBool.

    `names`: when both are heap objects, the attributes compared (default: every attribute either side has
    materialised or written, plus the declared fields).  `at_entry`: read `y` at its entry value."""
    seen = seen if seen is not None else set()
    if x is y and not at_entry:
        return True
    if isinstance(x, Obj) and isinstance(y, Obj):
        if x.cls is not y.cls:
            return False
        key = (id(x), id(y))
        if key in seen:
            return True
        seen.add(key)
        ns = names
        if ns is None:
            ns = set(k for k in dict.keys(x.attrs)) | set(k for k in dict.keys(y.attrs)) | set(x.field_types) | set(y.field_types) | set(x.writes) | set(y.writes)
            ns = sorted(n for n in ns if not n.startswith("__"))
            # attributes nobody touched: equal by construction only if x is a (copy of a copy of) y
            if root_of(x) is not root_of(y) and (root_of(x).pre or root_of(y).pre) and not (x.pre or y.pre):
                pass
        conj = []
        for n in ns:
            if untouched_copy_attr(x, y, n):
                continue
            a = attr(x, n)
            b = attr0(y, n) if (at_entry and y.pre) else attr(y, n)
            if a is MISSING or b is MISSING:
                if a is MISSING and b is MISSING:
                    continue
                return False
            conj.append(value_equal(a, b, None, at_entry, seen))
        return And(*conj) if conj else True
    if isinstance(x, Obj) or isinstance(y, Obj):
        return False
    if isinstance(x, ImmSeq) or isinstance(y, ImmSeq):
        if isinstance(x, ImmSeq) and isinstance(y, (list, ListObj)) and not isinstance(y, ImmSeq):
            return False
        return x == y if isinstance(x, ImmSeq) else y == x
    if isinstance(x, (list, tuple)) and isinstance(y, (list, tuple)):
        if len(x) != len(y):
            return False
        return And(*[value_equal(a, b, None, at_entry, seen) for a, b in zip(x, y)]) if len(x) else True
    if isinstance(x, dict) and isinstance(y, dict):
        if set(x.keys()) != set(y.keys()):
            return False
        return And(*[value_equal(x[k], y[k], None, at_entry, seen) for k in x]) if len(x) else True
    if x is None or y is None:
        return x is None and y is None
    r = py_eq(x, y)
    return r if isinstance(r, (bool, SBool)) else bool(r)


def same_order(d1, d2):
    return list(d1.keys()) == list(d2.keys())


def mutable_parts(v, acc=None, immutable_classes=()):
    """identities of the mutable objects reachable from v (objects, lists, dicts, check lists)"""
    acc = acc if acc is not None else {}
    if isinstance(v, Obj):
        if id(v) in acc or (v.cls is not None and issubclass(v.cls, tuple(immutable_classes))):
            return acc
        acc[id(v)] = v
        for k in list(dict.keys(v.attrs)):
            if not k.startswith("__"):
                mutable_parts(dict.__getitem__(v.attrs, k), acc, immutable_classes)
    elif isinstance(v, ImmSeq):
        acc[id(v)] = v
    elif isinstance(v, (list, ListObj)):
        acc[id(v)] = v
        for x in v:
            mutable_parts(x, acc, immutable_classes)
    elif isinstance(v, (dict, DictObj)):
        acc[id(v)] = v
        for x in v.values():
            mutable_parts(x, acc, immutable_classes)
    elif isinstance(v, tuple):
        for x in v:
            mutable_parts(x, acc, immutable_classes)
    return acc


def shared_mutable(result, receiver, immutable_classes=()):
    """names of mutable objects reachable from both `result` and `receiver` (materialised part of the heap)"""
    a = mutable_parts(result, None, immutable_classes)
    b = mutable_parts(receiver, None, immutable_classes)
    return sorted(getattr(a[i], "name", "?") for i in a if i in b)
