"""Contracts of pandera functions that are *used* modularly by other proofs (each is proved on its own body elsewhere).

config_context  -- proved in contracts/C18_config.py (ConfigContext): inside the body each non-None argument is in force,
                   on every exit the context configuration equals (by value) the one at entry.
"""
from __future__ import annotations

from .. import core
from .. import types as T
from ..core import cur
from ..heap import Obj

CFG = ("validation_enabled", "validation_depth", "cache_dataframe", "keep_cached_dataframe")


def _ctx_key():
    return ("pandera.config", "_CONTEXT_CONFIG")


def _field(o, f):
    from .. import heap

    return o.attrs[f] if f in o.attrs else heap.materialise(o, f)


class ConfigContextCM:
    __pyvc_symbolic__ = True

    def __init__(self, I, overrides):
        self.I, self.overrides = I, overrides
        self.saved = None

    def __enter__(self):
        from pandera import config as pc

        p = cur()
        clo_globals = pc.__dict__
        key = _ctx_key()
        if key not in p.globals_state:
            # materialise the symbolic context configuration
            from ..interp import Closure, LOADER

            self.I.lookup_global("_CONTEXT_CONFIG", LOADER.closure_of(pc.get_config_context))
        old = p.globals_state[key]
        self.saved = {f: _field(old, f) for f in CFG}
        new = Obj(old.cls, "context_config_in_body", pre=False)
        for f in CFG:
            v = self.overrides.get(f)
            new.attrs[f] = self.saved[f] if v is None else v
        p.globals_state[key] = new
        p.event("global_write", key)
        return None

    def __exit__(self, exc_type, exc, tb):
        p = cur()
        key = _ctx_key()
        restored = Obj(p.globals_state[key].cls, "context_config_restored", pre=False)
        for f in CFG:
            restored.attrs[f] = self.saved[f]
        p.globals_state[key] = restored
        p.event("global_write", key)
        return False


def install(I):
    from pandera import config as pc

    def config_context(I, validation_enabled=None, validation_depth=None, cache_dataframe=None, keep_cached_dataframe=None):
        return ConfigContextCM(I, dict(validation_enabled=validation_enabled, validation_depth=validation_depth,
                                       cache_dataframe=cache_dataframe, keep_cached_dataframe=keep_cached_dataframe))

    I.models[id(pc.config_context)] = config_context
