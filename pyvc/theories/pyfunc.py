"""Theory of *user functions* and of the `inspect` / `functools.wraps` operations on them (C17).

A user function under a decorator is a REAL python function object built from a concrete signature
shape (`make_fn`): so `inspect.signature`, `inspect.getfullargspec`, `inspect.ismethod`,
`inspect.iscoroutinefunction`, `typing.get_type_hints`, `hasattr(fn, "__wrapped__")`, `fn.__name__`
are the real library operations, run natively on a concrete object (nothing about them is modelled).
What is symbolic is the function's *behaviour*:

  S-callback (assumed): calling the function binds the actual arguments exactly like python does
  (`inspect.signature(fn).bind`, run natively - TypeError when they do not bind), records the call,
  and then either returns a fresh arbitrary value or raises an arbitrary exception (OtherException).
  The function does not write pandera state or its arguments.

Assumed contracts on dependencies stated here:
  * `inspect.Signature.bind / bind_partial` are run natively with symbolic *leaf* values: binding is
    parametric in the argument values (it only places them), so the native run is the exact semantics.
  * `functools.wraps(f)(g)` sets `g.__wrapped__ = f`, `g.__name__ = f.__name__` (the two attributes the
    decorators read) and returns g.
  * an `async def` body is executed as straight-line code: `await e` evaluates `e`; calling an async user
    function yields its awaited result directly (no scheduling; DESIGN C17).
"""
from __future__ import annotations

import functools
import inspect

from ..core import PyExc, SAny, SBool, cur
from ..interp import OtherException

DEFAULT = type("DefaultValue", (), {"__repr__": lambda s: "<default>"})()


def make_fn(name, params, is_async=False, annotations=None, ns=None):
    """real function `def name(params...)` whose body is never run (calls are modelled)"""
    src = f"{'async ' if is_async else ''}def {name}({', '.join(params)}):\n    raise RuntimeError('symbolic user function: body is modelled')\n"
    env = {"_D": DEFAULT}
    env.update(ns or {})
    exec(src, env)  # noqa: S102 - builds the signature object of the symbolic user function
    fn = env[name]
    fn.__module__ = "user_code"
    fn.__qualname__ = name
    if annotations:
        fn.__annotations__ = dict(annotations)
    return fn


class CallRec:
    """one call of a user function"""

    def __init__(self, fn, args, kwargs, bound):
        self.fn, self.args, self.kwargs, self.bound = fn, tuple(args), dict(kwargs), bound
        self.ret = None
        self.raised = None

    def __repr__(self):
        return f"<call {self.fn.__name__} {self.bound}>"


def fn_calls(fn=None):
    calls = cur().ghost.get("fn_calls", [])
    return [c for c in calls if fn is None or c.fn is fn]


def install_fn(I, fn, result=None, raises=True):
    """register the S-callback model for the real function object `fn`"""
    sig = inspect.signature(fn)

    def model(I, *args, **kwargs):
        p = cur()
        calls = p.ghost.setdefault("fn_calls", [])
        idx = len(calls)
        try:
            ba = sig.bind(*args, **kwargs)
        except TypeError as e:  # python's own binding error: the body does not run
            exc = I.make_exc(TypeError, *e.args)
            exc.attrs["__binding_error__"] = fn.__name__
            raise PyExc(exc)
        rec = CallRec(fn, args, kwargs, dict(ba.arguments))
        calls.append(rec)
        p.event("user_fn_call", fn.__name__, idx)
        if raises:
            k = p.choose([("ret", None), ("raise", None)], f"{fn.__name__}#{idx}")
            if k == 1:
                exc = I.make_exc(OtherException)
                exc.attrs["__from_fn__"] = (fn.__name__, idx)
                rec.raised = exc
                raise PyExc(exc)
        rec.ret = result(f"{fn.__name__}#{idx}.ret") if result is not None else SAny(name=f"{fn.__name__}#{idx}.ret")
        return rec.ret

    I.models[id(fn)] = model
    # models are keyed by id(): the function object must outlive the Interp, otherwise its id is recycled by an unrelated
    # transient callable (a bound method created during a later path) which would then be given THIS model
    I.__dict__.setdefault("_keepalive", []).append(fn)
    return model


class WrapsApply:
    """functools.wraps(f): the decorator that copies the identity attributes of f onto the wrapper"""

    __pyvc_model__ = True

    def __init__(self, wrapped):
        self.wrapped = wrapped

    def __call__(self, wrapper):
        wrapper.__wrapped__ = self.wrapped
        wrapper.__name__ = getattr(self.wrapped, "__name__", getattr(wrapper, "__name__", "wrapper"))
        return wrapper


def _native(meth):
    def m(I, self_, *args, **kwargs):
        try:
            return meth(self_, *args, **kwargs)
        except TypeError as e:
            raise PyExc(I.make_exc(TypeError, *e.args))

    return m


def install(I):
    """inspect binding (native, parametric in the values) and functools.wraps"""
    # stdlib_models registers its dict.fromkeys model under id(dict.fromkeys): a TRANSIENT builtin-method object, whose id is
    # recycled by the bound methods this theory creates in large numbers (sig.bind_partial, kwargs.keys, ...).  The C17 targets
    # never call dict.fromkeys: drop the entry instead of letting a recycled id dispatch to it.
    for k, m in list(I.models.items()):
        if getattr(m, "__name__", "") == "_fromkeys":
            del I.models[k]
    I.models[id(inspect.Signature.bind)] = _native(inspect.Signature.bind)
    I.models[id(inspect.Signature.bind_partial)] = _native(inspect.Signature.bind_partial)
    I.models[id(functools.wraps)] = lambda I, f, *a, **kw: WrapsApply(f)

    import builtins

    def _issubclass(I, a, b):  # as the stdlib model, but python's TypeError (arg 1 not a class) is the program's exception
        try:
            return issubclass(a, b)
        except TypeError as e:
            raise PyExc(I.make_exc(TypeError, *e.args))

    I.models[id(builtins.issubclass)] = _issubclass
