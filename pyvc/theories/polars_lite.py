"""polars-lite: assumed contracts (axioms) on the polars operations used by pandera's polars back end.

Expressions are kept as python closures `ev(frame) -> Column` where a Column is `(at(i) -> Sym, null(i) -> z3 Bool)`;
the denotation follows polars' **Kleene** semantics:
  * comparisons / arithmetic / string predicates / is_in propagate null (null in -> null out)
  * `a & b`: false if either is false, else null if either is null, else true;  `|` dually; `~` propagates null
  * `is_null()` / `is_not_null()` never null;  `fill_null(v)`
  * `Expr.all()` / `any()` IGNORE nulls (polars default ignore_nulls=True)
  * `filter(mask)` keeps rows whose mask is true (null and false dropped)
Frames are views `(space, sel(i))` like pandas-lite, plus an ordered dict of named columns and the container KIND tag
('DataFrame' | 'LazyFrame') which `.lazy()` / `.collect()` switch (C04).  `unique()` de-duplicates by ROW VALUES
(keeps one of several rows that agree on every column), `head/tail` by position, `pl.concat(how='vertical')` of views
of one frame is a row bag, `how='horizontal'` glues columns of equally selected frames.
"""
from __future__ import annotations

import z3

from .. import core
from ..core import (And, Iff, Implies, Not, Or, PyExc, SAny, SBool, SNum, SStr, Sym,
                    Unsupported, cur, ite, py_eq)
from .pandas_lite import RowSpace, _always, _i, _term, _wrap, _zb, rx, SymSet
from ..interp import OtherException
from . import pandas_lite as PL

CHECK_OUTPUT_KEY = "check_output"


class Col:
    """one column of values: at(i) -> Sym, null(i) -> z3 Bool"""

    def __init__(self, at, null, kind="real", nan=None):
        self.at, self.null, self.kind = at, null, kind
        # floating point NaN: a VALUE (not null) that polars' is_nan() finds; only columns created with a nan predicate can hold one
        self.nan = nan or (lambda i: z3.BoolVal(False))


def _lit_col(v):
    return Col(lambda i: v, lambda i: z3.BoolVal(v is None), "lit")


class Expr:
    __pyvc_symbolic__ = True

    def __init__(self, ev, name=None, is_all=False, multi=None):
        self.ev = ev  # frame -> Col
        self.name = name  # output column name
        self.multi = multi  # selector over several columns (pl.col('*'), pl.col(pl.Boolean))

    # ---- helpers
    def _bin(self, other, f, kind="bool", nan=None):
        """binary operator; `nan(a_is_nan, b_is_nan, plain)` is the result where an operand may be the float NaN.  polars orders floats
        totally: NaN equals NaN and is greater than every other value (unlike IEEE / numpy, where every comparison with NaN is false)"""
        oe = other if isinstance(other, Expr) else None

        def ev(fr):
            a = self.ev(fr)
            b = oe.ev(fr) if oe is not None else _lit_col(other)

            def at(i):
                plain = f(a.at(i), b.at(i))
                if nan is None:
                    return plain
                an, bn = a.nan(i), b.nan(i)
                if z3.is_false(an) and z3.is_false(bn):
                    return plain
                return SBool(nan(an, bn, _zb(plain)))

            return Col(at, lambda i: z3.Or(a.null(i), b.null(i)), kind)

        return Expr(ev, self.name)

    def eq(self, o):
        return self._bin(o, lambda a, b: _b(py_eq(a, b)), nan=lambda an, bn, p: z3.If(z3.Or(an, bn), z3.And(an, bn), p))

    def ne(self, o):
        return self._bin(o, lambda a, b: _b(Not(py_eq(a, b))), nan=lambda an, bn, p: z3.If(z3.Or(an, bn), z3.Not(z3.And(an, bn)), p))

    def gt(self, o):
        return self._bin(o, lambda a, b: a > b, nan=lambda an, bn, p: z3.If(an, z3.Not(bn), z3.If(bn, False, p)))

    def ge(self, o):
        return self._bin(o, lambda a, b: a >= b, nan=lambda an, bn, p: z3.If(an, True, z3.If(bn, False, p)))

    def lt(self, o):
        return self._bin(o, lambda a, b: a < b, nan=lambda an, bn, p: z3.If(bn, z3.Not(an), z3.If(an, False, p)))

    def le(self, o):
        return self._bin(o, lambda a, b: a <= b, nan=lambda an, bn, p: z3.If(bn, True, z3.If(an, False, p)))

    __eq__ = eq  # type: ignore
    __ne__ = ne  # type: ignore
    __gt__ = gt
    __ge__ = ge
    __lt__ = lt
    __le__ = le
    __hash__ = object.__hash__

    def is_between(self, lo, hi, closed="both"):
        # polars: closed in {"both", "left", "right", "none"} names the side(s) of the interval that are included
        if closed not in ("both", "left", "right", "none"):
            raise Unsupported(f"is_between(closed={closed!r})")
        lo_ok = self.ge(lo) if closed in ("both", "left") else self.gt(lo)
        hi_ok = self.le(hi) if closed in ("both", "right") else self.lt(hi)
        return lo_ok.and_(hi_ok)

    def is_in(self, values):
        if isinstance(values, SymSet):
            mem = values.member
        else:
            vs = list(values)
            mem = lambda v: Or(*[py_eq(v, x) for x in vs]) if vs else False

        def ev(fr):
            a = self.ev(fr)
            # (NaN is a member only of a collection that holds NaN; the collections of the contracts hold none)
            return Col(lambda i: _b(mem(a.at(i))) if z3.is_false(a.nan(i)) else SBool(z3.And(z3.Not(a.nan(i)), _zb(_b(mem(a.at(i)))))), a.null, "bool")

        return Expr(ev, self.name)

    def not_(self):
        def ev(fr):
            a = self.ev(fr)
            return Col(lambda i: _b(Not(a.at(i))), a.null, "bool")

        return Expr(ev, self.name)

    __invert__ = not_

    def and_(self, *others):
        r = self
        for o in others:
            r = _kleene(r, o, True)
        return r

    def or_(self, *others):
        r = self
        for o in others:
            r = _kleene(r, o, False)
        return r

    def __and__(self, o):
        return _kleene(self, o, True)

    __rand__ = __and__

    def __or__(self, o):
        return _kleene(self, o, False)

    __ror__ = __or__

    def is_null(self):
        def ev(fr):
            a = self.ev(fr)
            return Col(lambda i: SBool(a.null(i)), lambda i: z3.BoolVal(False), "bool")

        return Expr(ev, self.name)

    def is_not_null(self):
        return self.is_null().not_()

    def is_not_nan(self):
        def ev(fr):
            a = self.ev(fr)
            return Col(lambda i: SBool(z3.Not(a.nan(i))), a.null, "bool")

        return Expr(ev, self.name)

    def is_nan(self):
        return self.is_not_nan().not_()

    def is_duplicated(self):
        """true on every row whose value occurs on another selected row as well (nulls compare equal to nulls)"""

        def ev(fr):
            a = self.ev(fr)

            def at(i):
                j = _i("j")
                same = z3.Or(z3.And(a.null(i), a.null(j)), z3.And(z3.Not(a.null(i)), z3.Not(a.null(j)), _zb(py_eq(a.at(i), a.at(j)))))
                return SBool(z3.Exists([j], z3.And(fr.sel(j), j != i, same)))

            return Col(at, lambda i: z3.BoolVal(False), "bool")

        return Expr(ev, self.name)

    def fill_null(self, v):
        """null -> v (a value or an expression, e.g. pl.lit); NaN is a value and stays"""

        def ev(fr):
            a = self.ev(fr)
            w = v.ev(fr) if isinstance(v, Expr) else _lit_col(v)
            return Col(lambda i: ite(SBool(a.null(i)), w.at(i), a.at(i)), lambda i: z3.And(a.null(i), w.null(i)), a.kind,
                       nan=lambda i: z3.If(a.null(i), w.nan(i), a.nan(i)))

        return Expr(ev, self.name, multi=self.multi)

    def fill_nan(self, v):
        """NaN -> v; nulls stay null"""

        def ev(fr):
            a = self.ev(fr)
            w = v.ev(fr) if isinstance(v, Expr) else _lit_col(v)
            return Col(lambda i: ite(SBool(a.nan(i)), w.at(i), a.at(i)), lambda i: z3.Or(a.null(i), z3.And(a.nan(i), w.null(i))), a.kind,
                       nan=lambda i: z3.And(a.nan(i), w.nan(i)))

        return Expr(ev, self.name, multi=self.multi)

    def alias(self, name):
        e = Expr(self.ev, name, multi=self.multi)
        e.is_lit = getattr(self, "is_lit", False)
        return e

    def all(self, ignore_nulls=True):
        def ev(fr):
            a = self.ev(fr)
            i = _i()
            v = SBool(z3.ForAll([i], z3.Implies(z3.And(fr.sel(i), z3.Not(a.null(i))), _zb(a.at(i)))))
            return Col(lambda j: v, lambda j: z3.BoolVal(False), "agg")

        e = Expr(ev, self.name)
        e.aggregate = True
        return e

    def any(self, ignore_nulls=True):
        def ev(fr):
            a = self.ev(fr)
            i = _i()
            v = SBool(z3.Exists([i], z3.And(fr.sel(i), z3.Not(a.null(i)), _zb(a.at(i)))))
            return Col(lambda j: v, lambda j: z3.BoolVal(False), "agg")

        e = Expr(ev, self.name)
        e.aggregate = True
        return e

    @property
    def str(self):
        return _StrNS(self)

    def cast(self, dtype, strict=True, **kw):
        """Expr.cast(dtype, strict=False): element-wise, a null stays null, a value the cast cannot convert becomes null.  Which VALUES
        are convertible is an uninterpreted predicate `castable` of the value (one per path: cur().ghost["castable"]).  A cast polars
        has no kernel for fails the whole query when it is collected (InvalidOperationError / ComputeError) - also with strict=False:
        the frame that evaluates the expression is marked `may_fail_when_collected`."""
        if strict:
            raise Unsupported("strict Expr.cast")
        castable = cur().ghost.get("castable")
        if castable is None:
            castable = cur().ghost["castable"] = z3.Function(cur().fresh_name("castable"), z3.RealSort(), z3.BoolSort())

        def ev(fr):
            c = self.ev(fr)
            cur().ghost["polars_cast_evaluated"] = True
            cur().ghost.setdefault("polars_casts", []).append({"source": c, "dtype": dtype, "strict": strict})
            return Col(c.at, lambda i: z3.Or(c.null(i), z3.Not(castable(_term(c.at(i))))), c.kind)

        e = Expr(ev, self.name, multi=self.multi)
        e.is_lit = getattr(self, "is_lit", False)
        return e

    def map_elements(self, fn, return_dtype=None, **kw):
        I = cur().ghost["interp"]
        memo = {}

        def ev(fr):
            a = self.ev(fr)

            def at(i):
                k = i.get_id()
                if k not in memo:
                    memo[k] = I.call(fn, [a.at(i)])
                return memo[k]

            # polars skips nulls in map_elements (skip_nulls=True): null in -> null out
            return Col(at, a.null, "bool")

        return Expr(ev, self.name, multi=self.multi)


def _b(x):
    return x if isinstance(x, SBool) else SBool(z3.BoolVal(bool(x))) if isinstance(x, bool) else x


def _kleene(a, b, is_and):
    be = b if isinstance(b, Expr) else None

    def ev(fr):
        x = a.ev(fr)
        y = be.ev(fr) if be is not None else _lit_col(b)

        def at(i):
            xv, yv = _zb(x.at(i)), _zb(y.at(i))
            return SBool(z3.And(xv, yv) if is_and else z3.Or(xv, yv))

        def null(i):
            xv, yv, xn, yn = _zb(x.at(i)), _zb(y.at(i)), x.null(i), y.null(i)
            if is_and:  # definite false dominates
                definite = z3.Or(z3.And(z3.Not(xn), z3.Not(xv)), z3.And(z3.Not(yn), z3.Not(yv)))
            else:  # definite true dominates
                definite = z3.Or(z3.And(z3.Not(xn), xv), z3.And(z3.Not(yn), yv))
            return z3.And(z3.Or(xn, yn), z3.Not(definite))

        def at_k(i):
            # value where not null: computed on the non-null operands (a null operand is neutral)
            xv, yv, xn, yn = _zb(x.at(i)), _zb(y.at(i)), x.null(i), y.null(i)
            if is_and:
                return SBool(z3.And(z3.Or(xn, xv), z3.Or(yn, yv)))
            return SBool(z3.Or(z3.And(z3.Not(xn), xv), z3.And(z3.Not(yn), yv)))

        return Col(at_k, null, "bool")

    return Expr(ev, a.name)


class _StrNS:
    def __init__(self, e):
        self.e = e

    def _pt(self, f, kind="bool"):
        e = self.e

        def ev(fr):
            a = e.ev(fr)
            return Col(lambda i: f(a.at(i)), a.null, kind)

        return Expr(ev, e.name)

    def contains(self, pattern, literal=False, **kw):
        if literal:
            return self._pt(lambda v: SBool(z3.Contains(_term(v), _term(pattern))))
        if isinstance(pattern, PL.RxPattern):
            # polars takes pattern TEXT: a compiled python pattern is not one ("argument 'pattern': 'Pattern' object cannot be converted")
            cur().ghost["interp"].raise_py(TypeError, "polars str.contains: pattern must be text")
        inner = _anchored_group(pattern)
        if inner is not None:
            # regex axiom: searching "^(?:" + p + ")" is matching p at the start of the string (re.match).
            # There is deliberately NO such axiom for "^" + p (false for a top-level alternation).
            flags, inner = _inline_flags(inner)
            return self._pt(lambda v: rx("match", inner, v, flags))
        # regex axiom: a leading inline group "(?ims)" + p is p compiled with those flags (re and the rust regex crate agree)
        flags, rest = _inline_flags(pattern)
        return self._pt(lambda v: rx("search", rest, v, flags))

    def starts_with(self, p):
        return self._pt(lambda v: SBool(z3.PrefixOf(_term(p), _term(v))))

    def ends_with(self, p):
        return self._pt(lambda v: SBool(z3.SuffixOf(_term(p), _term(v))))

    def len_chars(self):
        return self._pt(lambda v: SNum(z3.Length(_term(v))), "int")

    def len_bytes(self):
        # bytes != characters for non-ASCII strings: an unrelated non-negative integer
        return self._pt(lambda v: SNum(z3.Function("utf8_len", z3.StringSort(), z3.IntSort())(_term(v))), "int")


def _flatten_concat(t):
    if z3.is_app(t) and t.decl().kind() == z3.Z3_OP_SEQ_CONCAT:
        out = []
        for c in t.children():
            out.extend(_flatten_concat(c))
        return out
    return [t]


def _pieces(pattern):
    """a pattern text as a list of concrete str / z3 string terms (f-strings and concatenations flattened, adjacent text merged)"""
    from ..values import Fmt

    out = []

    def add(x):
        if isinstance(x, Fmt):
            for q in x.parts:
                add(q)
        elif isinstance(x, str):
            if x:
                out.append(out.pop() + x if out and isinstance(out[-1], str) else x)
        elif isinstance(x, SStr):
            for t in _flatten_concat(x.z):
                add(t.as_string()) if z3.is_string_value(t) else out.append(t)
        else:
            raise Unsupported(f"pattern piece {type(x).__name__}")

    add(pattern)
    return out


def _join(pieces):
    if all(isinstance(q, str) for q in pieces):
        return "".join(pieces)
    ts = [z3.StringVal(q) if isinstance(q, str) else q for q in pieces]
    return SStr(ts[0] if len(ts) == 1 else z3.Concat(*ts))


def _inline_flags(pattern):
    """pattern == "(?" ++ letters ++ ")" ++ p with letters from imsx  ->  (letters, p), else ("", pattern)"""
    import re as _re

    try:
        ps = _pieces(pattern)
    except Unsupported:
        return "", pattern
    if ps and isinstance(ps[0], str):
        m = _re.match(r"\(\?([imsx]+)\)", ps[0])
        if m and (len(ps) > 1 or m.end() <= len(ps[0])):
            rest = [ps[0][m.end():]] + ps[1:] if ps[0][m.end():] else ps[1:]
            return m.group(1), (_join(rest) if rest else "")
    return "", pattern


def _anchored_group(pattern):
    """pattern == "^(?:" ++ p ++ ")"  ->  p (as SStr), else None"""
    from ..values import Fmt as _Fmt

    if isinstance(pattern, _Fmt):
        try:
            ps = _pieces(pattern)
        except Unsupported:
            return None
        if len(ps) >= 2 and isinstance(ps[0], str) and ps[0].startswith("^(?:") and isinstance(ps[-1], str) and ps[-1].endswith(")"):
            mid = ([ps[0][4:]] if ps[0][4:] else []) + ps[1:-1] + ([ps[-1][:-1]] if ps[-1][:-1] else [])
            return _join(mid) if mid else ""
        return None
    if isinstance(pattern, str):
        if pattern.startswith("^(?:") and pattern.endswith(")"):
            return pattern[4:-1]
        return None
    from ..values import Fmt

    if isinstance(pattern, Fmt):
        ps = pattern.parts
        if len(ps) == 3 and ps[0] == "^(?:" and ps[2] == ")" and isinstance(ps[1], (str, SStr)):
            return ps[1]
        return None
    if not isinstance(pattern, SStr):
        return None
    parts = _flatten_concat(pattern.z)
    if len(parts) >= 3 and z3.is_string_value(parts[0]) and parts[0].as_string() == "^(?:" and z3.is_string_value(parts[-1]) and parts[-1].as_string() == ")":
        mid = parts[1:-1]
        return SStr(mid[0] if len(mid) == 1 else z3.Concat(*mid))
    return None


class FrameP:
    """polars DataFrame / LazyFrame view"""

    __pyvc_symbolic__ = True
    import ast as _ast

    # polars.LazyFrame / DataFrame define neither & nor | (frames are combined through expressions): python raises TypeError
    __pyvc_undefined_binops__ = (_ast.BitAnd, _ast.BitOr)
    rows_in_data_order = True  # (see sort)

    def __init__(self, space, cols, sel=None, kind="LazyFrame", name="lf", agg=False):
        self.space = space
        self.cols = cols  # ordered dict name -> Col
        self._sel = sel or _always
        self.kind = kind
        self.name = name
        self.agg = agg  # a 1-row aggregate frame
        self.pre = False
        self.mutations = []
        self.may_fail_when_collected = False  # the query contains a cast polars may have no kernel for

    @classmethod
    def fresh(cls, name, columns=("a",), kinds=None, kind="LazyFrame", pre=True, nan_columns=None):
        n = core.sym_int(f"len({name})")
        cur().assume(n >= 0)
        core.register_model_var(f"len({name})", n.z)
        space = RowSpace(name, n)
        cols = {}
        for c in columns:
            k = (kinds or {}).get(c, "real")
            sort = {"real": z3.RealSort(), "int": z3.IntSort(), "bool": z3.BoolSort(), "str": z3.StringSort()}[k]
            vf = z3.Function(cur().fresh_name(f"{name}_{c}_val"), z3.IntSort(), sort)
            nf = z3.Function(cur().fresh_name(f"{name}_{c}_null"), z3.IntSort(), z3.BoolSort())
            nanf = None
            if k == "real" and (nan_columns or ()) and c in nan_columns:
                nanp = z3.Function(cur().fresh_name(f"{name}_{c}_nan"), z3.IntSort(), z3.BoolSort())
                nanf = lambda i, nanp=nanp, nf=nf: z3.And(nanp(i), z3.Not(nf(i)))  # noqa: E731  (a NaN is a value, never a null)
            cols[c] = Col(lambda i, vf=vf: _wrap(vf(i)), lambda i, nf=nf: nf(i), k, nan=nanf)

            def proj(m, vf=vf, nf=nf, space=space):
                try:
                    nn = m.eval(space.n.z, model_completion=True).as_long()
                except Exception:
                    return "?"
                return [None if z3.is_true(m.eval(nf(z3.IntVal(j)), model_completion=True)) else str(m.eval(vf(z3.IntVal(j)), model_completion=True))
                        for j in range(min(nn, 6))]

            core.register_model_var(f"{name}[{c}]", proj)
        f = cls(space, cols, kind=kind, name=name)
        f.pre = pre
        cur().ghost.setdefault("data_objects", []).append(f)
        return f

    def pyvc_class(self):
        import polars as pl

        return pl.LazyFrame if self.kind == "LazyFrame" else pl.DataFrame

    def sel(self, i):
        return z3.And(self.space.inb(i), self._sel(i))

    def derive(self, cols=None, sel=None, kind=None, agg=None):
        f = FrameP(self.space, dict(cols if cols is not None else self.cols), sel or self._sel, kind or self.kind, self.name,
                   self.agg if agg is None else agg)
        if getattr(self, "may_fail_when_collected", False):
            f.may_fail_when_collected = True
        # the rows of a projection / filter / collect come in the order of the frame they are taken from
        f.rows_in_data_order = getattr(self, "rows_in_data_order", True)
        return f

    def sort(self, by=None, *more, **kw):
        """the same rows in another ORDER: positional pairing with the data (the i-th failure case with the i-th false entry of a row
        mask, as failure_cases_metadata does) is no longer meaningful"""
        f = self.derive()
        f.rows_in_data_order = False
        return f

    # ---- polars API
    def lazy(self):
        return self.derive(kind="LazyFrame")

    def collect(self, **kw):
        if getattr(self, "may_fail_when_collected", False) and self.kind == "LazyFrame":
            import polars as pl

            k = cur().choose([("collects", None), ("InvalidOperationError", None), ("ComputeError", None)], "collect(query with a cast)")
            if k:
                I = cur().ghost["interp"]
                raise PyExc(I.make_exc([pl.exceptions.InvalidOperationError, pl.exceptions.ComputeError][k - 1], "cast failed"))
        return self.derive(kind="DataFrame")

    def clone(self):
        return self.derive()

    def _eval(self, e):
        if isinstance(e, str):
            e = col(e)
        if not isinstance(e, Expr):
            raise Unsupported(f"frame op with {type(e).__name__}")
        if e.multi is not None:
            return [(n, Expr(lambda fr, n=n: fr.cols[n], n)) for n in e.multi(self)], e
        return [(e.name, e)], e

    def select(self, *exprs, **named):
        out = {}
        agg = False
        flat = []
        for e in exprs:
            if isinstance(e, (list, tuple)):
                flat.extend(e)
            else:
                flat.append(e)
        flat = [col(e) if isinstance(e, str) else e for e in flat]
        for e in flat:
            if isinstance(e, Expr) and e.multi is not None and getattr(e, "fold", None) is not None:
                out[e.name] = e.fold(self)
                continue
            if isinstance(e, Expr) and e.multi is not None:
                for n in e.multi(self):
                    sub = e.per_column(n) if hasattr(e, "per_column") else Expr(lambda fr, n=n: fr.cols[n], n)
                    out[n] = sub.ev(self)
                    agg = agg or getattr(sub, "aggregate", False)
                continue
            ee = col(e) if isinstance(e, str) else e
            out[ee.name] = ee.ev(self)
            agg = agg or getattr(ee, "aggregate", False)
        for k, e in named.items():
            if getattr(e, "fold", None) is not None:
                out[k] = e.fold(self)
                continue
            out[k] = e.ev(self)
            agg = agg or getattr(e, "aggregate", False)
        every = [e for e in flat if isinstance(e, Expr)] + [e for e in named.values() if isinstance(e, Expr)]
        if every and len(every) == len(flat) + len(named) and all(getattr(e, "is_lit", False) for e in every) and not self.agg:
            # only literals selected: polars does not broadcast them to the frame's height - the result has exactly one row
            one = FrameP(RowSpace("literal_row", SNum(z3.IntVal(1))), out, None, self.kind, self.name, True)
            return one
        r = self.derive(cols=out, agg=agg or self.agg)  # (a projection of a 1-row aggregate frame is a 1-row frame)
        return self._mark_cast(r)

    def _mark_cast(self, r):
        if cur().ghost.pop("polars_cast_evaluated", False) or getattr(self, "may_fail_when_collected", False):
            r.may_fail_when_collected = True
        return r

    def with_columns(self, *exprs, **named):
        out = dict(self.cols)
        for e in exprs:
            if isinstance(e, Expr) and e.multi is not None:
                for n in e.multi(self):
                    sub = e.per_column(n)
                    out[n] = sub.ev(self)
                continue
            out[e.name] = e.ev(self)
        for k, e in named.items():
            out[k] = e.ev(self) if isinstance(e, Expr) else e
        return self._mark_cast(self.derive(cols=out))

    def drop(self, *names, strict=True, **kw):
        flat = []
        for n in names:
            flat.extend(n) if isinstance(n, (list, tuple)) else flat.append(n)
        if strict and any(n not in self.cols for n in flat):
            raise PyExc(cur().ghost["interp"].make_exc(OtherException, "ColumnNotFoundError"))
        return self.derive(cols={k: v for k, v in self.cols.items() if k not in flat})

    def cast(self, dtypes, strict=True, **kw):
        """LazyFrame.cast(dtype | {column: dtype}, strict=False): as Expr.cast on every (named) column - a value that cannot be cast
        becomes null, nulls stay null (the same uninterpreted `castable` predicate of the path)"""
        if strict:
            raise Unsupported("strict LazyFrame.cast")
        castable = cur().ghost.get("castable")
        if castable is None:
            castable = cur().ghost["castable"] = z3.Function(cur().fresh_name("castable"), z3.RealSort(), z3.BoolSort())
        keys = list(dtypes) if isinstance(dtypes, dict) else list(self.cols)
        cols = dict(self.cols)
        for k in keys:
            if k not in self.cols:
                raise PyExc(cur().ghost["interp"].make_exc(OtherException, f"ColumnNotFoundError: {k}"))
            c = self.cols[k]
            cols[k] = Col(c.at, (lambda c: lambda i: z3.Or(c.null(i), z3.Not(castable(_term(c.at(i))))))(c), c.kind)
        r = self.derive(cols=cols)
        r.may_fail_when_collected = True  # (a cast polars has no kernel for fails the query when it is collected)
        return r

    def filter(self, mask):
        if isinstance(mask, Expr):
            c = mask.ev(self)
        elif isinstance(mask, SeriesP):
            c = mask.col
        else:
            raise Unsupported("filter with non-expression")
        return self.derive(sel=lambda i: z3.And(self._sel(i), z3.Not(c.null(i)), _zb(c.at(i))))

    def rename(self, mapping):
        out = {}
        for k, v in self.cols.items():
            out[mapping.get(k, k) if isinstance(mapping, dict) else k] = v
        return self.derive(cols=out)

    def head(self, n=5):
        return self.derive(sel=lambda i: z3.And(self._sel(i), i < _term(n)))

    def tail(self, n=5):
        return self.derive(sel=lambda i: z3.And(self._sel(i), i >= self.space.n.z - _term(n)))

    def unique(self, **kw):
        """keeps one representative of every class of rows that agree on all columns (which one: unspecified)"""
        rep = z3.Function(cur().fresh_name("unique_rep"), z3.IntSort(), z3.BoolSort())
        i, j = _i("i"), _i("j")
        same = lambda a, b: z3.And(*[z3.Or(z3.And(c.null(a), c.null(b)), z3.And(z3.Not(c.null(a)), z3.Not(c.null(b)), _zb(py_eq(c.at(a), c.at(b)))))
                                     for c in self.cols.values()]) if self.cols else z3.BoolVal(True)
        # every selected row has a selected representative with equal values; representatives are pairwise different rows-values
        cur().assume(z3.ForAll([i], z3.Implies(self.sel(i), z3.Exists([j], z3.And(self.sel(j), rep(j), same(i, j))))))
        cur().assume(z3.ForAll([i, j], z3.Implies(z3.And(self.sel(i), self.sel(j), rep(i), rep(j), i != j), z3.Not(same(i, j)))))
        return self.derive(sel=lambda k: z3.And(self._sel(k), rep(k)))

    def is_duplicated(self):
        """DataFrame.is_duplicated(): a boolean Series, true on every row that agrees with another row on ALL columns of the frame"""
        cols = list(self.cols.values())
        if not cols:
            # polars: ComputeError("at least one key is required in a group_by operation")
            I = cur().ghost["interp"]
            from ..interp import OtherException

            raise PyExc(I.make_exc(OtherException))

        def at(i):
            j = _i("j")
            same = [z3.Or(z3.And(c.null(i), c.null(j)), z3.And(z3.Not(c.null(i)), z3.Not(c.null(j)), _zb(py_eq(c.at(i), c.at(j))))) for c in cols]
            return SBool(z3.Exists([j], z3.And(self.sel(j), j != i, *same)))

        return SeriesP(self, Col(at, lambda i: z3.BoolVal(False), "bool"), "is_duplicated")

    def collect_schema(self):
        return _SchemaP(self)

    @property
    def schema(self):
        return _SchemaP(self)

    @property
    def columns(self):
        return list(self.cols)

    def item(self):
        if not self.agg or len(self.cols) != 1:
            raise Unsupported("item() of a non-aggregate frame")
        c = next(iter(self.cols.values()))
        return c.at(z3.IntVal(0))

    def pyvc_getitem(self, I, k):
        if isinstance(k, str):
            if k not in self.cols:
                I.raise_py(KeyError, k)
            return SeriesP(self, self.cols[k], k)
        raise Unsupported("frame[...]")

    def get_column(self, k):
        return SeriesP(self, self.cols[k], k)

    def sample(self, *a, **kw):
        if self.kind == "LazyFrame":
            I = cur().ghost["interp"]
            I.raise_py(AttributeError, "'LazyFrame' object has no attribute 'sample'")
        store = cur().ghost.setdefault("pick_fns", {})
        key = ("picked", self.space.name)
        if key not in store:
            store[key] = z3.Function(cur().fresh_name("picked"), z3.IntSort(), z3.IntSort(), z3.IntSort(), z3.BoolSort())
        picked = store[key]
        n = a[0] if a else kw.get("n")
        rs = kw.get("seed", kw.get("random_state"))
        rsz = _term(rs) if rs is not None else z3.IntVal(-1)
        return self.derive(sel=lambda i: z3.And(self._sel(i), picked(rsz, _term(n), i)))

    def pyvc_len(self):
        from .pandas_lite import view_len

        return view_len(self)

    def __getattr__(self, name):
        if name.startswith("__"):
            raise AttributeError(name)
        if name == "sample" and self.kind == "LazyFrame":
            raise AttributeError(name)
        raise Unsupported(f"polars frame .{name}")


class SeriesP:
    __pyvc_symbolic__ = True

    def __init__(self, frame, col_, name):
        self.frame, self.col, self.name = frame, col_, name

    def any(self, ignore_nulls=True):
        fr, c = self.frame, self.col
        return SBool(_exists(fr, lambda i: z3.And(z3.Not(c.null(i)), _zb(c.at(i)))))

    def not_(self):
        c = self.col
        return SeriesP(self.frame, Col(lambda i: _b(Not(c.at(i))), c.null, "bool"), self.name)

    __invert__ = not_

    def alias(self, name):
        return SeriesP(self.frame, self.col, name)

    def to_frame(self, name=None):
        return self.frame.derive(cols={name or self.name: self.col}, kind="DataFrame")

    def all(self, ignore_nulls=True):
        fr, c = self.frame, self.col
        i = _i()
        return SBool(z3.ForAll([i], z3.Implies(z3.And(fr.sel(i), z3.Not(c.null(i))), _zb(c.at(i)))))

    def unique(self):
        fr, c = self.frame, self.col
        # (the float NaN is a value no number equals: like null it is an element on its own)
        return SymSet(lambda v: SBool(_exists(fr, lambda i: z3.And(z3.Not(c.null(i)), z3.Not(c.nan(i)), _zb(py_eq(c.at(i), v))))), "unique",
                      has_null=SBool(_exists(fr, lambda i: z3.Or(c.null(i), c.nan(i)))))


def _exists(fr, body):
    i = _i()
    return z3.Exists([i], z3.And(fr.sel(i), body(i)))


class _SchemaP:
    def __init__(self, f):
        self.f = f

    def names(self):
        return list(self.f.cols)

    def _dtype(self, c):
        memo = cur().ghost.setdefault("polars_column_dtypes", {})
        key = (id(self.f.cols[c]), c)
        if key not in memo:
            memo[key] = (SAny(name=f"dtype[{c}]"), self.f.cols[c])  # one dtype object per column (projection keeps the column: same dtype)
        return memo[key][0]

    def dtypes(self):
        return [self._dtype(c) for c in self.f.cols]

    def items(self):
        return [(c, self._dtype(c)) for c in self.f.cols]

    def pyvc_getitem(self, I, c):
        if c not in self.f.cols:
            I.raise_py(KeyError, c)
        return self._dtype(c)

    def pyvc_len(self):
        return len(self.f.cols)

    def __len__(self):
        return len(self.f.cols)

    def keys(self):
        return list(self.f.cols)


def col(name=None, *more):
    import polars as pl

    if isinstance(name, str) and name.startswith("^") and name.endswith("$"):
        # polars: a name that starts with ^ and ends with $ is a REGEX over the column names
        import re

        pat = re.compile(name)
        e = Expr(None, None, multi=lambda fr: [n for n in fr.cols if pat.fullmatch(n) or pat.match(n)])
        return _multi(e)
    if isinstance(name, str) and name != "*":
        return Expr(lambda fr, n=name: _col_of(fr, n), name)
    if name == "*":
        e = Expr(None, None, multi=lambda fr: list(fr.cols))
        return _multi(e)
    if name is pl.Boolean:
        e = Expr(None, None, multi=lambda fr: [n for n, c in fr.cols.items() if c.kind in ("bool",)])
        return _multi(e)
    raise Unsupported(f"pl.col({name!r})")


def _col_of(fr, n):
    if n not in fr.cols:
        I = cur().ghost["interp"]
        raise PyExc(I.make_exc(KeyError, n))
    return fr.cols[n]


def _multi(e):
    # a multi-column selector applies later operations per column
    class M(Expr):
        pass

    m = M(None, None, multi=e.multi)
    m.ops = []

    def per_column(n, m=m):
        x = Expr(lambda fr, n=n: fr.cols[n], n)
        for name, a, k in m.ops:
            # an operand that is itself a selector stands for ITS expression on the same column (pl.col("*").f() | pl.col("*").g())
            a = tuple(y.per_column(n) if isinstance(y, Expr) and y.multi is not None and hasattr(y, "per_column") else y for y in a)
            x = getattr(x, name)(*a, **k)
        return x

    m.per_column = per_column

    def wrap(name):
        def f(*a, **k):
            m2 = _multi(e)
            m2.ops = m.ops + [(name, a, k)]
            return m2

        return f

    for nm in ("map_elements", "is_null", "not_", "eq", "ne", "gt", "ge", "lt", "le", "is_in", "all", "any", "is_duplicated", "is_not_null", "fill_null", "fill_nan", "cast",
               "is_nan", "is_not_nan", "and_", "or_"):
        setattr(m, nm, wrap(nm))
    # operators are looked up on the type
    M.__or__ = lambda self, o: wrap("or_")(o)
    M.__and__ = lambda self, o: wrap("and_")(o)
    M.__invert__ = lambda self: wrap("not_")()
    return m


def lit(v):
    e = Expr(lambda fr: _lit_col(v), "literal")
    e.is_lit = True  # refers to no column: selected on its own it is ONE row, whatever the height of the frame
    return e


def fold(acc, function, exprs):
    """pl.fold(acc=lit(True), function=lambda acc, x: acc & x, exprs=<selector>): left fold over the selected columns"""
    I = cur().ghost["interp"]
    if not (isinstance(exprs, Expr) and exprs.multi is not None):
        raise Unsupported("pl.fold over non-selector")

    e = Expr(None, "literal", multi=exprs.multi)

    def do_fold(fr):
        cur_e = acc
        for n in exprs.multi(fr):
            cur_e = I.call(function, [cur_e, Expr(lambda f2, n=n: f2.cols[n], n)])
        return cur_e.ev(fr)

    e.fold = do_fold

    def alias(name, e=e):
        e2 = Expr(None, name, multi=e.multi)
        e2.fold = e.fold
        e2.alias = lambda n2: alias(n2)
        return e2

    e.alias = alias
    return e


def concat(items, how="vertical", **kw):
    items = list(items)
    if not items:
        # polars: ValueError("cannot concat empty list")
        cur().ghost["interp"].raise_py(ValueError, "cannot concat empty list")
    if how == "horizontal":
        base = items[0]
        cols = {}
        for f in items:
            if f.space is not base.space:
                raise Unsupported("horizontal concat of unrelated frames")
            cols.update(f.cols)
        r = base.derive(cols=cols)
        if any(getattr(f, "may_fail_when_collected", False) for f in items):
            r.may_fail_when_collected = True
        return r
    if not all(f.space is items[0].space for f in items):
        raise Unsupported("vertical concat of unrelated frames")
    return _ConcatP(items)


class _ConcatP:
    """vertical concat of views of ONE frame: a row bag.  `.unique()` de-duplicates by row values."""

    __pyvc_symbolic__ = True

    def __init__(self, parts):
        self.parts = parts

    def unique(self, **kw):
        p0 = self.parts[0]
        union = p0.derive(sel=lambda i: z3.Or(*[p._sel(i) for p in self.parts]))
        return union.unique()


class _When:
    """pl.when(cond): `.then(a)` is an expression giving a where cond is TRUE and null elsewhere (cond false OR null);
    `.otherwise(b)` replaces that null by b.  Chained `.when(...)` is not modelled."""

    __pyvc_symbolic__ = True

    def __init__(self, cond):
        self.cond = cond if isinstance(cond, Expr) else lit(cond)

    def then(self, a):
        return _then(self.cond, a if isinstance(a, Expr) else lit(a), None)


def _then(cond, a, b):
    is_sel = lambda x: isinstance(x, Expr) and x.multi is not None and hasattr(x, "per_column")  # noqa: E731
    sels = [x for x in (cond, a, b) if is_sel(x)]
    if sels:
        # over a selector: the same expression column by column
        m = Expr(None, None, multi=sels[0].multi)
        pc = lambda x, n: x.per_column(n) if is_sel(x) else x  # noqa: E731
        m.per_column = lambda n: _then(pc(cond, n), pc(a, n), pc(b, n))
        if b is None:
            m.otherwise = lambda v: _then(cond, a, v if isinstance(v, Expr) else lit(v))
        return m

    def ev(fr):
        c, x = cond.ev(fr), a.ev(fr)
        y = b.ev(fr) if b is not None else None
        holds = lambda i: z3.And(z3.Not(c.null(i)), _zb(c.at(i)))  # noqa: E731

        def at(i):
            return ite(SBool(holds(i)), x.at(i), y.at(i)) if y is not None else x.at(i)

        def null(i):
            return z3.If(holds(i), x.null(i), y.null(i) if y is not None else z3.BoolVal(True))

        def nan(i):
            return z3.If(holds(i), x.nan(i), y.nan(i) if y is not None else z3.BoolVal(False))

        return Col(at, null, x.kind, nan=nan)

    e = Expr(ev, a.name if a.name is not None else "literal")
    if b is None:
        e.otherwise = lambda v: _then(cond, a, v if isinstance(v, Expr) else lit(v))
        e.when = lambda *a_, **k_: (_ for _ in ()).throw(Unsupported("chained pl.when(...).then(...).when(...)"))
    return e


def install(I):
    import polars as pl

    M = I.models
    M[id(pl.when)] = lambda I, *conds, **kw: _When(conds[0]) if len(conds) == 1 and not kw else (_ for _ in ()).throw(Unsupported("pl.when with several predicates"))
    M[id(pl.col)] = lambda I, *a: col(*a)
    M[id(pl.lit)] = lambda I, v, dtype=None, **kw: lit(v)
    M[id(pl.all)] = lambda I, *a: col(*a) if a else col("*")
    M[id(pl.fold)] = lambda I, acc=None, function=None, exprs=None: fold(acc, function, exprs)
    M[id(pl.concat)] = lambda I, items, how="vertical", **kw: concat(items, how=how)

    def all_horizontal(I, *names):
        es = [col(n) if isinstance(n, str) else n for n in names]
        if any(e.multi is not None for e in es):
            # over a selector ("*", pl.all(), a regex): the conjunction (Kleene) of the selected columns of the frame it is evaluated on
            def ev(fr):
                flat = []
                for e in es:
                    flat.extend([e.per_column(n) for n in e.multi(fr)] if e.multi is not None else [e])
                if not flat:
                    return _lit_col(True)
                r = flat[0]
                for e in flat[1:]:
                    r = r.and_(e)
                return r.ev(fr)

            return Expr(ev, "all_horizontal")
        r = es[0]
        for e in es[1:]:
            r = r.and_(e)
        return r

    M[id(pl.all_horizontal)] = all_horizontal

    def lazyframe_ctor(I, data=None, **kw):
        if isinstance(data, FrameP):
            return data.derive(kind="LazyFrame")
        if isinstance(data, dict) and len(data) == 1 and isinstance(next(iter(data.values())), (list,)):
            (k, v), = data.items()
            # a one-row literal frame {key: [value]}
            val = v[0]
            f = FrameP(RowSpace("lit", SNum(z3.IntVal(1))), {k: Col(lambda i: val, lambda i: z3.BoolVal(False), "bool")}, kind="LazyFrame", agg=True)
            return f
        raise Unsupported("pl.LazyFrame(...)")

    M[id(pl.LazyFrame)] = lazyframe_ctor

    def dataframe_ctor(I, data=None, **kw):
        """pl.DataFrame({name: single-column DataFrame | None, ...}): one column per entry (a None entry becomes an
        all-null column of dtype Null); raises ShapeError when the heights differ (frames over different row spaces)"""
        if isinstance(data, dict):
            cols, space, sel = {}, None, None
            for k, v in data.items():
                if isinstance(v, FrameP):
                    if len(v.cols) != 1:
                        raise Unsupported("pl.DataFrame of multi-column frames")
                    if space is None:
                        space, sel = v.space, v._sel
                    elif v.space is not space:
                        raise PyExc(I.make_exc(OtherException, "ShapeError: heights differ"))
                    cols[k] = next(iter(v.cols.values()))
                elif v is None:
                    cols[k] = Col(lambda i: False, lambda i: z3.BoolVal(True), "null")
                else:
                    raise Unsupported(f"pl.DataFrame column of {type(v).__name__}")
            if space is None:
                space = RowSpace("empty", SNum(z3.IntVal(0)))
            return FrameP(space, cols, sel, kind="DataFrame")
        raise Unsupported("pl.DataFrame(...)")

    M[id(pl.DataFrame)] = dataframe_ctor
    from pandera.api.polars import utils as putils

    M[id(putils.get_lazyframe_schema)] = lambda I, lf: lf.collect_schema()
    M[id(putils.get_lazyframe_column_names)] = lambda I, lf: lf.collect_schema().names()
