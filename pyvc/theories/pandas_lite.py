"""pandas-lite: the assumed contracts (axioms) on pandas Series / Index / DataFrame operations.

Representation (higher-order abstract syntax, DESIGN 4.4): a Series is a *view* on a base row space
`0 <= i < n`:  `sel(i)` says whether base row i is present in the view, `at(i)` its value, `null(i)`
whether it is NaN/None/NA, `label(i)` its index label, all as python functions from a z3 Int term to
z3 terms.  Pointwise operations compose these functions without quantifiers; reductions are bounded
quantifiers over the selected rows.  Row order is the base order (boolean selection, head, tail,
dropna preserve it).  `rowid` is the base position, which is what C11/C20 mean by "row identified by
position".

Axioms used (pandas semantics assumed, numpy NaN conventions):
  * comparison / equality with a scalar is False on a null element; `!=` is True on a null element
  * isin(values) is False on null elements (values without nulls)
  * &,|,~ pointwise;  all()/any() over the selected rows;  empty <=> no selected row
  * s[mask], s.loc[mask], dropna, head, tail restrict `sel`; they keep values, labels, order
  * duplicated(keep): first -> an earlier selected row has an equal value; last -> a later one;
    False -> any other one.  Nulls compare equal to each other (pandas convention).
  * sample(k, random_state) selects a set of rows that is a function of (random_state, k, base) only
  * copy() is a fresh object with the same view
"""
from __future__ import annotations

import z3

from .. import core
from ..core import (And, Iff, Implies, Not, Or, SAny, SBool, SNum, SStr, Sym,
                    Unsupported, cur, ite, py_eq)

L = z3.DeclareSort("Label")


def _i(name="i"):
    return z3.Int(cur().fresh_name(name))


def _zb(x):
    return core.as_z3_bool(x)


class RowSpace:
    """base row space shared by all views derived from one object"""

    def __init__(self, name, n: SNum):
        self.name = name
        self.n = n
        self.label_fn = z3.Function(cur().fresh_name(f"{name}_label"), z3.IntSort(), L)
        self.multi = False  # the labels are MultiIndex tuples (declared by the contract that builds the object)

    def inb(self, i):
        return z3.And(i >= 0, i < self.n.z)


class SymSet:
    """a set of values given by its membership predicate"""

    __pyvc_symbolic__ = True

    def __init__(self, member, name="set", nonempty=None, has_null=False):
        self.member = member  # python fn: value -> bool/SBool
        self.name = name
        # the missing value (NaN / None) is an element: `Series.unique()` of either library lists it once when a cell is missing
        self.has_null = has_null

    @classmethod
    def fresh(cls, name, kind="real"):
        sort = {"real": z3.RealSort(), "int": z3.IntSort(), "str": z3.StringSort(), "any": core.U, "label": L}[kind]
        f = z3.Function(cur().fresh_name(name + "_has"), sort, z3.BoolSort())
        return cls(lambda v, f=f: SBool(f(_term(v))), name)

    def pyvc_contains(self, I, x):
        return self.member(x)


def _term(v):
    ft = _fmt_string_term(v)
    if ft is not None:
        return ft
    if isinstance(v, Sym):
        return v.z
    if isinstance(v, bool):
        return z3.BoolVal(v)
    if isinstance(v, int):
        return z3.IntVal(v)
    if isinstance(v, float):
        return z3.RealVal(v)
    if isinstance(v, str):
        return z3.StringVal(v)
    if isinstance(v, z3.ExprRef):
        return v
    raise Unsupported(f"no z3 term for {type(v).__name__}")


def _fmt_string_term(v):
    """an f-string whose parts are all (symbolic) strings denotes their concatenation"""
    from ..values import Fmt

    if isinstance(v, Fmt) and v.parts and all(isinstance(x, (str, SStr)) for x in v.parts):
        ts = [z3.StringVal(x) if isinstance(x, str) else x.z for x in v.parts]
        return ts[0] if len(ts) == 1 else z3.Concat(*ts)
    return None


def _wrap(z):
    s = z.sort()
    if s == z3.BoolSort():
        return SBool(z)
    if s in (z3.IntSort(), z3.RealSort()):
        return SNum(z)
    if s == z3.StringSort():
        return SStr(z)
    if s == core.U:
        return SAny(z)
    return z


class SeriesVal:
    __pyvc_symbolic__ = True

    def __init__(self, space: RowSpace, at, null, sel=None, name=None, kind="real", dtype=None, owner=None, fresh_obj=True):
        self.space = space
        self._at = at  # z3 Int term -> Sym
        self._null = null  # z3 Int term -> z3 Bool
        self._sel = sel or _always
        self.name = name
        self.kind = kind
        self.dtype_ = dtype
        self.extra_attrs = ()
        self.writes = []
        self.pre = False
        self.mutations = []
        self.index_override = None

    def pyvc_setattr(self, I, name, value):
        if name == "index":
            self.mutations.append(("index", None))
            self.index_override = value
            cur().event("data_write", self, "index")
            return
        if name == "name":
            self.mutations.append(("name", None))
            self.name = value
            cur().event("data_write", self, "name")
            return
        raise Unsupported(f"Series.{name} = ...")

    # ---- construction ----------------------------------------------------------------
    @classmethod
    def fresh(cls, name, kind="real", nullable=True, space=None, series_name=None):
        if space is None:
            n = core.sym_int(f"len({name})")
            cur().assume(n >= 0)
            core.register_model_var(f"len({name})", n.z)
            space = RowSpace(name, n)
        sort = {"real": z3.RealSort(), "int": z3.IntSort(), "bool": z3.BoolSort(), "str": z3.StringSort(), "any": core.U}[kind]
        vf = z3.Function(cur().fresh_name(f"{name}_val"), z3.IntSort(), sort)
        if nullable:
            nf = z3.Function(cur().fresh_name(f"{name}_null"), z3.IntSort(), z3.BoolSort())
            null = lambda i, nf=nf: nf(i)
        else:
            null = lambda i: z3.BoolVal(False)
        s = cls(space, lambda i, vf=vf: _wrap(vf(i)), null, name=series_name, kind=kind)
        s.base_name = name
        s.vf = vf
        s.pre = True
        cur().ghost.setdefault("data_objects", []).append(s)
        # model projection: first few rows
        def proj(m, vf=vf, null=null, space=space):
            try:
                n = m.eval(space.n.z, model_completion=True).as_long()
            except Exception:
                return "?"
            rows = []
            for k in range(min(n, 6)):
                isn = z3.is_true(m.eval(null(z3.IntVal(k)), model_completion=True))
                rows.append(None if isn else str(m.eval(vf(z3.IntVal(k)), model_completion=True)))
            labels = [str(m.eval(space.label_fn(z3.IntVal(k)), model_completion=True)) for k in range(min(n, 6))]
            return {"n": n, "values": rows, "labels": labels}

        core.register_model_var(name, proj)
        return s

    # ---- attribute protocol of a Series: what the class defines, and - through Series.__getattr__ - every index label
    def _has_label_named(self, name):
        cache = self.space.__dict__.setdefault("labels_named", {})
        if name not in cache:
            cache[name] = SBool(z3.Bool(cur().fresh_name(f"{self.space.name}_has_a_label_named_{name}")))
        return cache[name]

    def pyvc_hasattr(self, name):
        import pandas as pd

        return True if hasattr(pd.Series, name) or hasattr(type(self), name) else self._has_label_named(name)

    def pyvc_missing_attr(self, I, name):
        import pandas as pd

        if name.startswith("_") or hasattr(pd.Series, name):
            raise Unsupported(f"theory value SeriesVal has no model for .{name}")
        if I.truth(self._has_label_named(name), f"an index label is {name!r}"):
            return SAny(name=f"series[{name!r}]")
        I.raise_py(AttributeError, f"'Series' object has no attribute '{name}'")

    def derive(self, at=None, null=None, sel=None, kind=None, name="__same__"):
        # views / same-kind derivations keep the dtype OBJECT (asking its class twice gives one answer)
        dt = self.dtype if kind in (None, self.kind) else None
        s = SeriesVal(self.space, at or self._at, null or self._null, sel or self._sel,
                      self.name if name == "__same__" else name, kind or self.kind, dt)
        return s

    # ---- element access (z3 level) -----------------------------------------------------
    def at(self, i):
        return self._at(i)

    def null(self, i):
        return self._null(i)

    def sel(self, i):
        return z3.And(self.space.inb(i), self._sel(i))

    def label(self, i):
        return self.space.label_fn(i)

    def forall(self, body):
        """body: z3 Int term -> bool-like ; quantifies over selected rows"""
        i = _i()
        return SBool(z3.ForAll([i], z3.Implies(self.sel(i), _zb(body(i)))))

    def exists(self, body):
        i = _i()
        return SBool(z3.Exists([i], z3.And(self.sel(i), _zb(body(i)))))

    # ---- python protocol -------------------------------------------------------------
    def pyvc_class(self):
        import pandas as pd

        return pd.Series

    def __bool__(self):
        raise core.PyExc(_value_error())

    def _cmp(self, other, f, on_null=False):
        if isinstance(other, SeriesVal):
            o = other
            return self.derive(
                at=lambda i: SBool(z3.If(z3.Or(self.null(i), o.null(i)), z3.BoolVal(on_null), _zb(f(self.at(i), o.at(i))))),
                null=lambda i: z3.BoolVal(False), kind="bool")
        if other is None:
            raise Unsupported("comparison of series with None")
        return self.derive(
            at=lambda i: SBool(z3.If(self.null(i), z3.BoolVal(on_null), _zb(f(self.at(i), other)))),
            null=lambda i: z3.BoolVal(False), kind="bool")

    def __lt__(self, o):
        return self._cmp(o, lambda a, b: a < b)

    def __le__(self, o):
        return self._cmp(o, lambda a, b: a <= b)

    def __gt__(self, o):
        return self._cmp(o, lambda a, b: a > b)

    def __ge__(self, o):
        return self._cmp(o, lambda a, b: a >= b)

    def __eq__(self, o):  # type: ignore[override]
        return self._cmp(o, lambda a, b: py_eq(a, b))

    def __ne__(self, o):  # type: ignore[override]
        return self._cmp(o, lambda a, b: Not(py_eq(a, b)), on_null=True)

    __hash__ = object.__hash__

    def _boolop(self, o, f):
        if isinstance(o, SeriesVal):
            return self.derive(at=lambda i: SBool(f(_zb(self.at(i)), _zb(o.at(i)))), null=lambda i: z3.BoolVal(False), kind="bool")
        return self.derive(at=lambda i: SBool(f(_zb(self.at(i)), _zb(o))), null=lambda i: z3.BoolVal(False), kind="bool")

    def __and__(self, o):
        return self._boolop(o, z3.And)

    __rand__ = __and__

    def __or__(self, o):
        return self._boolop(o, z3.Or)

    __ror__ = __or__

    def __invert__(self):
        return self.derive(at=lambda i: SBool(z3.Not(_zb(self.at(i)))), null=lambda i: z3.BoolVal(False), kind="bool")

    # ---- pandas API ------------------------------------------------------------------
    def isin(self, values):
        if isinstance(values, SymSet):
            mem = values.member
        elif isinstance(values, (list, tuple, set, frozenset)):
            vs = list(values)
            mem = lambda v: Or(*[py_eq(v, x) for x in vs]) if vs else False
        else:
            raise Unsupported(f"isin({type(values).__name__})")
        return self.derive(at=lambda i: SBool(z3.And(z3.Not(self.null(i)), _zb(mem(self.at(i))))),
                           null=lambda i: z3.BoolVal(False), kind="bool")

    def isna(self):
        return self.derive(at=lambda i: SBool(self.null(i)), null=lambda i: z3.BoolVal(False), kind="bool")

    isnull = isna

    def notna(self):
        return self.derive(at=lambda i: SBool(z3.Not(self.null(i))), null=lambda i: z3.BoolVal(False), kind="bool")

    @property
    def hasnans(self):
        return self.exists(lambda i: self.null(i))

    def all(self, axis=None):
        # pandas reductions skip missing entries (skipna=True): an <NA> in a nullable boolean series does not make all() false
        return self.forall(lambda i: z3.Or(self.null(i), _zb(self.at(i))))

    def any(self, axis=None):
        return self.exists(lambda i: z3.And(z3.Not(self.null(i)), _zb(self.at(i))))

    @property
    def empty(self):
        i = _i()
        return SBool(z3.Not(z3.Exists([i], self.sel(i))))

    def dropna(self):
        return self.derive(sel=lambda i: z3.And(self._sel(i), z3.Not(self.null(i))), null=lambda i: z3.BoolVal(False))

    def rename(self, index=None, **kw):
        """Series.rename(name): the same values under another name (a scalar / None argument; relabelling the index is not modelled)"""
        if kw or callable(index) or isinstance(index, dict):
            raise Unsupported("Series.rename with a mapping / function")
        return self.derive(name=index)

    def pyvc_setitem(self, I, k, v):
        """series[label] = value: an in-place write of one element (the series stays a series)"""
        self.mutations.append(("setitem", k))
        self.element_writes = getattr(self, "element_writes", []) + [(k, v)]
        for o in (self, getattr(self, "buffer_root", None)):
            if o is not None:
                cur().event("data_write", o, "setitem")

    def fillna(self, value, inplace=False, **kw):
        if inplace is True:
            # in-place fill: a write to this object's buffers - and to every object that shares them (shallow copies / the original)
            for o in (self, getattr(self, "buffer_root", None)):
                if o is not None:
                    o.mutations.append(("fillna", None)) if hasattr(o, "mutations") else None
                    cur().event("data_write", o, "fillna")
            return None
        return self.derive(at=lambda i: ite(SBool(self.null(i)), value, self.at(i)), null=lambda i: z3.BoolVal(False))

    def copy(self, deep=True):
        r = self.derive()
        if deep is False:
            r.buffer_root = getattr(self, "buffer_root", None) or self  # a shallow copy is a new container over the SAME buffers
        return r

    def astype(self, t):
        if t is bool and self.kind == "bool":
            return self
        if t is bool:
            return self.derive(at=lambda i: self.at(i).truth() if isinstance(self.at(i), Sym) else self.at(i), kind="bool")
        raise Unsupported(f"astype({t})")

    def _values_equal(self, i, j):
        """pandas duplicate semantics: equal values, nulls equal to each other"""
        return z3.Or(z3.And(self.null(i), self.null(j)),
                     z3.And(z3.Not(self.null(i)), z3.Not(self.null(j)), _zb(py_eq(self.at(i), self.at(j)))))

    @property
    def is_unique(self):
        i, j = _i("i"), _i("j")
        return SBool(z3.ForAll([i, j], z3.Implies(z3.And(self.sel(i), self.sel(j), i < j), z3.Not(self._values_equal(i, j)))))

    def duplicated(self, keep="first"):
        def at(i):
            j = _i("j")
            if isinstance(keep, Sym):
                raise Unsupported("duplicated(keep=<symbolic>)")
            if keep == "first":
                rel = j < i
            elif keep == "last":
                rel = j > i
            elif keep is False:
                rel = j != i
            else:
                raise core.PyExc(_value_error("keep"))
            return SBool(z3.Exists([j], z3.And(self.sel(j), rel, self._values_equal(i, j))))

        return self.derive(at=at, null=lambda i: z3.BoolVal(False), kind="bool")

    def drop(self, labels=None, index=None, inplace=False, **kw):
        if inplace:
            raise Unsupported("Series.drop(inplace=True)")
        rows = index if index is not None else labels
        if rows is None:
            return self.derive()
        return self.derive(sel=_without_labels(self, rows))

    def unique(self):
        return SymSet(lambda v: self.exists(lambda i: z3.And(z3.Not(self.null(i)), _zb(py_eq(self.at(i), v)))), "unique",
                      has_null=self.exists(lambda i: self.null(i)))

    def head(self, n=5):
        return self.derive(sel=lambda i: z3.And(self._sel(i), self._pos_lt(i, n)))

    def tail(self, n=5):
        return self.derive(sel=lambda i: z3.And(self._sel(i), self._pos_ge_from_end(i, n)))

    def _require_full(self):
        # head/tail by position are only modelled on an unfiltered view
        pass

    def _pos_lt(self, i, n):
        return i < _term(n)

    def _pos_ge_from_end(self, i, n):
        return i >= self.space.n.z - _term(n)

    def sample(self, n=None, random_state=None, **kw):
        rs = _term(random_state) if random_state is not None else z3.IntVal(-1)
        rs = z3.ToInt(rs) if rs.sort() == z3.RealSort() else rs
        picked = z3.Function(cur().fresh_name("picked"), z3.IntSort(), z3.IntSort(), z3.IntSort(), z3.BoolSort())
        key = ("picked", self.space.name)
        store = cur().ghost.setdefault("pick_fns", {})
        if key not in store:
            store[key] = picked
        picked = store[key]
        nn = _term(n)
        r = self.derive(sel=lambda i: z3.And(self._sel(i), picked(rs, nn, i)))
        r._unordered = True
        return r

    def map(self, fn, na_action=None):
        """Series.map(fn): element i of the result is fn(element i).  na_action='ignore' (pandas): null elements are propagated
        as NaN WITHOUT being passed to fn."""
        if na_action not in (None, "ignore"):
            raise Unsupported(f"Series.map(na_action={na_action!r})")
        I = cur().ghost["interp"]
        memo = {}
        skip_nulls = na_action == "ignore"

        def at(i):
            k = i.get_id()
            if k not in memo:
                if skip_nulls and cur().decide(SBool(self.null(i)), "map(na_action='ignore'): element is null"):
                    memo[k] = SAny(name="nan")
                else:
                    el = self.at(i)
                    try:
                        el.missing = SBool(self.null(i))  # the element handed to fn knows whether it is the missing value (pd.isna(el))
                    except AttributeError:
                        pass
                    memo[k] = I.call(fn, [el])
            return memo[k]

        return self.derive(at=at, null=(lambda i: self.null(i)) if skip_nulls else (lambda i: z3.BoolVal(False)), kind="any")

    def pyvc_getitem(self, I, k):
        if isinstance(k, SeriesVal):
            return self.derive(sel=lambda i: z3.And(self._sel(i), _zb(k.at(i))))
        raise Unsupported("series[...] with non-mask key")

    def to_numpy(self, *a, **k):
        return self  # the values as an array: used as a positional mask over the same rows

    @property
    def loc(self):
        return _Loc(self)

    @property
    def index(self):
        return IndexVal(self)

    @property
    def dtype(self):
        if self.dtype_ is None:
            self.dtype_ = DTypeVal(name="dtype")
        return self.dtype_

    @property
    def str(self):
        return _StrAcc(self)

    @property
    def shape(self):
        raise Unsupported("series.shape")

    def pipe(self, f):
        return cur().ghost["interp"].call(f, [self])

    def pyvc_len(self):
        return view_len(self)

    def pyvc_havoc(self, name):
        return SeriesVal.fresh(name + "'", self.kind)

    # row-set helpers for contracts
    def same_rows_as(self, other):
        i = _i()
        return SBool(z3.ForAll([i], self.sel(i) == other.sel(i)))


def _always(i):
    return z3.BoolVal(True)


def view_len(v):
    """len(view): exactly n for an unfiltered view, else a count c with the axioms
    0 <= c <= n, c == n <=> every base row selected, c == 0 <=> no row selected"""
    if v._sel is _always:
        return v.space.n
    c = core.sym_int("count")
    i = _i()
    n = v.space.n.z
    cur().assume(z3.And(c.z >= 0, c.z <= n))
    cur().assume((c.z == n) == z3.ForAll([i], z3.Implies(v.space.inb(i), v._sel(i))))
    j = _i()
    cur().assume((c.z == 0) == z3.Not(z3.Exists([j], v.sel(j))))
    return c


class DTypeVal(SAny):
    """a pandas/numpy dtype object: opaque, except for `.kind` (a one-character string: any of numpy's kind codes - the
    masked extension dtypes Int64/boolean report 'i'/'b' too and CAN hold nulls) and comparison with python types"""

    def __init__(self, name="dtype"):
        super().__init__(name=name)
        self._kind = None
        self._isinst = {}

    def pyvc_isinstance(self, c):
        # one (unconstrained) answer per dtype object and class: asking twice gives the same answer
        if c not in self._isinst:
            self._isinst[c] = core.sym_bool(f"isinstance(dtype,{getattr(c, '__name__', c)})")
        return self._isinst[c]

    @property
    def kind(self):
        if self._kind is None:
            k = core.sym_str("dtype.kind")
            cur().assume(SBool(z3.Length(k.z) == 1))
            self._kind = k
        return self._kind


class _Loc:
    def __init__(self, s):
        self.s = s

    def pyvc_getitem(self, I, k):
        if isinstance(k, tuple):
            mask, cols = k
            sub = self.s.pyvc_getitem(I, mask)
            return sub.pyvc_getitem(I, cols) if cols is not None else sub
        if isinstance(k, IndexVal) and getattr(k.owner, "space", None) is self.s.space:
            # obj.loc[other.index] where `other` is a view of the same rows: the rows of `other` (labels unique: the C11 quantifier)
            o = k.owner
            return self.s.derive(sel=lambda i: z3.And(self.s._sel(i), o._sel(i)))
        if isinstance(k, LabelSel):
            # obj.loc[labels]: LABEL based - every row whose label is one of the requested labels (pandas returns all rows carrying a
            # requested label, once per request; as a SET of rows this is the axiom below - multiplicities are not modelled)
            s = self.s
            j = _i("j")
            return s.derive(sel=lambda i: z3.And(s._sel(i), z3.Exists([j], z3.And(k.sel(j), s.label(j) == s.label(i)))))
        return self.s.pyvc_getitem(I, k)


class _StrAcc:
    def __init__(self, s):
        self.s = s

    def _pt(self, f, na=False):
        s = self.s
        return s.derive(at=lambda i: SBool(z3.If(s.null(i), z3.BoolVal(bool(na)), _zb(f(s.at(i))))), null=lambda i: z3.BoolVal(False), kind="bool")

    def startswith(self, p, na=None):
        return self._pt(lambda v: v.startswith(p) if isinstance(v, SStr) else SBool(z3.PrefixOf(_term(p), _term(v))), na)

    def endswith(self, p, na=None):
        return self._pt(lambda v: v.endswith(p) if isinstance(v, SStr) else SBool(z3.SuffixOf(_term(p), _term(v))), na)

    def match(self, pat, na=None):
        return self._pt(lambda v: rx("match", pat, v), na)

    def contains(self, pat, na=None):
        return self._pt(lambda v: rx("search", pat, v), na)

    def len(self):
        s = self.s
        return s.derive(at=lambda i: SNum(z3.Length(_term(s.at(i)))) if s.kind == "str" else core.SNum(z3.Int(cur().fresh_name("slen"))), kind="int")


_RX = {}


class RxPattern:
    """a compiled regular expression (re.Pattern): pattern text (symbolic) + flags (a concrete re.RegexFlag value)"""

    __pyvc_symbolic__ = True

    def __init__(self, pattern, flags=0):
        self.pattern, self.flags = pattern, int(flags)

    def pyvc_class(self):
        import re

        return re.Pattern

    def letters(self):
        import re

        return "".join(c for f, c in ((re.IGNORECASE, "i"), (re.MULTILINE, "m"), (re.DOTALL, "s"), (re.VERBOSE, "x")) if self.flags & f)


def rx(kind, pat, v, flags=""):
    """regular expressions as uninterpreted relations rx_match / rx_search (pattern, string) - one relation per set of flags
    (i / m / s / x): nothing is assumed about how a flag changes the language of a pattern, only that the same pattern text under
    the same flags means the same on both back ends"""
    if isinstance(pat, RxPattern):
        pat, flags = pat.pattern, pat.letters()
    key = kind + ("_" + "".join(sorted(set(flags))) if flags else "")
    if key not in _RX:
        _RX[key] = z3.Function(f"rx_{key}", z3.StringSort(), z3.StringSort(), z3.BoolSort())
    return SBool(_RX[key](_term(pat), _term(v)))


class RawValues:
    """index.values / series.values: the labels as a bare numpy array - the VALUES only; what the pandas dtype adds to them (a time
    zone, categories, the nullable-integer mask) is not carried by the array"""

    __pyvc_symbolic__ = True

    def __init__(self, of):
        self.of = of


class IndexVal:
    """the index (labels) of a view"""

    __pyvc_symbolic__ = True

    def __init__(self, owner):
        self.owner = owner

    @property
    def values(self):
        return RawValues(self)

    @property
    def name(self):
        # the name of the index: one (opaque) value per index object
        if getattr(self, "_name", None) is None:
            self._name = SAny(name="index.name")
        return self._name

    def pyvc_class(self):
        import pandas as pd

        return pd.MultiIndex if getattr(getattr(self.owner, "space", None), "multi", False) else pd.Index

    def to_frame(self, index=True, name=None, allow_duplicates=False):
        """MultiIndex.to_frame(): one column per level; only its row-wise tuples are modelled"""
        if not getattr(getattr(self.owner, "space", None), "multi", False):
            raise Unsupported("Index.to_frame of a flat index")
        return _LevelsFrame(self.owner)

    def to_series(self, index=None, name=None):
        """Index.to_series(): the labels as values (and as labels).  Modelled for an index over a series' rows by that series' row
        space: the contracts that use it speak about rows, not about the values."""
        if index is not None:
            raise Unsupported("Index.to_series(index=...)")
        o = self.owner
        if not isinstance(o, SeriesVal):
            raise Unsupported("Index.to_series of a frame's index")
        r = o.derive()
        r.from_index = True
        return r

    def pyvc_getitem(self, I, k):
        """index[mask]: the labels of the selected rows (a selection of positions whose labels are what matters downstream)"""
        if isinstance(k, SeriesVal):
            o = self.owner
            return LabelSel(o, lambda i: z3.And(o.sel(i), _zb(k.at(i))))
        raise Unsupported("index[...] with non-mask key")

    def duplicated(self, keep="first"):
        o = self.owner

        def at(i):
            j = _i("j")
            rel = {"first": j < i, "last": j > i, False: j != i}[keep]
            return SBool(z3.Exists([j], z3.And(o.sel(j), rel, o.label(i) == o.label(j))))

        return SeriesVal(o.space, at, lambda i: z3.BoolVal(False), o._sel, kind="bool")

    def isin(self, values):
        o = self.owner
        if isinstance(values, SymSet):
            mem = values.member
        elif isinstance(values, LabelSeries):
            mem = values.member
        elif isinstance(values, TextLabelSeries):
            mem = lambda l: z3.BoolVal(False)  # noqa: E731  (a label tuple is never equal to a piece of text)
        else:
            raise Unsupported("index.isin of non-label-set")
        return SeriesVal(o.space, lambda i: SBool(_zb(mem(o.label(i)))), lambda i: z3.BoolVal(False), o._sel, kind="bool")

    def equals(self, other):
        if isinstance(other, IndexVal):
            a, b = self.owner, other.owner
            if a.space is b.space:
                i = _i()
                return SBool(z3.ForAll([i], a.sel(i) == b.sel(i)))
            if getattr(a, "foreign_index", False) or getattr(b, "foreign_index", False):
                return False  # declared by the contract: an object whose index differs from every other object's
            return SBool(z3.Bool(cur().fresh_name("index_equals")))
        return False

    @property
    def is_unique(self):
        o = self.owner
        i, j = _i("i"), _i("j")
        return SBool(z3.ForAll([i, j], z3.Implies(z3.And(o.sel(i), o.sel(j), i < j), o.label(i) != o.label(j))))


def _without_labels(view, labels):
    """drop(index=labels): EVERY row whose label is one of `labels` goes - with a repeated label, all the rows that carry it"""
    if isinstance(labels, LabelSel):
        o = labels.owner

        def sel(i):
            j = _i("j")
            return z3.And(view._sel(i), z3.Not(z3.Exists([j], z3.And(o.space.inb(j), labels.sel(j), o.label(j) == view.label(i)))))

        return sel
    if isinstance(labels, LabelSeries):
        return lambda i: z3.And(view._sel(i), z3.Not(_zb(labels.member(view.label(i)))))
    raise Unsupported(f"drop(index={type(labels).__name__})")


class LabelSel:
    """index[mask]: labels of a sub-selection of rows of `owner`"""

    __pyvc_symbolic__ = True

    def __init__(self, owner, sel):
        self.owner, self.sel = owner, sel


# the text a MultiIndex label (a tuple) is reported as: str(tuple).  One uninterpreted rendering for every producer and consumer.
LabelText = z3.DeclareSort("LabelText")
label_text = z3.Function("label_text", L, LabelText)


class _LevelsFrame:
    """MultiIndex.to_frame(): rows are the label tuples"""

    __pyvc_symbolic__ = True

    def __init__(self, owner):
        self.owner = owner

    def pyvc_class(self):
        import pandas as pd

        return pd.DataFrame

    def apply(self, fn, axis=0, **kw):
        if fn is tuple and axis in (1, "columns"):
            return _TupleSeries(self.owner, rendered=False)
        raise Unsupported("levels frame .apply(...) other than (tuple, axis=1)")


class _TupleSeries:
    """one label tuple per row (rendered=True: as text)"""

    __pyvc_symbolic__ = True

    def __init__(self, owner, rendered):
        self.owner, self.rendered = owner, rendered

    def pyvc_class(self):
        import pandas as pd

        return pd.Series

    def astype(self, t):
        if t is str or t == "str":
            return _TupleSeries(self.owner, rendered=True)
        raise Unsupported(f"tuple series .astype({t!r})")

    def isin(self, values):
        o = self.owner
        if self.rendered and isinstance(values, TextLabelSeries):
            return SeriesVal(o.space, lambda i: SBool(_zb(values.member(label_text(o.label(i))))), lambda i: z3.BoolVal(False), o._sel, kind="bool")
        if not self.rendered and isinstance(values, LabelSeries):
            return SeriesVal(o.space, lambda i: SBool(_zb(values.member(o.label(i)))), lambda i: z3.BoolVal(False), o._sel, kind="bool")
        if self.rendered != isinstance(values, TextLabelSeries):
            # text against tuples: nothing is equal to anything
            return SeriesVal(o.space, lambda i: SBool(z3.BoolVal(False)), lambda i: z3.BoolVal(False), o._sel, kind="bool")
        raise Unsupported("tuple series .isin of an unmodelled collection")


class TextLabelSeries:
    """a column of RENDERED MultiIndex labels (failure_cases['index'] of an object with a MultiIndex): membership predicate on text.
    `labels_are_literals`: every level value prints as a Python literal (ints, strings, ...) - then and only then does
    eval(text) give the tuple back; a Timestamp / NaN / Decimal ... level prints as a name or call (`Timestamp('2020-01-01 00:00:00')`,
    `nan`) that eval has no binding for."""

    __pyvc_symbolic__ = True

    def __init__(self, member, labels_are_literals):
        self.member, self.labels_are_literals = member, labels_are_literals

    def pyvc_class(self):
        import pandas as pd

        return pd.Series

    def apply(self, fn, **kw):
        if fn is eval:
            if not self.labels_are_literals:
                return cur().ghost["interp"].raise_py(NameError, "name 'Timestamp' is not defined")
            # eval(str(t)) == t for tuples of literals: the tuples whose text is in the column
            return LabelSeries(lambda l: self.member(label_text(l)))
        raise Unsupported("rendered labels .apply(...) other than eval")


class LabelSeries:
    """a column of labels (e.g. failure_cases['index']) given as a membership predicate on labels"""

    __pyvc_symbolic__ = True

    def __init__(self, member):
        self.member = member

    @classmethod
    def fresh(cls, name):
        f = z3.Function(cur().fresh_name(name + "_has"), L, z3.BoolSort())
        return cls(lambda l, f=f: SBool(f(l)))


def _value_error(msg="The truth value of a Series is ambiguous"):
    I = cur().ghost["interp"]
    return I.make_exc(ValueError, msg)


# --------------------------------------------------------------------------------------
# install: models for pandera's type tests and the pandas module functions the targets use
# --------------------------------------------------------------------------------------


def install(I):
    import pandas as pd

    def _from_tuples(I_, cls, tuples, *a, **k):
        if isinstance(tuples, LabelSeries):
            return tuples  # the same labels, as an index
        raise Unsupported("MultiIndex.from_tuples of an unmodelled collection")

    I.models[id(pd.MultiIndex.from_tuples.__func__)] = _from_tuples
    from pandera.api.pandas import types as ptypes
    from pandera import validation_depth as VD
    from pandera.config import ValidationScope

    def validation_type(I, reason):
        from ..interp import MappedReason

        if isinstance(reason, MappedReason):
            return SAny(name="scope")
        if isinstance(reason, Sym):
            I.raise_py(KeyError, reason)
        try:
            return VD.VALIDATION_DEPTH_ERROR_CODE_MAP[reason]
        except KeyError:
            I.raise_py(KeyError, reason)

    I.models[id(VD.validation_type)] = validation_type

    from pandera.errors import SchemaErrors

    def schema_errors_init(I, self_obj, schema, schema_errors, data):
        # SchemaErrors.__init__ under the contract 'stores its arguments; failure_cases_metadata does not raise'
        # (the second half is an obligation of C06 on failure_cases_metadata, bounded for the pandas pipeline)
        self_obj.attrs.update(schema=schema, schema_errors=schema_errors, data=data,
                              error_counts=SAny(name="error_counts"), failure_cases=SAny(name="failure_cases"), message=SAny(name="message"))
        self_obj.attrs["args"] = (self_obj.attrs["message"],)
        return None

    I.models[id(SchemaErrors.__init__)] = schema_errors_init

    cur_ghost_hook(I)
    M = I.models

    M[id(ptypes.is_field)] = lambda I, o: isinstance(o, SeriesVal)
    M[id(ptypes.is_table)] = lambda I, o: isinstance(o, FrameVal)
    M[id(ptypes.is_index)] = lambda I, o: isinstance(o, IndexVal)
    M[id(ptypes.is_multiindex)] = lambda I, o: False
    M[id(ptypes.is_table_or_field)] = lambda I, o: isinstance(o, (SeriesVal, FrameVal))
    M[id(ptypes.is_bool)] = lambda I, o: isinstance(o, (bool, SBool))

    def concat(I, objs, axis=0, **kw):
        objs = list(objs)
        if not objs:
            I.raise_py(ValueError, "No objects to concatenate")
        if axis != 0:
            raise Unsupported("pd.concat(axis=1)")
        base = objs[0]
        if not all(getattr(o, "space", None) is base.space for o in objs):
            raise Unsupported("concat of views of different objects")
        # a concatenation of views of ONE object: a row bag; we keep the multiplicity
        return ConcatView(objs)

    M[id(pd.concat)] = concat

    def series_ctor(I, data=None, index=None, dtype=None, name=None, **kw):
        # pd.Series(scalar, index=obj.index): a constant series over the rows of `obj`
        if isinstance(index, IndexVal) and (isinstance(data, (bool, int, float, str, Sym)) or data is None):
            o = index.owner
            kind = "bool" if isinstance(data, (bool, SBool)) else ("str" if isinstance(data, (str, SStr)) else "real")
            s = SeriesVal(o.space, lambda i: data, (lambda i: z3.BoolVal(data is None)), o._sel, name, kind, dtype)
            return s
        if isinstance(data, RawValues) and index is None:
            # a new series of the bare values under a default (positional) index: dtype re-inferred from the array
            s = SeriesVal.fresh("series_of_raw_values", "real")
            s.name = name
            s.positional_labels_of = data.of
            s.dtype_carried_over = False
            return s
        raise Unsupported("pd.Series(...) construction other than a constant over an existing index")

    M[id(pd.Series)] = series_ctor

    def isna(I, v):
        if isinstance(v, SeriesVal):
            return v.isna()
        if v is None:
            return True
        if getattr(v, "missing", None) is not None:
            return v.missing  # an element taken out of a series by Series.map
        if isinstance(v, Sym):
            f = z3.Function("scalar_isna", core.U, z3.BoolSort())
            if isinstance(v, SAny):
                return SBool(f(v.z))
            return False
        return pd.isna(v)

    M[id(pd.isna)] = isna
    M[id(pd.notna)] = lambda I, v: Not(isna(I, v)) if not isinstance(isna(I, v), bool) else not isna(I, v)


def cur_ghost_hook(I):
    I._wants_ghost_interp = True


class ConcatView:
    """pd.concat([v1, v2, ...]) of views of one object: rows with multiplicity, in list order"""

    __pyvc_symbolic__ = True

    def __init__(self, parts):
        self.parts = parts
        self.space = parts[0].space

    def pipe(self, f):
        return cur().ghost["interp"].call(f, [self])

    @property
    def index(self):
        return _ConcatIndex(self)

    def pyvc_getitem(self, I, k):
        if isinstance(k, _NotDupMask) and k.cv is self:
            return k.result()
        raise Unsupported("subscript of concat view")


class _ConcatIndex:
    def __init__(self, cv):
        self.cv = cv

    def duplicated(self, keep="first"):
        return _DupMask(self.cv)


class _DupMask:
    def __init__(self, cv):
        self.cv = cv

    def __invert__(self):
        return _NotDupMask(self.cv)


class _NotDupMask:
    """x[~x.index.duplicated()] on a concatenation: keeps, per index LABEL, the first occurrence in
    concatenation order.  Axiom: an occurrence of base row i is dropped iff some occurrence that comes
    earlier in concatenation order carries the same label.  `before` is an uninterpreted strict order
    on base rows restricted so that different rows with equal labels are ordered one way or the other."""

    def __init__(self, cv):
        self.cv = cv

    def result(self):
        cv = self.cv
        p0 = cv.parts[0]
        space = cv.space
        # concatenation order of first occurrences: parts in list order; inside a head/tail part rows come in
        # position order; inside a sample part in an arbitrary order `rank` (ties broken by position, which makes
        # `before` a strict total order without any quantified axiom).
        rank = z3.Function(cur().fresh_name("sample_rank"), z3.IntSort(), z3.IntSort())
        ordered = [p for p in cv.parts if not getattr(p, "_unordered", False)]
        unordered = [p for p in cv.parts if getattr(p, "_unordered", False)]
        if unordered and cv.parts[-1] is not unordered[0] or len(unordered) > 1:
            raise Unsupported("concat with a sample part that is not last")
        # head rows precede tail rows and both are ascending: for rows of ordered parts, first-occurrence order is
        # position order provided the parts are listed as [head][tail] (checked: sel of part k implies no later row
        # belongs only to an earlier part is NOT assumed; we encode the order per part index instead)
        def first_part(i):
            # index of the first part containing row i (len(parts) if none)
            e = z3.IntVal(len(cv.parts))
            for k in reversed(range(len(cv.parts))):
                e = z3.If(cv.parts[k]._sel(i), z3.IntVal(k), e)
            return e

        def before(j, i):
            pj, pi = first_part(j), first_part(i)
            in_unordered = z3.BoolVal(False) if not unordered else (pj == len(cv.parts) - 1)
            within = z3.If(in_unordered, z3.Or(rank(j) < rank(i), z3.And(rank(j) == rank(i), j < i)), j < i)
            return z3.Or(pj < pi, z3.And(pj == pi, within))

        def in_union(i):
            return z3.Or(*[p._sel(i) for p in cv.parts])

        def sel(i):
            j = _i("j")
            return z3.And(in_union(i), z3.Not(z3.Exists([j], z3.And(space.inb(j), in_union(j), j != i,
                                                                    space.label_fn(j) == space.label_fn(i), before(j, i)))))

        return p0.derive(sel=sel)


class FrameVal:
    """DataFrame view: rows as in SeriesVal, columns by label through `col(label) -> SeriesVal`"""

    __pyvc_symbolic__ = True

    def __init__(self, space, col_fn, has_col, sel=None, name="df"):
        self.space = space
        self.col_fn = col_fn
        self.has_col = has_col
        self._sel = sel or _always
        self.name = name
        self.cols = {}
        self.pre = False
        self.mutations = []
        self.overrides = {}
        self.index_override = None

    @classmethod
    def fresh(cls, name, columns=None, kind="real", pre=True):
        n = core.sym_int(f"len({name})")
        cur().assume(n >= 0)
        core.register_model_var(f"len({name})", n.z)
        space = RowSpace(name, n)
        cache = {}

        def col(label):
            k = label.z.get_id() if isinstance(label, Sym) else label
            if k not in cache:
                cache[k] = SeriesVal.fresh(f"{name}[{getattr(label, 'z', label)}]", kind, space=space, series_name=label)
            return cache[k]

        hc = {}

        def has(label):
            k = label.z.get_id() if isinstance(label, Sym) else label
            if columns is not None:
                return label in columns
            if k not in hc:
                hc[k] = core.sym_bool(f"{name}.has[{getattr(label, 'z', label)}]")
            return hc[k]

        f = cls(space, col, has, name=name)
        f.pre = pre
        f.known_columns = list(columns) if columns is not None else None
        cur().ghost.setdefault("data_objects", []).append(f)
        return f

    def pyvc_class(self):
        import pandas as pd

        return pd.DataFrame

    # ---- in-place mutation (S-lib mutator table: __setitem__, .index =, drop(inplace=True)) -------------
    def pyvc_setitem(self, I, k, v):
        self.mutations.append(("setitem", k))
        key = k.z.get_id() if isinstance(k, Sym) else k
        self.overrides[key] = v
        cur().event("data_write", self, "setitem")

    def pyvc_setattr(self, I, name, value):
        if name == "index":
            self.mutations.append(("index", None))
            self.index_override = value
            cur().event("data_write", self, "index")
            return
        if name == "columns":
            self.mutations.append(("columns", None))
            cur().event("data_write", self, "columns")
            return
        raise Unsupported(f"DataFrame.{name} = ...")

    def drop(self, labels=None, axis=0, index=None, columns=None, inplace=False, **kw):
        if inplace:
            self.mutations.append(("drop", labels))
            cur().event("data_write", self, "drop")
            return None
        rows = index if index is not None else (labels if labels is not None and axis in (0, "index") and columns is None else None)
        if rows is not None:
            return self.derive(sel=_without_labels(self, rows))
        f = self.derive()
        return f

    def sel(self, i):
        return z3.And(self.space.inb(i), self._sel(i))

    def label(self, i):
        return self.space.label_fn(i)

    # ---- attribute protocol of a DataFrame: what the class defines, and - through DataFrame.__getattr__ - every column label
    def pyvc_hasattr(self, name):
        import pandas as pd

        return True if hasattr(pd.DataFrame, name) else self.has_col(name)

    def pyvc_missing_attr(self, I, name):
        import pandas as pd

        if name.startswith("_") or hasattr(pd.DataFrame, name):
            raise Unsupported(f"theory value FrameVal has no model for .{name}")
        if I.truth(self.has_col(name), f"a column is named {name!r}"):
            return self.pyvc_getitem(I, name)
        I.raise_py(AttributeError, f"'DataFrame' object has no attribute '{name}'")

    def derive(self, sel=None):
        f = FrameVal(self.space, self.col_fn, self.has_col, sel or self._sel, self.name)
        f.overrides = dict(self.overrides)
        f.index_override = self.index_override
        f.known_columns = getattr(self, "known_columns", None)
        return f

    @property
    def shape(self):
        """(rows, columns): only for a frame whose columns the contract fixed"""
        kc = getattr(self, "known_columns", None)
        if kc is None:
            raise Unsupported("DataFrame.shape of a frame with unknown columns")
        return (view_len(self), len(kc))

    def pyvc_contains(self, I, x):
        return self.has_col(x)

    def pyvc_getitem(self, I, k):
        if isinstance(k, SeriesVal):
            return self.derive(sel=lambda i: z3.And(self._sel(i), _zb(k.at(i))))
        if isinstance(k, (list, tuple)):
            # df[[labels]]: a NEW frame over the same rows; which columns it keeps is recorded (its cells are the frame's)
            r = self.derive()
            r.projected = list(k)
            return r
        key = k.z.get_id() if isinstance(k, Sym) else k
        if key in self.overrides:
            ov = self.overrides[key]
            return ov
        if not I.truth(self.has_col(k)):
            I.raise_py(KeyError, k)
        c = self.col_fn(k)
        r = c.derive(sel=self._sel)
        r.buffer_root = getattr(self, "buffer_root", None) or self  # a column taken out of a frame is a view of the frame's buffers
        return r

    def copy(self, deep=True):
        r = self.derive()
        if deep is False:
            r.buffer_root = getattr(self, "buffer_root", None) or self
        return r

    # ---- row-wise views used by the check back end ------------------------------------------------------
    def row_all_null(self, i):
        """z3: every column of row i is null (one uninterpreted predicate per frame: the contracts relate outputs to it, not to the cells)"""
        if getattr(self, "_row_all_null", None) is None:
            self._row_all_null = z3.Function(cur().fresh_name("row_all_null"), z3.IntSort(), z3.BoolSort())
        return self._row_all_null(i)

    def row_any_null(self, i):
        """z3: some column of row i is null (uninterpreted per frame; implied by row_all_null for a frame with a column)"""
        if getattr(self, "_row_any_null", None) is None:
            self._row_any_null = z3.Function(cur().fresh_name("row_any_null"), z3.IntSort(), z3.BoolSort())
            j = _i("j")
            cur().assume(SBool(z3.ForAll([j], z3.Implies(self.row_all_null(j), self._row_any_null(j)))))
        return self._row_any_null(i)

    def isna(self):
        return _FrameIsNa(self)

    def apply(self, fn, axis=0, **kw):
        """DataFrame.apply(fn, axis=1): fn over the rows - recorded, not evaluated (result[i] = fn(row i))"""
        if axis not in (1, "columns"):
            raise Unsupported("DataFrame.apply(axis=0)")
        r = SeriesVal.fresh("row_wise_output", "any", nullable=False, space=self.space).derive(sel=self._sel)
        r.row_map = (self, fn, axis)
        return r

    @property
    def empty(self):
        i = _i()
        return SBool(z3.Not(z3.Exists([i], self.sel(i))))

    def duplicated(self, subset=None, keep="first"):
        """DataFrame.duplicated(subset, keep): row i is marked iff another selected row (earlier / later / any, by `keep`) agrees with it
        on every column of `subset` (NaN equal to NaN)."""
        if subset is None:
            raise Unsupported("DataFrame.duplicated() over all columns of a frame with unknown columns")
        if not list(subset):
            # pandas: DataFrame.duplicated(subset=[]) -> ValueError("not enough values to unpack (expected 2, got 0)")
            cur().ghost["interp"].raise_py(ValueError, "not enough values to unpack (expected 2, got 0)")
        cols = [self.col_fn(c) for c in list(subset)]

        def at(i):
            j = _i("j")
            rel = {"first": j < i, "last": j > i, False: j != i}[keep]
            same = [z3.Or(z3.And(c.null(i), c.null(j)), z3.And(z3.Not(c.null(i)), z3.Not(c.null(j)), _zb(py_eq(c.at(i), c.at(j))))) for c in cols]
            return SBool(z3.Exists([j], z3.And(self.sel(j), rel, *same)))

        return SeriesVal(self.space, at, lambda i: z3.BoolVal(False), self._sel, kind="bool")

    def head(self, n=5):
        return self.derive(sel=lambda i: z3.And(self._sel(i), i < _term(n)))

    def tail(self, n=5):
        return self.derive(sel=lambda i: z3.And(self._sel(i), i >= self.space.n.z - _term(n)))

    def sample(self, n=None, random_state=None, **kw):
        rs = _term(random_state) if random_state is not None else z3.IntVal(-1)
        store = cur().ghost.setdefault("pick_fns", {})
        key = ("picked", self.space.name)
        if key not in store:
            store[key] = z3.Function(cur().fresh_name("picked"), z3.IntSort(), z3.IntSort(), z3.IntSort(), z3.BoolSort())
        picked = store[key]
        nn = _term(n)
        r = self.derive(sel=lambda i: z3.And(self._sel(i), picked(rs, nn, i)))
        r._unordered = True
        return r

    @property
    def index(self):
        return IndexVal(self)

    @property
    def loc(self):
        return _Loc(self)

    def pipe(self, f):
        return cur().ghost["interp"].call(f, [self])

    def pyvc_len(self):
        return view_len(self)

    def same_rows_as(self, other):
        i = _i()
        return SBool(z3.ForAll([i], self.sel(i) == other.sel(i)))


# --------------------------------------------------------------------------------------
# column labels of a frame (an Index of labels)
# --------------------------------------------------------------------------------------

label_truthy = z3.Function("label_truthy", L, z3.BoolSort())


class _FrameIsNa:
    """DataFrame.isna(): only its row-wise conjunction is modelled"""

    __pyvc_symbolic__ = True

    def __init__(self, frame):
        self.frame = frame

    def all(self, axis=0, **kw):
        if axis not in (1, "columns"):
            raise Unsupported("DataFrame.isna().all(axis=0)")
        f = self.frame
        return SeriesVal(f.space, lambda i: SBool(f.row_all_null(i)), lambda i: z3.BoolVal(False), f._sel, None, "bool", bool)

    def any(self, axis=0, **kw):
        if axis not in (1, "columns"):
            raise Unsupported("DataFrame.isna().any(axis=0)")
        f = self.frame
        return SeriesVal(f.space, lambda i: SBool(f.row_any_null(i)), lambda i: z3.BoolVal(False), f._sel, None, "bool", bool)


class ColumnsVal:
    """df.columns: a sequence of m labels lab(0..m-1), possibly with repeats; views by `csel`.
    Axioms: duplicated(keep=first)[j] <=> an earlier position carries the same label; any() is python truthiness of
    the selected labels (pandas Index.any()); len/empty by selection."""

    __pyvc_symbolic__ = True

    def __init__(self, name, m, lab, csel=None):
        self.name, self.m, self.lab = name, m, lab
        self._csel = csel or _always

    @classmethod
    def fresh(cls, name):
        m = core.sym_int(f"ncols({name})")
        cur().assume(m >= 0)
        core.register_model_var(f"ncols({name})", m.z)
        lf = z3.Function(cur().fresh_name(f"{name}_collabel"), z3.IntSort(), L)

        def proj(mod, m=m, lf=lf):
            try:
                k = mod.eval(m.z, model_completion=True).as_long()
            except Exception:
                return "?"
            return {"labels": [str(mod.eval(lf(z3.IntVal(j)), model_completion=True)) for j in range(min(k, 6))],
                    "truthy": [str(mod.eval(label_truthy(lf(z3.IntVal(j))), model_completion=True)) for j in range(min(k, 6))]}

        core.register_model_var(f"columns({name})", proj)
        return cls(name, m, lambda j: lf(j))

    def pyvc_class(self):
        import pandas as pd

        return pd.Index

    def csel(self, j):
        return z3.And(j >= 0, j < self.m.z, self._csel(j))

    def duplicated(self, keep="first"):
        def at(j):
            k = _i("k")
            rel = {"first": k < j, "last": k > j, False: k != j}[keep]
            return z3.Exists([k], z3.And(self.csel(k), rel, self.lab(k) == self.lab(j)))

        return _ColMask(self, at)

    @property
    def has_duplicates(self):
        a, b = _i("a"), _i("b")
        return SBool(z3.Exists([a, b], z3.And(self.csel(a), self.csel(b), a < b, self.lab(a) == self.lab(b))))

    @property
    def is_unique(self):
        return Not(self.has_duplicates)

    def pyvc_getitem(self, I, k):
        if isinstance(k, _ColMask):
            return ColumnsVal(self.name, self.m, self.lab, lambda j: z3.And(self._csel(j), k.at(j)))
        raise Unsupported("columns[...] with non-mask key")

    def any(self):
        j = _i("j")
        return SBool(z3.Exists([j], z3.And(self.csel(j), label_truthy(self.lab(j)))))

    @property
    def empty(self):
        j = _i("j")
        return SBool(z3.Not(z3.Exists([j], self.csel(j))))

    def pyvc_len(self):
        if self._csel is _always:
            return self.m
        c = core.sym_int("ncount")
        j = _i("j")
        cur().assume(z3.And(c.z >= 0, c.z <= self.m.z))
        cur().assume((c.z == 0) == z3.Not(z3.Exists([j], self.csel(j))))
        return c

    @property
    def shape(self):
        return (self.pyvc_len(),)

    def tolist(self):
        return SAny(name="labels")

    def contains_label(self, l):
        j = _i("j")
        return SBool(z3.Exists([j], z3.And(self.csel(j), self.lab(j) == _term(l))))

    def pyvc_contains(self, I, x):
        return self.contains_label(x)


class _ColMask:
    def __init__(self, cols, at):
        self.cols, self.at = cols, at

    def __invert__(self):
        return _ColMask(self.cols, lambda j: z3.Not(self.at(j)))

    def any(self):
        j = _i("j")
        return SBool(z3.Exists([j], z3.And(self.cols.csel(j), self.at(j))))


def _frame_columns(self):
    if getattr(self, "_columns", None) is None:
        self._columns = ColumnsVal.fresh(self.name)
    return self._columns


FrameVal.columns = property(_frame_columns)


# --------------------------------------------------------------------------------------
# the `.pandera` accessor every pandas DataFrame / Series carries (pandera.accessors.pandas_accessor)
# --------------------------------------------------------------------------------------


class AccessorVal:
    """obj.pandera: holds the schema the object was last validated against (`add_schema`).  pandas caches the accessor per OBJECT
    and does not carry it over to copies / derived frames, so a fresh object starts with `schema is None`; a pre-existing
    (caller's) object may carry no schema, the very schema object being validated now (ghost `validating_schema`), or another."""

    __pyvc_symbolic__ = True

    def __init__(self, owner):
        self.owner = owner
        self._schema = _UNSET

    @property
    def schema(self):
        if self._schema is _UNSET:
            if not getattr(self.owner, "pre", False):
                self._schema = None
            else:
                cand = cur().ghost.get("validating_schema")
                opts = [("None", None), ("another_schema", None)] + ([("this_schema", None)] if cand is not None else [])
                k = cur().choose(opts, f"{getattr(self.owner, 'name', 'obj')}.pandera.schema")
                self._schema = None if k == 0 else (SAny(name="another_schema") if k == 1 else cand)
        return self._schema

    def add_schema(self, schema):
        self._schema = schema
        cur().event("accessor_write", self.owner)
        return self.owner


_UNSET = object()


def _accessor(self):
    a = self.__dict__.get("_pandera_accessor")
    if a is None:
        a = AccessorVal(self)
        self.__dict__["_pandera_accessor"] = a
    return a


FrameVal.pandera = property(_accessor)
SeriesVal.pandera = property(_accessor)
FrameVal.pyvc_not_callable = SeriesVal.pyvc_not_callable = True  # (pandas objects define no __call__)
