"""pandas-infer: assumed contracts on the pandas / python operations that schema inference (C14) uses.

Everything here is a model of a *dependency* (pandas, numpy, builtins); nothing models pandera code.

Values
  * `ArrayVal` (a `pandas_lite.SeriesVal`): a Series / Index / MultiIndex level.  Its values are mathematical reals
    (numeric and datetime dtypes; nanoseconds for datetimes) or opaque values (everything else) plus a null bit.
    It carries the pandera DataType `pdtype` that describes it (what `_get_array_type` has to return - that leg is
    decided separately, see contracts/C14_inference.py GetArrayType) and, for categoricals, its category set.
  * `MultiIndexVal`: `nlevels >= 1` levels over one row space; `get_level_values(k)` is an `ArrayVal`.
  * `InferFrame`: a DataFrame with an unknown number of distinctly labelled columns over one row space.

Axioms (A-... names are referred to from notes/C14.md)
  A-minmax   x.min() / x.max() on an array with a non-null element: the result is attained by a selected non-null
             element and bounds every selected non-null element (nulls are skipped); for an unordered domain the
             result is an arbitrary opaque value.
  A-float    python float(v) of a real number is fl64(v) with fl64 monotone and idempotent (round-to-nearest is
             monotone; a float64 is its own rounding).  float() of an opaque (complex) numpy scalar returns some real
             (numpy discards the imaginary part with a warning).  No other floating-point fact is used.
  A-cat      every non-null element of a categorical array is one of `categories`; `categories` has no null.
  A-levels   MultiIndex.levels[k] holds no null; (used only by mutants) its relation to the rows is left open.
  A-columns  the column labels of a DataFrame are pairwise distinct (frames with duplicated labels are outside C14).
  A-strftime Timestamp.strftime(fmt) for a format made of %Y %m %d %H %M %S (and optionally %f) denotes the instant
             truncated to whole seconds (to microseconds with %f); pd.to_datetime(text, format=fmt) returns the
             instant the text denotes.  Truncation: trunc(t) <= t, and trunc(t) == t iff t is a multiple of the unit.
Engine additions (instance-level, additive, no edit of interp.py): dict comprehensions over a symbolic sequence whose
key is (a component of) the loop target become a lazily evaluated `CompDict`; `range(n)` with symbolic n is a
symbolic sequence; objects exposing `pyvc_symseq()` iterate as that sequence.
"""
from __future__ import annotations

import ast
import builtins

import z3

from .. import core
from ..core import (And, Iff, Implies, Not, Or, PyExc, SAny, SBool, SNum, Sym,
                    Unsupported, cur)
from ..heap import DictObj, ListObj
from ..values import SymDict, SymSeq
from . import pandas_lite as PL
from .pandas_lite import RowSpace, SeriesVal, SymSet

# --------------------------------------------------------------------------------------
# A-float
# --------------------------------------------------------------------------------------

FL64 = z3.Function("fl64", z3.RealSort(), z3.RealSort())


def fl(x):
    """float64 rounding of a real (z3 term or SNum) as a z3 term; installs A-float on the current path once"""
    p = cur()
    if not p.ghost.get("A-float"):
        p.ghost["A-float"] = True
        a, b = z3.Real("fl_a"), z3.Real("fl_b")
        p.assume(z3.ForAll([a, b], z3.Implies(a <= b, FL64(a) <= FL64(b)), patterns=[z3.MultiPattern(FL64(a), FL64(b))]))
        p.assume(z3.ForAll([a], FL64(FL64(a)) == FL64(a), patterns=[FL64(a)]))
    z = x.z if isinstance(x, SNum) else x
    if z.sort() == z3.IntSort():
        z = z3.ToReal(z)
    return FL64(z)


class NaNVal:
    """float('nan') produced by a reduction over no values"""

    __pyvc_symbolic__ = True


# --------------------------------------------------------------------------------------
# arrays
# --------------------------------------------------------------------------------------


def _raise_attr(name):
    I = cur().ghost["interp"]
    raise PyExc(I.make_exc(AttributeError, f"object has no attribute '{name}'"))


class CatValues(SymSet):
    """`categories` / `categories.tolist()`: the category set (membership predicate over opaque values)"""

    def tolist(self):
        return self


class _CatAcc:
    __pyvc_symbolic__ = True

    def __init__(self, arr):
        self.categories = arr.cat_values


class ArrayVal(SeriesVal):
    pdtype = None
    is_index = False
    cat_values = None
    compare_f64 = True

    @classmethod
    def make(cls, name, pdtype, domain, categorical=False, is_index=False, space=None, compare_f64=True, label="__fresh__"):
        """domain: 'real' (ordered: numeric, datetime) | 'any' (unordered / opaque)"""
        a = cls.fresh(name, domain, nullable=True, space=space)
        a.pdtype = pdtype
        a.is_index = is_index
        a.compare_f64 = compare_f64
        if label == "__fresh__":
            from .. import types as T

            label = T.fresh_value(T.Opt(T.Label), name + ".name")
        a.name = label
        if categorical:
            f = z3.Function(cur().fresh_name(name + "_iscat"), core.U, z3.BoolSort())
            a.cat_values = CatValues(lambda v, f=f: SBool(f(v.z)), name + ".categories")
            i = z3.Int(cur().fresh_name("ci"))
            cur().assume(z3.ForAll([i], z3.Implies(z3.And(a.sel(i), z3.Not(a.null(i))), f(a.at(i).z))))  # A-cat
        return a

    def pyvc_class(self):
        import pandas as pd

        return pd.Index if self.is_index else pd.Series

    # ---- reductions (A-minmax)
    def has_value(self):
        return Not(self.isna().all())

    def _extreme(self, which):
        p = cur()
        if not p.decide(self.has_value(), "array has a non-null element"):
            return NaNVal()
        if self.kind != "real":
            return SAny(name=f"{which}({self.base_name})")
        m = core.sym_real(f"{which}({self.base_name})")
        w = z3.Int(p.fresh_name(f"arg{which}"))
        core.register_model_var(f"{which}({self.base_name})", m.z)
        core.register_model_var(f"arg{which}({self.base_name})", w)
        p.assume(z3.And(self.sel(w), z3.Not(self.null(w)), self.at(w).z == m.z))
        i = z3.Int(p.fresh_name("mi"))
        rel = (m.z <= self.at(i).z) if which == "min" else (m.z >= self.at(i).z)
        p.assume(z3.ForAll([i], z3.Implies(z3.And(self.sel(i), z3.Not(self.null(i))), rel)))
        p.ghost.setdefault("extremes", {})[(id(self), which)] = (m, w)
        return m

    def min(self, *a, **k):
        return self._extreme("min")

    def max(self, *a, **k):
        return self._extreme("max")

    # ---- categorical accessors
    @property
    def cat(self):
        if self.is_index or self.cat_values is None:
            _raise_attr("cat")
        return _CatAcc(self)

    @property
    def categories(self):
        if not self.is_index or self.cat_values is None:
            _raise_attr("categories")
        return self.cat_values

    def get_level_values(self, k):
        return self

    @property
    def nlevels(self):
        return 1


class RangeIndexVal(ArrayVal):
    """pd.RangeIndex(start, stop, step): the labels start, start+step, ... strictly before stop; never a missing label.  `step` is a
    concrete non-zero integer (the callers split over a few), start / stop are arbitrary integers."""

    @classmethod
    def make_range(cls, name, pdtype, step, space=None):
        a = cls.make(name, pdtype, "real", is_index=True, space=space)
        p = cur()
        start, stop = core.sym_int(f"{name}.start"), core.sym_int(f"{name}.stop")
        for nm, v in (("start", start), ("stop", stop)):
            core.register_model_var(f"{name}.{nm}", v.z)
        core.register_model_var(f"{name}.step", lambda m, s=step: str(s))
        a.start, a.stop, a.step = start, stop, step
        n = a.space.n.z
        span = (stop.z - start.z) if step > 0 else (start.z - stop.z)
        k = abs(step)
        # len(range(start, stop, step)) == max(0, ceil(span / |step|))
        p.assume(SBool(n == z3.If(span > 0, (span + k - 1) / k, 0)))
        i = z3.Int(p.fresh_name("ri"))
        p.assume(SBool(z3.ForAll([i], z3.Implies(z3.And(i >= 0, i < n), z3.And(a.sel(i), z3.Not(a.null(i)), a.at(i).z == z3.ToReal(start.z + i * step))))))
        return a

    def pyvc_class(self):
        import pandas as pd

        return pd.RangeIndex


class MultiIndexVal:
    __pyvc_symbolic__ = True

    def __init__(self, name, space, level_factory):
        self.name = name
        self.space = space
        self.level_factory = level_factory
        n = core.sym_int(f"{name}.nlevels")
        cur().assume(n >= 1)
        core.register_model_var(f"{name}.nlevels", n.z)
        self._n = n
        self._levels = {}
        self.pre = True
        self.mutations = []

    def pyvc_class(self):
        import pandas as pd

        return pd.MultiIndex

    @property
    def nlevels(self):
        return self._n

    def level(self, k):
        key = k.z.get_id() if isinstance(k, Sym) else k
        if key not in self._levels:
            tag = k.z if isinstance(k, Sym) else k
            self._levels[key] = self.level_factory(f"{self.name}.level[{tag}]", self.space)
        return self._levels[key]

    def get_level_values(self, k):
        return self.level(k)

    @property
    def levels(self):
        # A-levels: the stored level values live in their own row space and hold no null
        def elem(i):
            tag = i.z if isinstance(i, Sym) else i
            lv = self.level(i)
            a = ArrayVal.make(f"{self.name}.levels[{tag}]", lv.pdtype, lv.kind, categorical=lv.cat_values is not None, is_index=True, label=lv.name)
            a._null = lambda r: z3.BoolVal(False)
            return a

        return SymSeq(f"{self.name}.levels", self._n, elem)


class _FrameNullAny:
    __pyvc_symbolic__ = True

    def __init__(self, frame):
        self.frame = frame

    def any(self, *a, **k):
        return self

    def pyvc_getitem(self, I, col):
        c = self.frame.col(col)
        return c.exists(lambda i: c.null(i))


class InferFrame:
    """DataFrame for inference: symbolic list of distinct column labels, one ArrayVal per label, an index"""

    __pyvc_symbolic__ = True

    def __init__(self, name, column_factory, index_factory):
        from .. import types as T

        n = core.sym_int(f"len({name})")
        cur().assume(n >= 0)
        core.register_model_var(f"len({name})", n.z)
        self.name = name
        self.space = RowSpace(name, n)
        self.columns = SymSeq.fresh(f"{name}.columns", T.Label)
        self.column_factory = column_factory
        self._cols = {}
        self._index = None
        self.index_factory = index_factory
        self.pre = True
        self.mutations = []
        cur().ghost.setdefault("data_objects", []).append(self)

    def pyvc_class(self):
        import pandas as pd

        return pd.DataFrame

    def pyvc_symseq(self):
        return self.columns

    def col(self, label):
        key = label.z.get_id() if isinstance(label, Sym) else label
        if key not in self._cols:
            self._cols[key] = self.column_factory(f"{self.name}[{getattr(label, 'z', label)}]", self.space)
        return self._cols[key]

    def pyvc_getitem(self, I, k):
        return self.col(k)

    def isna(self):
        return _FrameNullAny(self)

    isnull = isna

    @property
    def index(self):
        if self._index is None:
            self._index = self.index_factory(f"{self.name}.index", self.space)
        return self._index


# --------------------------------------------------------------------------------------
# timestamps and their text form (A-strftime)
# --------------------------------------------------------------------------------------

NS_PER_S = 1_000_000_000


def _unit_of(fmt):
    if not isinstance(fmt, str):
        raise Unsupported("strftime with a symbolic format")
    allowed = {"%Y", "%m", "%d", "%H", "%M", "%S", "%f"}
    fields = {fmt[i:i + 2] for i in range(len(fmt)) if fmt[i] == "%"}
    if not fields <= allowed or not {"%Y", "%m", "%d", "%H", "%M", "%S"} <= fields:
        raise Unsupported(f"strftime format {fmt!r} outside the modelled family")
    return 1000 if "%f" in fields else NS_PER_S


class TsVal:
    """a (naive) pandas Timestamp: integer nanoseconds since the epoch"""

    __pyvc_symbolic__ = True

    def __init__(self, ns: SNum):
        self.ns = ns

    @classmethod
    def fresh(cls, name):
        v = core.sym_int(name)
        core.register_model_var(name + " [ns]", v.z)
        return cls(v)

    def strftime(self, fmt):
        unit = _unit_of(fmt)
        t = core.sym_int("trunc")
        # A-strftime: t is self.ns truncated to a multiple of unit
        q = core.sym_int("q")
        cur().assume(z3.And(t.z == q.z * unit, t.z <= self.ns.z, self.ns.z < t.z + unit))
        return TsText(t, fmt)

    def __eq__(self, o):
        if isinstance(o, TsVal):
            return self.ns == o.ns
        return False

    __hash__ = object.__hash__


class TsText:
    """the text produced by strftime: denotes the instant `ns` when read back with the same format"""

    __pyvc_symbolic__ = True

    def __init__(self, ns, fmt):
        self.ns, self.fmt = ns, fmt

    def pyvc_class(self):
        return str


# --------------------------------------------------------------------------------------
# lazily evaluated dict comprehension over a symbolic sequence
# --------------------------------------------------------------------------------------


class CompDict(SymDict):
    """{key(x): value(x) for x in seq}: insertion ordered, value evaluated on demand for the generic element.
    Keys are taken to be pairwise distinct (A-columns) - the only comprehensions this is used for are keyed by
    column labels."""

    def __init__(self, name, n, key_at, value_at):
        self.name = name
        self.index_of = {}
        self._value_at = value_at
        self.vals = {}

        def key_elem(i):
            k = key_at(i)
            self.index_of[self._kid(k)] = i
            return k

        self.keys_seq = SymSeq(f"keys({name})", n, key_elem, pre=False)
        self.val_type = None

    @staticmethod
    def _kid(key):
        return key.z.get_id() if isinstance(key, Sym) else key

    def value_for(self, key):
        kid = self._kid(key)
        if kid not in self.vals:
            if kid not in self.index_of:
                raise Unsupported("lookup in a comprehension dict with a key that is not one of its generic keys")
            self.vals[kid] = self._value_at(self.index_of[kid])
        return self.vals[kid]

    def pyvc_getitem(self, I, k):
        return self.value_for(k)


def install(I):
    """engine additions (instance level) + models of builtins used by inference"""
    from ..interp import Frame, SymbolicComprehension

    PL.install(I)
    # stdlib_models keys its dict.fromkeys model by id() of a transient builtin-method object; that id can be reused by an
    # unrelated callable created later (observed: an abstract constructor).  Inference never calls dict.fromkeys: drop it.
    for key, f in list(I.models.items()):
        if getattr(f, "__name__", "") == "_fromkeys":
            del I.models[key]
    orig_symbolic_iter = I.symbolic_iter

    def symbolic_iter(it):
        if hasattr(it, "pyvc_symseq"):
            it = it.pyvc_symseq()
        return orig_symbolic_iter(it)

    I.symbolic_iter = symbolic_iter
    orig_dictcomp = I.e_DictComp

    def _key_component(key_expr, target):
        """the comprehension key is the loop target, or one component of a tuple target"""
        if not isinstance(key_expr, ast.Name):
            return False
        if isinstance(target, ast.Name):
            return target.id == key_expr.id
        if isinstance(target, ast.Tuple):
            return any(isinstance(t, ast.Name) and t.id == key_expr.id for t in target.elts)
        return False

    def e_DictComp(e, fr):
        try:
            return orig_dictcomp(e, fr)
        except SymbolicComprehension as sc:
            g = sc.gen
            if sc.index != 0 or len(e.generators) != 1 or g.ifs or not _key_component(e.key, g.target):
                raise Unsupported("dict comprehension over a symbolic sequence outside the supported form")
            seq, mapper = I.symbolic_iter(sc.it)

            def frame_at(i):
                cfr = Frame(fr.func, fr, set())
                cfr.self_obj = fr.self_obj
                I.assign(g.target, mapper(i, seq.at(i)), cfr)
                return cfr

            return CompDict(f"comp({seq.name})", seq.slen(), lambda i: I.eval(e.key, frame_at(i)), lambda i: I.eval(e.value, frame_at(i)))

    I.e_DictComp = e_DictComp

    stdlib_range = I.models[id(builtins.range)]

    def range_model(I_, *a):
        if len(a) == 1 and isinstance(a[0], SNum):
            return SymSeq("range", a[0], lambda i: i, pre=False)
        return stdlib_range(I_, *a)

    I.models[id(builtins.range)] = range_model

    def float_model(I_, v=0.0):
        if isinstance(v, SNum):
            return SNum(fl(v))
        if isinstance(v, NaNVal):
            return v
        if isinstance(v, SAny):
            return core.sym_real("float(opaque)")
        if isinstance(v, Sym) or getattr(v, "__pyvc_symbolic__", False):
            raise Unsupported(f"float() of {type(v).__name__}")
        try:
            return float(v)
        except (TypeError, ValueError) as ex:
            raise PyExc(I_.make_exc(type(ex), *ex.args))

    I.models[id(builtins.float)] = float_model

    import pandas as pd

    def to_datetime(I_, v, format=None, **kw):
        if isinstance(v, TsText):
            if format != v.fmt:
                raise Unsupported("to_datetime with a format other than the one the text was written with")
            return TsVal(v.ns)
        if isinstance(v, Sym) or getattr(v, "__pyvc_symbolic__", False):
            raise Unsupported(f"to_datetime({type(v).__name__})")
        try:
            return pd.to_datetime(v, format=format, **kw)
        except Exception as ex:
            raise PyExc(I_.make_exc(type(ex), *ex.args))

    I.models[id(pd.to_datetime)] = to_datetime
