"""Theory of hypothesis search strategies (assumed contracts on the dependency `hypothesis`), used by C13.

A strategy is modelled by an OVER-APPROXIMATION of the set of values it can emit, in *generative* form:

    StratVal.draw() -> (value, cond)      "for fresh draw variables d: the strategy may emit value(d) whenever cond(d)"

so a universally quantified statement about emitted values  `forall v in support(s). P(v)`  becomes the quantifier-free
obligation  `cond => P(value)`  over fresh constants.  A superset of the real support is sound for every obligation of
that shape (all C13 obligations are).  Operations:

    just(v)                 -> (v, True)
    sampled_from(S)         -> (x, x in S)                      x fresh
    from_dtype(dt, **kw)    -> (x, dom_dt(x) and bounds_kw(x))  per dtype.kind exactly as hypothesis.extra.numpy.from_dtype
                               forwards the keywords: kind i/u -> integers(min_value, max_value) (exclude_* IGNORED);
                               kind f -> floats(min_value, max_value, exclude_min, exclude_max, allow_nan, allow_infinity);
                               kind U -> text(min_size, max_size)
    text(min_size, max_size)-> (s, min_size <= len(s) <= max_size); InvalidArgument when min_size is not an int
    from_regex(p, fullmatch)-> (s, rx_fullmatch(p, s)) / (s, rx_search(p, s))      (uninterpreted relations)
    s.filter(f)             -> (v, c and truthy(f(v)))          f is INTERPRETED (partial / lambda / compiled regex method)
    s.map(f)                -> (f(v), c)                        f is INTERPRETED
    builds(f, s1..)         -> (f(v1..), c1 and ..)
    composite(f)(*a)        -> draw runs the interpreted body of f with draw(s) := s.draw() (conds conjoined)

`member` (optional) is a membership predicate; it exists for strategies that are *parameters* of the function under
contract (an uninterpreted predicate `sup(v)`), so that `support(result) <= support(parameter)` can be stated.

numpy scalar constructors (np.int64, np.float64, np.str_ ...) used as `.map(np_dtype.type)`:
    cast_int(x): integer valued, identity on integers;  cast_float(x) = x (S-int: floats are reals);  np.str_(s) = s.

pandas containers built by hypothesis.extra.pandas are records of the arguments that reached the assembly call
(`SeriesDraw`, `ColumnSpec`, `FrameDraw`): element source, size bounds, unique flag, name, dtype, null mask, conversions.
What hypothesis / numpy do with these arguments at run time is NOT modelled (bounded stand-in at container level).
"""
from __future__ import annotations

import re as _re

import z3

from .. import core
from ..core import (And, Implies, Not, Or, PyExc, SAny, SBool, SNum, SStr, Sym,
                    Unsupported, cur, py_eq)
from ..heap import DictObj, ListObj, Obj
from . import pandas_lite as PL


def interp():
    return cur().ghost["interp"]


def truthy(v):
    """python truthiness of a filter predicate's result, without forking"""
    if isinstance(v, bool):
        return v
    if v is None:
        return False
    if isinstance(v, Sym):
        return v.truth()
    if hasattr(v, "pyvc_truth"):
        return v.pyvc_truth()
    if isinstance(v, (int, float, str, tuple, list, dict)):
        return bool(v)
    raise Unsupported(f"truthiness of filter result {type(v).__name__}")


# --------------------------------------------------------------------------------------
# element domains
# --------------------------------------------------------------------------------------


def np_kind(np_dtype):
    return getattr(np_dtype, "kind", None)


def elem_sort_of_kind(kind):
    """'num' (z3 Real; ints are the integer-valued reals) or 'str'"""
    if kind in ("i", "u", "f"):
        return "num"
    if kind in ("U", "O", "T"):
        return "str"
    raise Unsupported(f"element domain of numpy kind {kind!r} is outside the C13 proof vocabulary")


def fresh_elem(sort, name="x"):
    if sort == "num":
        return core.sym_real(name)
    if sort == "str":
        return core.sym_str(name)
    raise Unsupported(sort)


def dom(kind, x):
    """x is a value of the numpy dtype kind (S-int: machine ranges are not modelled)"""
    if kind in ("i",):
        return SBool(z3.IsInt(x.z)) if isinstance(x, SNum) and not x.is_int else (True if isinstance(x, (SNum, int)) else False)
    if kind == "u":
        return And(dom("i", x), x >= 0)
    if kind == "f":
        return isinstance(x, (SNum, int, float))
    if kind in ("U", "O", "T"):
        return isinstance(x, (SStr, str))
    raise Unsupported(f"dom of kind {kind}")


_CAST = {}


def cast_to_kind(kind, x):
    """np_dtype.type(x) for a scalar x"""
    if kind == "f":
        if isinstance(x, (SNum, int, float)):
            return x
        raise Unsupported("float cast of non-number")
    if kind in ("i", "u"):
        if isinstance(x, int):
            return x
        if isinstance(x, float) and x == int(x):
            return int(x)
        if isinstance(x, (SNum, float)):
            if isinstance(x, SNum) and x.is_int:
                return x
            f = _CAST.setdefault(kind, z3.Function(f"np_cast_{kind}", z3.RealSort(), z3.RealSort()))
            xz = x.z if isinstance(x, SNum) else z3.RealVal(x)
            y = SNum(f(xz))
            p = cur()
            p.assume(SBool(z3.IsInt(y.z)))
            p.assume(SBool(z3.Implies(z3.IsInt(xz), y.z == xz)))
            if kind == "u":
                p.assume(y >= 0)
            return y
        raise Unsupported("int cast of non-number")
    if kind in ("U", "O", "T"):
        if isinstance(x, (SStr, str)):
            return x
        raise Unsupported("str cast of non-string")
    raise Unsupported(f"cast to kind {kind}")


# --------------------------------------------------------------------------------------
# strategies
# --------------------------------------------------------------------------------------


class StratVal:
    __pyvc_symbolic__ = True

    def __init__(self, draw, name="strategy", member=None, op=None, base=None, arg=None, info=None):
        self._draw = draw
        self.name = name
        self.member = member
        self.op = op  # provenance: 'filter' / 'map' / None
        self.base = base
        self.arg = arg
        self.info = info or {}

    # -- python protocol
    def pyvc_class(self):
        from hypothesis.strategies import SearchStrategy

        return SearchStrategy

    def __bool__(self):
        return True  # SearchStrategy objects are truthy (no __bool__/__len__)

    def pyvc_truth(self):
        return True

    def pyvc_deepcopy(self, I, memo):
        return self

    def draw(self):
        return self._draw()

    # -- combinators (signatures of hypothesis.strategies.SearchStrategy)
    def filter(self, condition):
        def d(base=self, condition=condition):
            v, c = base.draw()
            r = interp().call(condition, [v])
            return v, And(c, truthy(r))

        return StratVal(d, f"{self.name}.filter", op="filter", base=self, arg=condition)

    def map(self, pack):
        def d(base=self, pack=pack):
            v, c = base.draw()
            return interp().call(pack, [v]), c

        return StratVal(d, f"{self.name}.map", op="map", base=self, arg=pack)

    def example(self):
        v, c = self.draw()
        cur().assume(c)
        return v

    # -- helpers for contracts
    def chain(self):
        """[(op, arg), ...] from the root to this strategy"""
        out = []
        s = self
        while s is not None and s.op is not None:
            out.append((s.op, s.arg))
            s = s.base
        return list(reversed(out)), s

    @classmethod
    def parameter(cls, name, sort):
        """an arbitrary incoming strategy over `sort`: support = uninterpreted predicate"""
        zs = z3.RealSort() if sort == "num" else z3.StringSort()
        sup = z3.Function(cur().fresh_name(f"sup_{name}"), zs, z3.BoolSort())

        def member(v):
            return SBool(sup(PL._term(v) if not (isinstance(v, SNum) and v.is_int) else z3.ToReal(v.z)))

        def d():
            x = fresh_elem(sort, f"{name}_draw")
            return x, member(x)

        return cls(d, name, member=member)

    @classmethod
    def with_post(cls, name, sort, post):
        """a strategy known only through `forall v in support. post(v)`"""

        def d():
            x = fresh_elem(sort, f"{name}_draw")
            return x, post(x)

        return cls(d, name)


def _bounds(x, kw, honour_exclude):
    conj = []
    mn, mx = kw.get("min_value"), kw.get("max_value")
    if mn is not None:
        ex = kw.get("exclude_min") if honour_exclude else None
        conj.append(core.ite(ex, x > mn, x >= mn) if isinstance(ex, SBool) else (x > mn if ex else x >= mn))
    if mx is not None:
        ex = kw.get("exclude_max") if honour_exclude else None
        conj.append(core.ite(ex, x < mx, x <= mx) if isinstance(ex, SBool) else (x < mx if ex else x <= mx))
    return And(*conj) if conj else True


def invalid_argument(I, msg):
    from hypothesis.errors import InvalidArgument

    raise PyExc(I.make_exc(InvalidArgument, msg))


def from_dtype_model(I, dtype, **kw):
    kw = {k: v for k, v in kw.items() if v is not None}  # `kwargs = {... if v is not None}` in from_dtype
    kind = np_kind(dtype)
    if kind in ("i", "u"):
        # st.integers(**compat_kw(min_value=..., max_value=...)): only min_value / max_value are forwarded; bounds must be integers
        for b in ("min_value", "max_value"):
            v = kw.get(b)
            if isinstance(v, SNum) and not v.is_int:
                if not cur().decide(SBool(z3.IsInt(v.z)), f"{b} is an integer"):
                    invalid_argument(I, f"{b} cannot be exactly represented as an integer")
            elif isinstance(v, float) and v != int(v):
                invalid_argument(I, f"{b} cannot be exactly represented as an integer")

        def d():
            x = core.sym_real("int_draw")
            return x, And(dom(kind, x), _bounds(x, kw, honour_exclude=False))

        return StratVal(d, f"from_dtype({dtype})", info={"kind": kind})
    if kind == "f":
        # allow_nan / allow_infinity: pandera always passes False unless overridden; nan/inf are outside the real line
        def d():
            x = core.sym_real("float_draw")
            return x, _bounds(x, kw, honour_exclude=True)

        return StratVal(d, f"from_dtype({dtype})", info={"kind": kind})
    if kind in ("U", "T"):
        return text_model(I, **{k: v for k, v in kw.items() if k in ("min_size", "max_size")})
    raise Unsupported(f"from_dtype for numpy kind {kind!r} (outside the C13 proof vocabulary)")


def text_model(I, alphabet=None, *, min_size=0, max_size=None):
    if min_size is None or isinstance(min_size, (SStr, str)):
        invalid_argument(I, f"Expected int but got min_size={min_size!r}")

    def d():
        s = core.sym_str("text_draw")
        n = s.slen()
        conj = [n >= min_size]
        if max_size is not None:
            conj.append(n <= max_size)
        return s, And(*conj)

    return StratVal(d, "text", info={"kind": "U"})


def pat_term(p):
    """z3 String term of a pattern: str, SStr, or an f-string of those (Fmt parts)"""
    from ..values import Fmt

    if isinstance(p, Fmt):
        parts = [pat_term(x) for x in p.parts]
        return parts[0] if len(parts) == 1 else z3.Concat(*parts)
    if isinstance(p, (str, SStr)):
        return PL._term(p)
    raise Unsupported(f"regular expression pattern of type {type(p).__name__}")


RX_LITERAL = z3.Function("rx_literal", z3.StringSort(), z3.BoolSort())  # re.escape(s) == s : no metacharacter in s


def rx(kind, pat, s):
    r"""re.<kind>(pat, s) is not None, as the uninterpreted relation rx_<kind> shared with the C01 specs.

    Assumed facts about `re` (instantiated at the pair):  fullmatch => match => search;
    for a literal L (no metacharacter):  search(r"\A(?:L)", s) <=> s.startswith(L),  search(r"(?:L)\Z", s) <=> s.endswith(L)."""
    from ..values import Fmt

    PL.rx(kind, "", "")  # make sure the relation symbols exist
    for k in ("fullmatch", "match", "search"):
        PL.rx(k, "", "")
    pz, sz = pat_term(pat), PL._term(s)
    R = PL._RX
    p = cur()
    p.assume(SBool(z3.Implies(R["fullmatch"](pz, sz), R["match"](pz, sz))))
    p.assume(SBool(z3.Implies(R["match"](pz, sz), R["search"](pz, sz))))
    if getattr(pat, "parts", None) is not None and len(pat.parts) == 3 and isinstance(pat.parts[1], (SStr, str)):
        a, lit, b = pat.parts
        lz = PL._term(lit)
        premise = RX_LITERAL(lz)
        if getattr(lit, "escaped_of", None) is not None:  # re.escape(L) matches exactly the literal L
            lz, premise = PL._term(lit.escaped_of), z3.BoolVal(True)
        if a == "\\A(?:" and b == ")":
            p.assume(SBool(z3.Implies(premise, R["search"](pz, sz) == z3.PrefixOf(lz, sz))))
        if a == "(?:" and b == ")\\Z":
            p.assume(SBool(z3.Implies(premise, R["search"](pz, sz) == z3.SuffixOf(lz, sz))))
    return SBool(R[kind](pz, sz))


def from_regex_model(I, regex, *, fullmatch=False, alphabet=None):
    def d():
        s = core.sym_str("regex_draw")
        return s, rx("fullmatch" if fullmatch else "search", regex, s)

    return StratVal(d, "from_regex", info={"kind": "U"})


class RxPattern:
    """re.compile(pattern): .fullmatch / .search / .match as the uninterpreted relations"""

    __pyvc_symbolic__ = True

    def __init__(self, pattern):
        self.pattern = pattern

    def _m(self, kind):
        pat = self.pattern

        def f(s, *a):
            if not isinstance(s, (SStr, str)):
                interp().raise_py(TypeError, "expected string or bytes-like object")
            return rx(kind, pat, s)

        f.__module__ = "pyvc.theories.hypothesis_lite"
        return f

    @property
    def fullmatch(self):
        return self._m("fullmatch")

    @property
    def search(self):
        return self._m("search")

    @property
    def match(self):
        return self._m("match")


def install(I):
    import hypothesis.extra.numpy as npst
    import hypothesis.extra.pandas as pdst
    import hypothesis.internal.filtering as HF
    import hypothesis.strategies as st
    import numpy as np

    M = I.models

    M[id(st.just)] = lambda I, value: StratVal(lambda: (value, True), "just", info={"just": value})

    def sampled_from(I, elements):
        if isinstance(elements, PL.SymSet):
            sort = getattr(elements, "sort", "num")

            def d():
                x = fresh_elem(sort, "sample")
                return x, elements.member(x)

            return StratVal(d, "sampled_from", info={"sampled_from": elements})
        items = list(I.concrete_iter(elements))
        if not items:
            invalid_argument(I, "Cannot sample from a length-zero sequence")

        def d():
            k = cur().choose([(f"#{i}", None) for i in range(len(items))], "sampled_from")
            return items[k], True

        return StratVal(d, "sampled_from")

    M[id(st.sampled_from)] = sampled_from
    M[id(st.text)] = text_model
    M[id(st.from_regex)] = from_regex_model
    M[id(npst.from_dtype)] = from_dtype_model

    def booleans(I):
        return StratVal(lambda: (core.sym_bool("bool_draw"), True), "booleans")

    M[id(st.booleans)] = booleans

    def integers(I, min_value=None, max_value=None):
        def d():
            x = core.sym_int("int_draw")
            return x, _bounds(x, {"min_value": min_value, "max_value": max_value}, False)

        return StratVal(d, "integers")

    M[id(st.integers)] = integers

    def builds(I, target, *args, **kwargs):
        def d():
            vs, cs = [], []
            for a in args:
                v, c = a.draw()
                vs.append(v)
                cs.append(c)
            kv = {}
            for k, a in kwargs.items():
                v, c = a.draw()
                kv[k] = v
                cs.append(c)
            return I.call(target, vs, kv), And(*cs) if cs else True

        return StratVal(d, "builds")

    M[id(st.builds)] = builds

    # hypothesis.internal.filtering.min_len / max_len:  size <= len(element)  /  len(element) <= size
    def _len(element):
        if isinstance(element, SStr):
            return element.slen()
        if isinstance(element, str):
            return len(element)
        I.raise_py(TypeError, f"object of type '{type(element).__name__}' has no len()")

    def min_len(I, size, element):
        n = _len(element)
        if size is None:
            I.raise_py(TypeError, "'<=' not supported between instances of 'NoneType' and 'int'")
        return size <= n

    def max_len(I, size, element):
        n = _len(element)
        if size is None:
            I.raise_py(TypeError, "'<=' not supported between instances of 'int' and 'NoneType'")
        return n <= size

    M[id(HF.min_len)] = min_len
    M[id(HF.max_len)] = max_len

    def re_compile(I, pattern, flags=0):
        if isinstance(pattern, str):
            try:
                _re.compile(pattern, flags)
            except _re.error as e:
                raise PyExc(I.make_exc(_re.error, *e.args))
        return RxPattern(pattern)

    M[id(_re.compile)] = re_compile

    RX_ESCAPE = z3.Function("rx_escape", z3.StringSort(), z3.StringSort())

    def re_escape(I, pattern):
        if isinstance(pattern, str):
            return _re.escape(pattern)
        if isinstance(pattern, SStr):
            e = SStr(RX_ESCAPE(pattern.z))
            e.escaped_of = pattern
            return e
        I.raise_py(TypeError, "expected str")

    M[id(_re.escape)] = re_escape

    # numpy scalar constructors used as `.map(np_dtype.type)`
    for t in (np.int8, np.int16, np.int32, np.int64):
        M[id(t)] = lambda I, x: cast_to_kind("i", x)
    for t in (np.uint8, np.uint16, np.uint32, np.uint64):
        M[id(t)] = lambda I, x: cast_to_kind("u", x)
    for t in (np.float16, np.float32, np.float64):
        M[id(t)] = lambda I, x: cast_to_kind("f", x)
    M[id(np.str_)] = lambda I, x: cast_to_kind("U", x)

    # composite: the decorated function's body is interpreted with draw(s) := s.draw()
    M[id(st.composite)] = lambda I, f: CompositeFn(f)
    install_containers(I)


class CompositeFn:
    """hypothesis.strategies.composite(f): calling it yields a strategy whose draw interprets f(draw, *args)"""

    __pyvc_symbolic__ = True

    def __init__(self, f):
        self.f = f
        self.__name__ = getattr(f, "__name__", "composite")

    def __call__(self, *args, **kwargs):
        f = self.f

        def d():
            conds = []

            def draw(s, label=None):
                if not isinstance(s, StratVal):
                    raise Unsupported(f"draw() of {type(s).__name__}")
                v, c = s.draw()
                conds.append(c)
                return v

            draw.__module__ = "pyvc.theories.hypothesis_lite"
            v = interp().call(f, [draw] + list(args), dict(kwargs))
            return v, And(*conds) if conds else True

        return StratVal(d, f"composite:{self.__name__}", op="composite", arg=(self, args, kwargs))


def composite_inner(fn):
    """the user function wrapped by hypothesis.strategies.composite (found through closure cells)"""
    import types as pytypes

    seen, todo = set(), [fn]
    while todo:
        g = todo.pop()
        if id(g) in seen or not isinstance(g, pytypes.FunctionType):
            continue
        seen.add(id(g))
        argnames = g.__code__.co_varnames[: g.__code__.co_argcount]
        if argnames[:1] == ("draw",):
            return g
        if getattr(g, "__wrapped__", None) is not None:
            todo.append(g.__wrapped__)
        for cell in g.__closure__ or ():
            try:
                todo.append(cell.cell_contents)
            except ValueError:
                pass
    raise Unsupported(f"no composite body found for {fn!r}")


def install_composite_function(I, fn):
    """a module-level @composite function of pandera: interpret its live body"""
    inner = composite_inner(fn)
    I.models[id(fn)] = lambda I, *a, **k: CompositeFn(inner)(*a, **k)
    return inner


# --------------------------------------------------------------------------------------
# hypothesis.extra.pandas: records of what reached the assembly call
# --------------------------------------------------------------------------------------


class RangeIndexSpec:
    __pyvc_symbolic__ = True

    def __init__(self, min_size=0, max_size=None, name=None):
        self.min_size, self.max_size, self.name = min_size, max_size, name


class ColumnSpec:
    """hypothesis.extra.pandas.column(name, elements, dtype, fill, unique)"""

    __pyvc_symbolic__ = True

    def __init__(self, name=None, elements=None, dtype=None, fill=None, unique=False):
        self.name, self.elements, self.dtype, self.fill, self.unique = name, elements, dtype, fill, unique


class SeriesDraw:
    """one drawn pandas Series / Index: the arguments of the assembly call plus what was done to it afterwards"""

    __pyvc_symbolic__ = True

    def __init__(self, container, elements, dtype, n, unique, name=None, steps=(), may_null=False, call=None):
        self.container = container  # "series" | "index"
        self.elements = elements
        self.np_dtype = dtype
        self.n = n
        self.unique = unique
        self.name = name
        self.steps = tuple(steps)  # ("astype", t), ("map", f), ("mask",), ("rename", name), ("to_frame",)
        self.may_null = may_null
        self.call = call

    def _with(self, **kw):
        d = dict(container=self.container, elements=self.elements, dtype=self.np_dtype, n=self.n, unique=self.unique, name=self.name,
                 steps=self.steps, may_null=self.may_null, call=self.call)
        d.update(kw)
        return SeriesDraw(**d)

    def pyvc_class(self):
        import pandas as pd

        return pd.Series if self.container == "series" else pd.Index

    @property
    def shape(self):
        return (self.n,)

    @property
    def dtype(self):
        last = [s[1] for s in self.steps if s[0] == "astype"]
        return last[-1] if last else self.np_dtype

    def rename(self, name):
        return self._with(name=name, steps=self.steps + (("rename", name),))

    def astype(self, t):
        return self._with(steps=self.steps + (("astype", t),))

    def map(self, f):
        return self._with(steps=self.steps + (("map", f),))

    def mask(self, cond, other=None):
        return self._with(may_null=True, steps=self.steps + (("mask",),))

    def to_series(self):
        return self._with(container="series", steps=self.steps + (("to_series",),))

    def to_frame(self):
        return self._with(steps=self.steps + (("to_frame",),))

    def pyvc_len(self):
        return self.n


def _size_var(min_size, max_size, name="n"):
    n = core.sym_int(name)
    cs = [n >= (0 if min_size is None else min_size)]
    if max_size is not None:
        cs.append(n <= max_size)
    return n, And(*cs)


def install_containers(I):
    import hypothesis.extra.pandas as pdst
    import pandas as pd

    M = I.models
    M[id(pdst.range_indexes)] = lambda I, min_size=0, max_size=None, name=None: RangeIndexSpec(min_size, max_size, name)
    M[id(pdst.column)] = lambda I, name=None, elements=None, dtype=None, fill=None, unique=False: ColumnSpec(name, elements, dtype, fill, unique)

    def series(I, *, elements=None, dtype=None, index=None, fill=None, unique=False, name=None):
        call = dict(elements=elements, dtype=dtype, index=index, fill=fill, unique=unique, name=name)
        cur().ghost.setdefault("pdst_calls", []).append(("series", call))

        def d():
            if isinstance(index, RangeIndexSpec):
                n, c = _size_var(index.min_size, index.max_size)
            else:
                n, c = _size_var(0, None)
            return SeriesDraw("series", elements, dtype, n, unique, name=name, call=call), c

        return StratVal(d, "pdst.series", info={"call": call})

    M[id(pdst.series)] = series

    def indexes(I, *, elements=None, dtype=None, min_size=0, max_size=None, unique=True, name=None):
        call = dict(elements=elements, dtype=dtype, min_size=min_size, max_size=max_size, unique=unique, name=name)
        cur().ghost.setdefault("pdst_calls", []).append(("indexes", call))

        def d():
            n, c = _size_var(min_size, max_size)
            return SeriesDraw("index", elements, dtype, n, unique, name=name, call=call), c

        return StratVal(d, "pdst.indexes", info={"call": call})

    M[id(pdst.indexes)] = indexes

    def pd_index(I, data=None, *a, **k):
        if isinstance(data, SeriesDraw):
            return data._with(container="index", steps=data.steps + (("pd.Index",),))
        raise Unsupported("pd.Index of non-theory value")

    M[id(pd.Index)] = pd_index

    def is_td(I, v):
        if isinstance(v, SeriesDraw):
            d = v.dtype
            return bool(pd.api.types.is_timedelta64_dtype(d)) if not isinstance(d, Sym) else False
        return pd.api.types.is_timedelta64_dtype(v)

    M[id(pd.api.types.is_timedelta64_dtype)] = is_td

    def lists(I, elements, *, min_size=0, max_size=None, unique_by=None, unique=False):
        def d():
            n, c = _size_var(min_size, max_size, "len")
            return ListDraw(elements, n, unique), c

        return StratVal(d, "lists")

    import hypothesis.strategies as st

    M[id(st.lists)] = lists


class ListDraw:
    __pyvc_symbolic__ = True

    def __init__(self, elements, n, unique):
        self.elements, self.n, self.unique = elements, n, unique

    def pyvc_len(self):
        return self.n
