"""Contracts (sidecar) and their verification against the live function bodies."""
from __future__ import annotations

import importlib
import inspect
import time
import traceback
import types as pytypes
from typing import Any, Dict, List, Optional

import z3

from . import core
from . import types as T
from .core import (Explorer, ObRecord, PathAbort, PyExc, SBool, Sym,
                   Unsupported, cur)
from .heap import MISSING, Obj
from .interp import LOADER, Interp, OtherException, _conj_items


def resolve_target(spec: str):
    """'pkg.mod:Class.method' (+ optional '.__wrapped__' / '<cell:name>' steps) -> live function"""
    modname, qual = spec.split(":")
    obj = importlib.import_module(modname)
    for part in qual.split("."):
        if part.startswith("<cell:"):
            name = part[6:-1]
            fn = obj
            cells = dict(zip(fn.__code__.co_freevars, fn.__closure__ or ()))
            obj = cells[name].cell_contents
        elif part == "<unwrap>":  # through functools.wraps / lru_cache layers, whatever their number (possibly none)
            import inspect

            obj = inspect.unwrap(obj)
        elif part.startswith("<const:"):
            # nested function code object cannot be instantiated without running the outer: unsupported here
            raise Unsupported("nested def targets are reached by verifying the enclosing function")
        else:
            if isinstance(obj, type) and part in obj.__dict__:
                obj = obj.__dict__[part]
                if isinstance(obj, (staticmethod, classmethod)):
                    obj = obj.__func__
                elif isinstance(obj, property):
                    obj = obj.fget
            else:
                obj = getattr(obj, part)
    return obj


class LoopSpec:
    def __init__(self, invariant=None, havoc=None, keep=(), heap_unchanged=True):
        self.invariant = invariant  # fn(interp, frame, k, phase) -> bool / dict name->bool
        self.havoc = havoc or {}  # local name -> fn(interp, frame, k, old_value) -> new value
        self.keep = set(keep)  # local names NOT havocked although mentioned (proved untouched otherwise)
        self.heap_unchanged = heap_unchanged


class Old:
    """old(...) access for postconditions: values at entry."""

    def __init__(self, args, globals0):
        self.args = args
        self.globals0 = globals0

    def attr(self, obj: Obj, name):
        if name in obj.attrs0:
            return obj.attrs0[name]
        if name in obj.attrs and name not in obj.writes:
            return obj.attrs[name]
        return MISSING


class Contract:
    """Base class of sidecar contracts.  Subclass and override."""

    target: str = ""
    prop: str = ""  # property id this contract serves (Cxx)
    params: Dict[str, Any] = {}
    result: Any = None  # type of the result when the contract is *applied* at a call site
    sym_globals: Dict[str, Any] = {}  # "module:name" -> type
    raises: tuple = ()  # exception classes allowed to escape
    check_frame: bool = True  # pre-existing objects unchanged on every exit, except `modifies`
    strict_frame: bool = False  # C07: NO write at all (not even a restored one) to pre-existing objects / module globals
    use_contracts: tuple = ()  # contracts applied at call sites instead of inlining
    no_inline: tuple = ()  # live functions that must not be inlined (become opaque)
    opaque: tuple = ()  # "module:qualname" of functions replaced by an opaque total function (assumed, listed)
    loops: Dict[int, LoopSpec] = {}
    callback_raises = None
    opaque_may_raise = False
    timeout_ms = None
    max_paths = 4000
    known_ok_unsupported = False
    split: Dict[str, list] = {}  # parameter name -> values; one verification job per combination (case split, run in parallel)
    fixed: Dict[str, Any] = {}

    # ---- to override
    def setup(self, I: Interp):
        """install extra models etc."""

    def make_args(self) -> Dict[str, Any]:
        return {k: (self.fixed[k] if k in self.fixed else T.fresh_value(t, k)) for k, t in self.params.items()}

    def arg(self, name, t):
        """value of a (possibly case-split) parameter inside a custom make_args"""
        if name in self.fixed:
            core.register_model_var(name, lambda m, v=self.fixed[name]: repr(v))
            return self.fixed[name]
        return T.fresh_value(t, name)

    def requires(self, **a):
        return True

    def ensures(self, result, old, **a):
        return {}

    def on_raise(self, exc, old, **a):
        return {}

    def modifies(self, **a):
        """list of (obj, attr) pairs allowed to differ from their entry value at exit"""
        return []

    def allowed_exception(self, exc: Obj, **a):
        return any(_exc_is(exc, c) for c in self.raises)

    def call_target(self, I: Interp, fn, args: Dict[str, Any]):
        return I.call(fn, [], dict(args))

    # ---- applying at call sites (modular use) ---------------------------------------------
    def apply(self, I: Interp, args: list, kwargs: dict):
        fn = resolve_target(self.target)
        sig = inspect.signature(fn)
        try:
            ba = sig.bind(*args, **kwargs)
        except TypeError as e:
            I.raise_py(TypeError, str(e))
        ba.apply_defaults()
        a = dict(ba.arguments)
        p = cur()
        n = I.callsite_counter.get(self.name(), 0)
        I.callsite_counter[self.name()] = n + 1
        pre = self.requires(**_kw(a))
        for cname, g in _conj_items(pre):
            p.check(g, f"{I.target_qualname}/pre@{self.name()}.{cname}")
        return self.havoc_outcome(I, a)

    def havoc_outcome(self, I, a):
        p = cur()
        classes = list(self.raises)
        opts = [("ret", None)] + [(c.__name__, None) for c in classes]
        k = p.choose(opts, f"call {self.name()}") if classes else 0
        old = Old(a, {})
        if k == 0:
            res = T.fresh_value(self.result, f"ret_{self.name()}") if self.result is not None else None
            post = self.ensures(res, old, **_kw(a))
            for _, g in _conj_items(post):
                p.assume(g)
            return res
        exc = I.make_exc(classes[k - 1])
        self.shape_exception(I, exc, a)
        for _, g in _conj_items(self.on_raise(exc, old, **_kw(a))):
            p.assume(g)
        raise PyExc(exc)

    def shape_exception(self, I, exc, a):
        """give the raised exception the fields callers read (symbolic)"""

    def name(self):
        return type(self).__name__


def _kw(args):
    """the target's `self` parameter is passed to contract methods as `self_`"""
    if "self" in args:
        args = dict(args)
        args["self_"] = args.pop("self")
    return args


def _exc_is(exc: Obj, c):
    if exc.cls is OtherException:
        return c in (Exception, BaseException, OtherException)
    return isinstance(exc.cls, type) and issubclass(exc.cls, c)


class Lemma:
    """A property-level consequence proved from contracts / specs alone (no code)."""

    prop = ""
    params: Dict[str, Any] = {}

    def statement(self, **a):
        return {}

    def setup(self, I):
        pass

    def name(self):
        return type(self).__name__


# --------------------------------------------------------------------------------------
# verification of one contract
# --------------------------------------------------------------------------------------


def verify_contract(c: Contract, registry: Dict[str, Contract], timeout_ms=core.QUICK_MS) -> dict:
    t0 = time.time()
    core.STATS.update({"z3_queries": 0, "z3_time": 0.0, "cvc5_queries": 0, "cvc5_time": 0.0, "feas_queries": 0})
    out: Dict[str, Any] = {
        "contract": c.name(), "target": c.target, "prop": c.prop, "status": "ok", "records": [],
        "paths": 0, "unsupported": None,
    }
    try:
        try:
            fn = resolve_target(c.target)
        except (AttributeError, ImportError) as e:
            # the function under contract does not exist in this shape (renamed, rewritten as a class, moved): its obligations cannot be
            # generated from this tree - undecided (the contract's bounded stand-in, if it has one, still runs on the real code)
            raise Unsupported(f"target {c.target} not found in this tree: {type(e).__name__}: {e}")
        I = Interp()
        I.target_qualname = c.target
        I.callback_raise_classes = c.callback_raises
        I.opaque_may_raise = c.opaque_may_raise
        for key, t in {**default_sym_globals(), **c.sym_globals}.items():
            m, n = key.split(":")
            I.sym_globals[(m, n)] = t
        for cname in c.use_contracts:
            cc = registry[cname] if isinstance(cname, str) else cname
            I.contracts[id(resolve_target(cc.target))] = cc
        for f in c.opaque:
            live = resolve_target(f)
            I.models[id(live)] = (lambda nm: (lambda I, *a, **k: _opaque_result(I, nm)))(f)
        for f in c.no_inline:
            I.no_inline.add(id(resolve_target(f) if isinstance(f, str) else f))
        clo = LOADER.closure_of(fn) if isinstance(fn, pytypes.FunctionType) else None
        if clo is None:
            raise Unsupported(f"target {c.target} is not a python function")
        for ordinal, ls in c.loops.items():
            I.loop_specs[(clo.qualname, ordinal)] = ls
        c.setup(I)
        out["source_sha"] = LOADER.hashes[clo.qualname]
        ex = Explorer(timeout_ms=c.timeout_ms or timeout_ms, max_paths=c.max_paths)
        covers = {"requires_sat": False, "normal_exit": 0, "exc_exit": 0}

        def body(p):
            try:
                return body_(p)
            finally:
                from .interp import restore_live_shared

                restore_live_shared(p)

        def body_(p):
            p.ghost["interp"] = I
            args = c.make_args()
            pre = c.requires(**_kw(args))
            for _, g in _conj_items(pre):
                p.assume(g)
            covers["requires_sat"] = True
            old = Old(args, p.ghost.get("globals0", {}))
            try:
                res = c.call_target(I, clo, args)
                outcome = ("ret", res)
            except PyExc as e:
                outcome = ("raise", e.obj)
            old.globals0 = p.ghost.get("globals0", {})
            p.ghost["old"] = old
            if outcome[0] == "ret":
                covers["normal_exit"] += 1
                for name, g in _conj_items(c.ensures(outcome[1], old, **_kw(args))):
                    p.check(g, f"{c.target}/post.{name}")
            else:
                covers["exc_exit"] += 1
                exc = outcome[1]
                allowed = c.allowed_exception(exc, **_kw(args))
                note = f"escaping {exc.cls.__name__}{_short(exc.attrs.get('args', ()))}"
                p.check(allowed, f"{c.target}/exit.only_documented_exceptions", note=note)
                for name, g in _conj_items(c.on_raise(exc, old, **_kw(args))):
                    p.check(g, f"{c.target}/exit.{name}")
            if c.check_frame:
                check_frame(c, I, p, args)
            if c.strict_frame:
                check_strict_frame(c, I, p, args)

        ex.run(body)
        out["paths"] = ex.paths_run
        out["paths_completed"] = ex.paths_completed
        out["covers"] = covers
        out["records"] = [r.__dict__ for r in ex.records]
        out["opaque_calls"] = dict(I.opaque_calls)
        out["inlined"] = dict(I.inlined)
        if not ex.records:
            out["status"] = "no-obligations"
    except Unsupported as e:
        out["status"] = "unsupported"
        out["unsupported"] = str(e)
        out["trace"] = traceback.format_exc()[-1500:]
    except z3.Z3Exception as e:  # an ill-sorted term: the code left the encodable subset
        out["status"] = "unsupported"
        out["unsupported"] = f"encoding error (Z3Exception: {e})"
        out["trace"] = traceback.format_exc()[-1500:]
    except Exception as e:  # checker bug: never a violation
        out["status"] = "checker-error"
        out["unsupported"] = f"{type(e).__name__}: {e}"
        out["trace"] = traceback.format_exc()[-3000:]
    if out["status"] == "unsupported" and hasattr(c, "bounded_standin"):
        # DESIGN 6.2: the function left the subset -> same contract checked at run time on the real function
        try:
            res = c.bounded_standin(seed=int(__import__("os").environ.get("VERIF_SEED", "0")), tier=__import__("os").environ.get("VERIF_TIER", "quick"))
            out["bounded_standin"] = res
        except Exception as e:
            out["bounded_standin"] = {"error": f"{type(e).__name__}: {e}"}
    out["stats"] = dict(core.STATS)
    out["wall_s"] = time.time() - t0
    return out


def default_sym_globals():
    """module-level mutable state of pandera that any function may read: always symbolic (never the live object)"""
    from pandera.config import PanderaConfig, ValidationDepth

    def cfg():
        return T.Ref(PanderaConfig, strict=True, validation_enabled=T.Bool, validation_depth=T.Opt(T.EnumOf(ValidationDepth)),
                     cache_dataframe=T.Bool, keep_cached_dataframe=T.Bool)

    return {"pandera.config:_CONTEXT_CONFIG": cfg(), "pandera.config:CONFIG": cfg()}


def _opaque_result(I, name):
    I.opaque_calls[name] = I.opaque_calls.get(name, 0) + 1
    return core.SAny(name="ret_" + name.rsplit(":", 1)[-1].rsplit(".", 1)[-1])


def _short(x):
    s = repr(x)
    return s if len(s) < 80 else s[:77] + "..."


def freeze_heap(p):
    """Two-phase frame: everything allocated on this path SO FAR (e.g. by a decorator factory: closure state, handlers, caches)
    becomes pre-existing state from here on - its current attribute values / container contents are the `old` values that the
    frame obligations compare against at the exit.  Used by contracts whose target is `factory(...)(call)`: what the factory built
    must be the same after the call as before it (no state carried from one call to the next)."""
    from .heap import DictObj, ListObj

    seen = set()

    def walk(v):
        if id(v) in seen:
            return
        seen.add(id(v))
        if isinstance(v, (ListObj, DictObj)):
            v.pre = True
            for x in (v.values() if isinstance(v, dict) else v):
                walk(x)
        elif isinstance(v, Obj):
            for x in list(v.attrs.values()):
                walk(x)

    for o in list(p.objects):
        o.pre = True
        o.attrs0 = dict(o.attrs)
        o.writes = []
        walk(o)
    from .interp import _FRAME_SEQ

    # ... and so do the closure variables of the activations that ran so far (the factory's own locals, captured by what it returned)
    p.ghost["frame_seq_at_freeze"] = _FRAME_SEQ[0]
    p.ghost.pop("closure_writes", None)


def check_frame(c: Contract, I: Interp, p, args):
    """Every attribute of every pre-existing object equals its entry value (except `modifies`)."""
    allowed = set()
    for o, a in c.modifies(**_kw(args)):
        allowed.add((o, a) if isinstance(o, str) else (id(o), a))
    oid = f"{c.target}/frame.preexisting_objects_unchanged"
    any_write = False
    frozen = p.ghost.get("frame_seq_at_freeze")
    if frozen is not None:
        for f, name, v0 in p.ghost.get("closure_writes", {}).values():
            if f.seq > frozen:
                continue  # an activation of this very call
            any_write = True
            v1 = f.locals.get(name, MISSING)
            p.check(v1 is v0, oid, note=f"closure variable `{name}` of {getattr(f.func, '__name__', '?')} (shared by every later call) " + ("restored" if v1 is v0 else "rebound"))
    for o in list(p.objects):
        if not o.pre:
            continue
        for a in sorted(set(o.writes)):
            if (id(o), a) in allowed or a.startswith("__"):
                continue
            any_write = True
            v0 = o.attrs0.get(a, MISSING)
            v1 = o.attrs.get(a, MISSING)
            if v1 is v0:
                p.check(True, oid, note=f"{o.name}.{a} restored")
            elif v1 is MISSING or v0 is MISSING or isinstance(v1, Obj) or isinstance(v0, Obj):
                p.check(False, oid, note=f"{o.name}.{a} changed")
            else:
                eq = core.py_eq(v1, v0)
                p.check(eq if isinstance(eq, (bool, SBool)) else False, oid, note=f"{o.name}.{a}")
    # module globals declared symbolic
    g0 = p.ghost.get("globals0", {})
    for key, v0 in g0.items():
        if ("global", key) in allowed:
            continue
        v1 = p.globals_state.get(key)
        if v1 is v0:
            continue
        any_write = True
        eqs = I_value_equal(I, v1, v0)
        p.check(eqs, f"{c.target}/frame.global_restored", note=f"{key[0]}.{key[1]}")
    for cid, (cont, snap) in p.ghost.get("container0", {}).items():
        if ("container", cid) in allowed:
            continue
        any_write = True
        same = (dict(cont) == snap) if isinstance(cont, dict) else (list(cont) == snap)
        p.check(bool(same), oid, note=f"container {getattr(cont, 'name', '?')} changed")
    for d in p.ghost.get("data_objects", []):
        if getattr(d, "pre", False) and d.mutations and (id(d), "data") not in allowed:
            any_write = True
            p.check(False, f"{c.target}/frame.callers_data_unchanged", note=f"{getattr(d, 'base_name', getattr(d, 'name', 'data'))} mutated in place: {d.mutations[:3]}")
    if p.ghost.get("data_objects"):
        p.check(True, f"{c.target}/frame.callers_data_unchanged", note="no in-place write to a caller-owned data object on this path") if not any(
            getattr(d, "pre", False) and d.mutations and (id(d), "data") not in allowed for d in p.ghost["data_objects"]) else None
    if not any_write:
        p.check(True, oid, note="no write to a pre-existing object on this path")


def check_strict_frame(c: Contract, I: Interp, p, args):
    """data-race freedom on pandera state (sufficient condition for C07): the function performs no write to an object
    that another thread can reach - pre-existing schema objects, module globals - not even a write it later reverts."""
    oid = f"{c.target}/strict_frame.no_write_to_shared_state"
    allowed = set()
    for o, a in c.modifies(**_kw(args)):
        if not isinstance(o, str) and a == "data":
            allowed.add(id(o))
    seen = set()
    bad = False
    for ev in p.events:
        if ev[0] == "write" and ev[1].pre and not ev[2].startswith("__") and id(ev[1]) not in allowed:
            if len(ev) > 3 and ev[2] in ev[1].attrs0 and ev[3] is ev[1].attrs0[ev[2]]:
                continue  # re-binding the very object the attribute already held: no reader can observe it (attribute stores are atomic)
            key = ("write", ev[1].name.split("[")[0], ev[2])
        elif ev[0] == "global_write":
            key = ("global_write", ev[1][0], ev[1][1])
        elif ev[0] == "container_write":
            key = ("container_write", getattr(ev[1], "name", "?"), "")
        elif ev[0] == "shared_container_write":
            key = ("shared_container_write", ev[1], "")
        elif ev[0] == "published_container_write":
            key = ("write_after_publication", ev[2], "(in-place change of an object already bound to shared state)")
        elif ev[0] == "published_write":
            key = ("write_after_publication", getattr(ev[1], "published", "?"), ev[2])
        else:
            continue
        if key in seen:
            continue
        seen.add(key)
        bad = True
        p.check(False, oid, note=f"{key[0]} {key[1]}.{key[2]}")
    if not bad:
        p.check(True, oid, note="no write to shared state on this path")


def I_value_equal(I, v1, v0):
    """value equality of two config-like objects: same class and attribute-wise equal"""
    if isinstance(v1, Obj) and isinstance(v0, Obj):
        if v1.cls is not v0.cls:
            return False
        names = set(v1.field_types) | set(v0.field_types) | set(k for k in v0.attrs if not k.startswith("__")) | set(
            k for k in v1.attrs if not k.startswith("__")
        )
        conj = []
        for n in sorted(names):
            a = I.getattr(v1, n)
            b = v0.attrs0.get(n, MISSING)
            if b is MISSING:
                b = I.getattr(v0, n)
            conj.append(core.py_eq(a, b) if not isinstance(a, Obj) else (a is b))
        return core.And(*conj) if conj else True
    return core.py_eq(v1, v0)


def verify_lemma(l: Lemma, timeout_ms=core.QUICK_MS) -> dict:
    t0 = time.time()
    core.STATS.update({"z3_queries": 0, "z3_time": 0.0, "cvc5_queries": 0, "cvc5_time": 0.0, "feas_queries": 0})
    out = {"contract": l.name(), "target": "lemma:" + l.name(), "prop": l.prop, "status": "ok", "records": [], "paths": 0}
    try:
        ex = Explorer(timeout_ms=timeout_ms)

        def body(p):
            p.ghost["interp"] = Interp()
            l.setup(p.ghost["interp"])
            args = {k: T.fresh_value(t, k) for k, t in l.params.items()}
            for name, g in _conj_items(l.statement(**args)):
                p.check(g, f"lemma.{l.name()}.{name}")

        ex.run(body)
        out["paths"] = ex.paths_run
        out["records"] = [r.__dict__ for r in ex.records]
        if not ex.records:
            out["status"] = "no-obligations"
    except Unsupported as e:
        out["status"] = "unsupported"
        out["unsupported"] = str(e)
    except Exception as e:
        out["status"] = "checker-error"
        out["unsupported"] = f"{type(e).__name__}: {e}"
        out["trace"] = traceback.format_exc()[-3000:]
    out["stats"] = dict(core.STATS)
    out["wall_s"] = time.time() - t0
    return out
