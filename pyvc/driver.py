"""Per-property driver: runs every contract / lemma of the property, aggregates obligations,
matches refutations against known_findings.json, replays, writes evidence, sets the exit code.

Exit codes (DESIGN 6.1): 0 held / 1 violation / 3 checker broken.  `unknown`, timeouts and
unsupported constructs are UNDECIDED, never violations.
"""
from __future__ import annotations

import concurrent.futures as cf
import glob
import hashlib
import importlib.util
import json
import os
import re
import subprocess
import sys
import time
import traceback
from collections import defaultdict
from typing import Any, Dict, List

HERE = os.path.dirname(os.path.dirname(os.path.abspath(__file__)))


def load_contract_modules(prop: str):
    mods = []
    for path in sorted(glob.glob(os.path.join(HERE, "contracts", f"{prop}_*.py")) + glob.glob(os.path.join(HERE, "contracts", f"{prop}.py"))):
        name = "contracts." + os.path.basename(path)[:-3]
        spec = importlib.util.spec_from_file_location(name, path)
        m = importlib.util.module_from_spec(spec)
        sys.modules[name] = m
        spec.loader.exec_module(m)
        mods.append(m)
    return mods


def collect(prop: str):
    from .spec import Contract, Lemma

    contracts, lemmas, bounded, extra = [], [], [], []
    registry = {}
    for m in load_contract_modules(prop):
        for c in getattr(m, "CONTRACTS", []):
            inst = c() if isinstance(c, type) else c
            if not inst.prop:
                inst.prop = prop
            contracts.append(inst)
            registry[inst.name()] = inst
        for l in getattr(m, "LEMMAS", []):
            inst = l() if isinstance(l, type) else l
            if not inst.prop:
                inst.prop = prop
            lemmas.append(inst)
        bounded.extend(getattr(m, "BOUNDED", []))
        extra.extend(getattr(m, "STRUCTURAL", []))
        for f in getattr(m, "STRUCTURAL", []):
            if hasattr(f, "concretize"):  # native replay of a refuted structural obligation (witness -> probe of the real code)
                registry.setdefault(f.__name__, f)
        for c in getattr(m, "HELPER_CONTRACTS", []):
            inst = c() if isinstance(c, type) else c
            registry[inst.name()] = inst
    return contracts, lemmas, bounded, extra, registry


def _run_one(args):
    prop, kind, name, timeout_ms = args
    # each worker re-imports (fork start method keeps this cheap)
    from . import spec

    contracts, lemmas, bounded, extra, registry = collect(prop)
    try:
        if kind == "contract":
            base, _, idx = name.partition("#")
            c = registry[base]
            if idx:
                import copy as _copy
                import itertools as _it

                keys = sorted(c.split)
                combo = list(_it.product(*[c.split[k] for k in keys]))[int(idx)]
                c = _copy.copy(c)
                c.fixed = dict(zip(keys, combo))
            r = spec.verify_contract(c, registry, timeout_ms)
            r["contract"] = base
            if idx:
                r["case"] = {k: repr(v) for k, v in c.fixed.items()}
                tag = "case " + ",".join(f"{k}={v!r}" for k, v in sorted(c.fixed.items()))
                for rec in r["records"]:
                    rec["note"] = ((rec.get("note") or "") + " [" + tag + "]").strip()
            return r
        if kind == "lemma":
            l = [x for x in lemmas if x.name() == name][0]
            return spec.verify_lemma(l, timeout_ms)
        if kind == "structural":
            f = [x for x in extra if x.__name__ == name][0]
            return run_structural(f, prop)
        if kind == "bounded":
            f = [x for x in bounded if x.__name__ == name][0]
            return run_bounded(f, prop)
    except Exception as e:  # pragma: no cover
        return {"contract": name, "target": name, "prop": prop, "status": "checker-error",
                "unsupported": f"{type(e).__name__}: {e}", "trace": traceback.format_exc()[-3000:], "records": [], "paths": 0, "wall_s": 0.0}


def run_structural(f, prop):
    """A structural obligation: a finite, exhaustive, *decided* check over live program structure
    (class lattice, registries, signatures, AST shape).  Returns records like a contract."""
    t0 = time.time()
    out = {"contract": f.__name__, "target": "structural:" + f.__name__, "prop": prop, "status": "ok", "records": [], "paths": 1}
    try:
        recs = f()
        for r in recs:
            out["records"].append({
                "oid": r["oid"], "verdict": "unsat" if r["ok"] else "sat", "backend": r.get("backend", "enumeration"),
                "path": tuple(r.get("path", ())), "time_s": 0.0, "model": r.get("witness"), "note": r.get("note", ""), "smt2": None,
            })
        if not recs:
            out["status"] = "no-obligations"
    except Exception as e:
        out["status"] = "checker-error"
        out["unsupported"] = f"{type(e).__name__}: {e}"
        out["trace"] = traceback.format_exc()[-3000:]
    out["wall_s"] = time.time() - t0
    return out


def run_bounded(f, prop):
    t0 = time.time()
    out = {"contract": f.__name__, "target": "bounded:" + f.__name__, "prop": prop, "status": "ok", "records": [], "paths": 0, "bounded": True}
    try:
        res = f(seed=int(os.environ.get("VERIF_SEED", "0")), tier=os.environ.get("VERIF_TIER", "quick"))
        out["bounded_result"] = res
    except Exception as e:
        out["status"] = "checker-error"
        out["unsupported"] = f"{type(e).__name__}: {e}"
        out["trace"] = traceback.format_exc()[-3000:]
    out["wall_s"] = time.time() - t0
    return out


# --------------------------------------------------------------------------------------
# known findings
# --------------------------------------------------------------------------------------


def load_known_findings():
    p = os.path.join(HERE, "known_findings.json")
    if not os.path.exists(p):
        return []
    return json.load(open(p))["findings"]


def finding_matches(f, rec) -> bool:
    if f.get("status", "open") != "open":
        return False
    if f.get("obligation_re"):
        if not re.search(f["obligation_re"], rec["oid"]):
            return False
    elif rec["oid"] != f["obligation"] and rec["oid"] not in f.get("obligations", ()):  # "obligations": further ids explained by the same defect
        return False
    hay = (rec.get("note") or "") + " || " + " ; ".join(rec.get("path") or ())
    pat = f.get("where")
    if pat and not re.search(pat, hay):
        return False
    return True


_REPLAY_CACHE: Dict[str, Any] = {}


def run_replay_script(path, timeout=300):
    """replay scripts exit 1 when the real code violates the contract (defect reproduces), 0 otherwise"""
    if path in _REPLAY_CACHE:  # several findings may share one replay script: run it once per check run
        return _REPLAY_CACHE[path]
    py = os.path.join(HERE, ".venv", "bin", "python")
    try:
        p = subprocess.run([py, path], capture_output=True, text=True, timeout=timeout, cwd=HERE)
        _REPLAY_CACHE[path] = (p.returncode, (p.stdout + p.stderr)[-2000:])
    except subprocess.TimeoutExpired:
        _REPLAY_CACHE[path] = (2, "timeout")
    return _REPLAY_CACHE[path]


# --------------------------------------------------------------------------------------
# main
# --------------------------------------------------------------------------------------

ASSUMPTIONS_COMMON = [
    "S-int: python int is mathematical; ordered values are reals with exact comparison; float arithmetic not modelled",
    "S-heap: objects have concrete identity per path; distinct pre-existing parameters do not alias (S-alias)",
    "S-exc: a may-raise call raises one of the declared classes or the representative OtherException (any unrelated Exception subclass)",
    "S-callback: user callables return arbitrary values or raise arbitrary Exceptions and do not write pandera state or their argument",
    "S-lib: library calls without a model are opaque (arbitrary result, no effect); listed per run under opaque_calls",
    "S-term: termination not proved",
    "A-native: pyspark.pandas / modin branches are taken as false; the dask branch is decided by the attribute protocol of the pandas theory "
    "(hasattr(frame, name) <=> the class defines it or a column / index label is called so)",
    "S-memo: a functools.lru_cache function called with non-plain arguments either computes or returns the result cached for an EQUAL (==, hash) "
    "argument - nothing else is known about a hit; with plain arguments (str, int, type, tuples of those) it is run natively",
    "S-model-artefact: a python TypeError / AttributeError raised by a theory object or interpreter value that lacks a model is UNSUPPORTED (undecided), "
    "never an exception of the code under verification",
    "T-text: eval(repr(v)) == v is assumed for None / bool / int / FINITE float / str and lists of those (E1), eval('float(\"' + str(v) + '\")') == v for "
    "every float (E6): replayed on the real interpreter by the text theory's selftest",
    "T-polars: pl.when(c).then(a)[.otherwise(b)] is a where c is TRUE, else b / null; map_elements skips nulls; floats are totally ordered with NaN greatest",
    "T-label-text: the text of a MultiIndex label is ONE function of the label (checked for pandera's own renderer by C11 structural.one_rendering and "
    "enumerated.text_of_a_label_is_independent_of_the_other_labels)",
    "extraction drops docstrings, annotations, logger.* calls, typing.cast (identity)",
    "python-stdlib models in pyvc/stdlib_models.py and theory models in pyvc/theories are assumed contracts on dependencies",
]


def main(prop: str, tier: str = "quick") -> int:
    t0 = time.time()
    os.environ["VERIF_TIER"] = tier
    seed = int(os.environ.get("VERIF_SEED", "0"))
    timeout_ms = 20_000 if tier == "quick" else 120_000
    try:
        contracts, lemmas, bounded, extra, registry = collect(prop)
    except Exception:
        print("CHECKER-ERROR property=%s cannot load contracts" % prop)
        traceback.print_exc()
        return 3
    jobs = []
    for c in contracts:
        if c.split:
            import itertools as _it

            ncomb = len(list(_it.product(*[c.split[k] for k in sorted(c.split)])))
            jobs += [(prop, "contract", f"{c.name()}#{i}", timeout_ms) for i in range(ncomb)]
        else:
            jobs.append((prop, "contract", c.name(), timeout_ms))
    jobs += [(prop, "lemma", l.name(), timeout_ms) for l in lemmas]
    jobs += [(prop, "structural", f.__name__, timeout_ms) for f in extra]
    jobs += [(prop, "bounded", f.__name__, timeout_ms) for f in bounded]
    if not jobs:
        print(f"CHECKER-ERROR property={prop} no contracts registered")
        return 3
    results = []
    workers = min(16, len(jobs)) if os.environ.get("PYVC_SERIAL") != "1" else 1
    if workers == 1:
        results = [_run_one(j) for j in jobs]
    else:
        import multiprocessing as mp

        ctx = mp.get_context("fork")
        with cf.ProcessPoolExecutor(max_workers=workers, mp_context=ctx) as ex:
            results = list(ex.map(_run_one, jobs))

    findings = load_known_findings()  # obligation ids are global: a shared contract carries its findings into every property that uses it
    by_oid: Dict[str, List[dict]] = defaultdict(list)
    checker_errors, unsupported, bounded_results = [], [], []
    funcs = []
    solver_time = 0.0
    backends = defaultdict(int)
    opaque = defaultdict(int)
    inlined = {}
    bounded_failures = []
    for r in results:
        if r.get("bounded"):
            bounded_results.append(r)
            if r["status"] == "checker-error":
                checker_errors.append(r)
            elif (r.get("bounded_result") or {}).get("failing_input") is not None:
                bounded_failures.append(r)
            continue
        if r["status"] == "checker-error":
            checker_errors.append(r)
        elif r["status"] == "unsupported":
            unsupported.append(r)
        elif r["status"] == "no-obligations":
            checker_errors.append(r)
        for rec in r["records"]:
            rec["contract"] = r["contract"]
            by_oid[rec["oid"]].append(rec)
            backends[rec["backend"]] += 1
        st = r.get("stats", {})
        solver_time += st.get("z3_time", 0) + st.get("cvc5_time", 0)
        for k, v in (r.get("opaque_calls") or {}).items():
            opaque[k] += v
        inlined.update(r.get("inlined") or {})
        funcs.append({
            "qualname": r["target"], "contract": r["contract"], **({"case": r["case"]} if r.get("case") else {}), "source_sha": r.get("source_sha"),
            "paths": r.get("paths"), "obligation_instances": len(r["records"]), "status": r["status"],
            "covers": r.get("covers"), "wall_s": round(r.get("wall_s", 0), 2),
            **({"unsupported": r["unsupported"]} if r.get("unsupported") else {}),
        })

    discharged, refuted, undecided = [], [], []
    for oid, recs in sorted(by_oid.items()):
        if any(x["verdict"] == "sat" for x in recs):
            refuted.append(oid)
        elif all(x["verdict"] == "unsat" for x in recs):
            discharged.append(oid)
        else:
            undecided.append(oid)

    # ---- known findings & violations -------------------------------------------------------
    exit_code = 0
    lines = []
    known_hit = {}
    violations = []
    for oid in refuted:
        for rec in [x for x in by_oid[oid] if x["verdict"] == "sat"]:
            f = next((f for f in findings if finding_matches(f, rec)), None)
            if f is not None:
                known_hit.setdefault(f["id"], (f, []))[1].append(rec)
            else:
                violations.append(rec)
    os.makedirs(os.path.join(HERE, "replays"), exist_ok=True)
    known_out = []
    replay_cache = {}  # one run per replay script (several obligation ids of one finding share a script)
    for fid, (f, recs) in known_hit.items():
        ok = True
        detail = ""
        if f.get("replay"):
            if f["replay"] not in replay_cache:
                replay_cache[f["replay"]] = run_replay_script(os.path.join(HERE, f["replay"]))
            rc, outp = replay_cache[f["replay"]]
            ok = rc == 1
            detail = outp[-300:]
        if ok:
            lines.append(f"KNOWN-FINDING: property={prop} {f['what']}")
            known_out.append({"id": fid, "obligation": f["obligation"], "what": f["what"], "instances": len(recs), "witness_reproduces": True})
        else:
            # listed witness no longer reproduces while the obligation is still refuted -> violation
            for rec in recs:
                rec["note"] = (rec.get("note") or "") + f" [listed finding {fid} no longer reproduces: {detail}]"
                violations.append(rec)
    # findings that no obligation can carry (they live in a bounded run-time contract's domain): reported while they reproduce
    for f in findings:
        if f.get("status", "open") == "open" and f.get("property") == prop and f.get("obligation", "").startswith("bounded:") and f["id"] not in known_hit:
            rc, outp = run_replay_script(os.path.join(HERE, f["replay"]))
            if rc == 1:
                lines.append(f"KNOWN-FINDING: property={prop} {f['what']}")
                known_out.append({"id": f["id"], "obligation": f["obligation"], "what": f["what"], "instances": 0, "witness_reproduces": True})
    seen = set()
    n_viol = 0
    per_oid = defaultdict(int)
    for rec in violations:
        key = (rec["oid"], rec.get("note"))
        if key in seen:
            continue
        seen.add(key)
        per_oid[rec["oid"]] += 1
        if per_oid[rec["oid"]] > 3:  # an obligation refuted in many case splits: three replayed witnesses are enough to name it
            continue
        n_viol += 1
        rp, reproduced = write_replay(prop, rec, registry)
        suffix = "" if reproduced else " no-failing-input-found"
        lines.append(f"VIOLATION property={prop} replay={rp}{suffix}")
        print(f"  refuted obligation: {rec['oid']}  [{rec.get('note','')}]  path={' ; '.join(rec.get('path') or ())[:300]}")
        exit_code = 1
    # residual: obligations with a known finding are not counted as required-to-hold
    known_oids = set()
    for _, (f, recs) in known_hit.items():
        known_oids.update(r["oid"] for r in recs)

    for r in bounded_failures:
        br = r["bounded_result"]
        rel = f"replays/{prop}-bounded-{hashlib.sha1(r['contract'].encode()).hexdigest()[:8]}.json"
        with open(os.path.join(HERE, rel), "w") as fh:
            json.dump({"property": prop, "obligation": "bounded:" + r["contract"], "failing_input": br["failing_input"], "observed": br.get("observed"),
                       "replayed_on_real_code": True, "bound": br.get("bound")}, fh, indent=1, default=str)
        lines.append(f"VIOLATION property={prop} replay={rel}")
        print(f"  bounded run-time contract {r['contract']} found a failing input on the real code: {str(br.get('observed'))[:300]}")
        exit_code = 1
        n_viol += 1
    for r in unsupported:
        bs = r.get("bounded_standin") or {}
        if bs.get("error"):  # the stand-in itself crashed: that is a broken checker, never "no failing input"
            checker_errors.append({"contract": r["contract"] + ".bounded_standin", "status": "checker-error", "unsupported": bs["error"]})
            continue
        if bs.get("failing_input") is not None:
            rel = f"replays/{prop}-bounded-{hashlib.sha1(r['target'].encode()).hexdigest()[:8]}.json"
            with open(os.path.join(HERE, rel), "w") as fh:
                json.dump({"property": prop, "obligation": r["target"] + "/bounded_standin", "contract": r["contract"],
                           "why_bounded": r["unsupported"], "failing_input": bs["failing_input"], "observed": bs.get("observed"),
                           "replayed_on_real_code": True, "bound": bs.get("bound")}, fh, indent=1, default=str)
            if f"VIOLATION property={prop} replay={rel}" not in lines:  # (one contract may be listed under several case splits)
                lines.append(f"VIOLATION property={prop} replay={rel}")
                print(f"  bounded stand-in of {r['target']} (function left the verifiable subset: {r['unsupported']}) found a failing input")
                n_viol += 1
            exit_code = 1
            bounded_results.append({"contract": r["contract"] + ".bounded_standin", "bounded_result": {k: v for k, v in bs.items() if k != "failing_input"}})
            continue
        if bs:
            bounded_results.append({"contract": r["contract"] + ".bounded_standin", "bounded_result": bs})
        print(f"UNDECIDED property={prop} obligation={r['target']} reason=unsupported:{r['unsupported']}" + (f" bounded-standin={bs.get('examples', '?')} examples, no failing input" if bs else ""))
    for oid in undecided:
        print(f"UNDECIDED property={prop} obligation={oid} reason=solver-unknown")
    for r in checker_errors:
        print(f"CHECKER-ERROR property={prop} contract={r['contract']} status={r['status']} {r.get('unsupported','')}")
        if r.get("trace"):
            print(r["trace"])
    if checker_errors and exit_code == 0:
        exit_code = 3

    required = [o for o in by_oid if o not in known_oids]
    # `obligations` = obligations generated and decided by the SMT back end on this run; targets that left the supported
    # subset generate none (they are listed under `undecided` / `bounded`, with their bounded stand-in, never counted)
    n_oblig = len(required)
    n_disch = len([o for o in discharged if o not in known_oids])
    samples = []
    for oid in list(discharged)[:3]:
        rec = by_oid[oid][0]
        samples.append({"obligation": oid, "verdict": rec["verdict"], "backend": rec["backend"], "path": list(rec["path"])[:12],
                        "smt2_head": (rec.get("smt2") or "")[:1200]})
    for rec in violations[:2]:
        samples.append({"obligation": rec["oid"], "verdict": "sat", "model": rec.get("model"), "note": rec.get("note")})
    level = "proof" if n_disch == n_oblig and n_oblig > 0 else "other"
    evidence = {
        "property_id": prop, "tier": tier, "seed": seed, "level": level,
        "coverage": {
            "obligations": n_oblig, "discharged": n_disch,
            "obligation_instances": sum(len(v) for v in by_oid.values()),
            "checker_cmd": f"./check {prop} --tier {tier}",
            "trusted_base": [
                "z3 4.x/5.1 (python wheel) as SMT back end; /usr/bin/cvc5 1.0.3 for z3 unknowns",
                "PyVC symbolic executor (pyvc/*.py) and its encoding of the python subset",
                "theory models of pandas/polars/hypothesis operations and python builtins (assumed contracts)",
                "CPython 3.12 inspect.getsource/ast (source extraction)",
            ],
            "functions_under_contract": funcs,
            "functions_inlined": inlined,
            "backends": dict(backends), "solver_time_s": round(solver_time, 3),
            "discharged_ids": discharged, "undecided": undecided + [r["target"] for r in unsupported],
            "refuted_ids": refuted,
            "known_findings": known_out,
            "opaque_calls": dict(opaque),
            "bounded": [{"name": b["contract"], **(b.get("bounded_result") or {})} for b in bounded_results],
            "samples": samples,
            "explanation": "Obligations are generated by symbolically executing the live source of each function under contract "
                           "(inspect.getsource at run time) against its sidecar contract; each obligation instance (per path) is "
                           "discharged by z3 (cvc5 takes unknowns). An obligation id counts as discharged iff all its instances are unsat. "
                           "Obligations covered by a listed known finding are excluded from obligations/discharged and reported under known_findings; "
                           "bounded stand-ins are listed under 'bounded' and never counted.",
        },
        "assumptions": ASSUMPTIONS_COMMON,
        "wall_s": round(time.time() - t0, 2),
        "violations": n_viol,
    }
    if tier == "thorough" and os.environ.get("PYVC_NO_MUTANTS") != "1" and os.environ.get("PANDERA_REPO", "/repo") == "/repo":
        # guard 6 (DESIGN 4.6): the mutant / seeded-change catalogue of this property; reported, never part of the verdict on /repo
        try:
            from . import mutants as _mut

            mres = _mut.run([prop])
            evidence["coverage"]["mutants"] = {**(_mut.summarise(mres).get(prop) or {"total": 0, "killed": 0}),
                                               "detail": [{k: r.get(k) for k in ("mutant", "status", "killed", "obligations", "replayed")} for r in mres]}
        except Exception as e:  # noqa: BLE001
            evidence["coverage"]["mutants"] = {"error": f"{type(e).__name__}: {e}"}
    if n_disch < n_oblig and exit_code == 0:
        evidence["coverage"]["explanation"] += " NOTE: discharged < obligations: some obligations are undecided (listed)."
    evdir = os.environ.get("PYVC_EVIDENCE_DIR") or os.path.join(HERE, "evidence")  # scratch runs (seeds, mutants) write elsewhere
    os.makedirs(evdir, exist_ok=True)
    with open(os.path.join(evdir, f"{prop}.json"), "w") as fh:
        json.dump(evidence, fh, indent=1, default=str)
    for l in lines:
        print(l)
    print(f"{prop}: obligations={n_oblig} discharged={n_disch} refuted={len(refuted)} known={len(known_out)} undecided={len(undecided)+len(unsupported)} "
          f"functions={len(funcs)} solver={solver_time:.1f}s wall={time.time()-t0:.1f}s exit={exit_code}")
    return exit_code


def write_replay(prop, rec, registry):
    h = hashlib.sha1((rec["oid"] + "|" + (rec.get("note") or "") + "|" + ";".join(rec.get("path") or ())).encode()).hexdigest()[:10]
    rel = f"replays/{prop}-{h}.json"
    reproduced = False
    observed = None
    c = registry.get(rec.get("contract"))
    try:
        if c is not None and hasattr(c, "concretize"):
            thunk = c.concretize(rec)
            if thunk is not None:
                reproduced, observed = thunk()
    except Exception as e:
        observed = f"replay harness error: {type(e).__name__}: {e}"
    data = {
        "property": prop, "obligation": rec["oid"], "contract": rec.get("contract"), "note": rec.get("note"),
        "path": list(rec.get("path") or ()), "solver": rec.get("backend"), "verdict": rec["verdict"],
        "model": rec.get("model"), "solver_query_smt2": rec.get("smt2"),
        "replayed_on_real_code": reproduced, "observed": observed,
    }
    with open(os.path.join(HERE, rel), "w") as fh:
        json.dump(data, fh, indent=1, default=str)
    return rel, reproduced


def replay_file(path):
    data = json.load(open(path))
    prop = data["property"]
    contracts, lemmas, bounded, extra, registry = collect(prop)
    c = registry.get(data.get("contract"))
    if c is None or not hasattr(c, "concretize"):
        print("no concretiser for", data.get("contract"), "- obligation:", data["obligation"])
        print("model:", json.dumps(data.get("model"), indent=1))
        return 2
    thunk = c.concretize({"oid": data["obligation"], "model": data.get("model"), "path": data.get("path"), "note": data.get("note")})
    if thunk is None:
        print("model not concretisable")
        return 2
    bad, observed = thunk()
    print("observed:", observed)
    print("REPRODUCED" if bad else "not reproduced")
    return 1 if bad else 0
