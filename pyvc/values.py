"""Interpreter-level values that are not scalars: closures, bound methods, callbacks, sequences."""
from __future__ import annotations

from typing import Any, Callable, Dict, List, Optional

import z3

from . import core
from .core import PyExc, SAny, SBool, SNum, Sym, Unsupported, cur


class Closure:
    """A function defined inside interpreted code (nested def / lambda), or a live function whose
    source is interpreted."""

    def __init__(self, node, frame, qualname, module_globals, live=None, defaults=None, kwdefaults=None, cls=None):
        self.node = node
        self.frame = frame  # defining frame (for closures) or None
        self.qualname = qualname
        self.module_globals = module_globals
        self.live = live
        self.defaults = defaults or []
        self.kwdefaults = kwdefaults or {}
        self.cls = cls  # class in which the function was defined (for super())
        self.__name__ = qualname.rsplit(".", 1)[-1]

    def __repr__(self):
        return f"<closure {self.qualname}>"


class BoundMethod:
    def __init__(self, self_obj, func):
        self.self_obj = self_obj
        self.func = func
        self.__self__ = self_obj
        self.__func__ = func
        self.__name__ = getattr(func, "__name__", "method")
        self.__qualname__ = getattr(func, "__qualname__", self.__name__)

    def __repr__(self):
        return f"<bound {self.func} of {self.self_obj}>"


class SuperProxy:
    def __init__(self, cls, obj):
        self.cls, self.obj = cls, obj


class Fmt(SAny):
    """An opaque formatted string (f-string / str.format / str(x)); parts kept for the script theory."""

    def __init__(self, parts=()):
        super().__init__(name="fmt")
        self.parts = tuple(parts)

    def truth(self):
        return SBool(True) if self.parts else super().truth()

    def __add__(self, o):
        return Fmt(self.parts + (o,))

    def __radd__(self, o):
        return Fmt((o,) + self.parts)

    def replace(self, *a):
        return Fmt(self.parts)


class SymCallable:
    """S-callback.  Each invocation returns a fresh value of `result` type or raises; invocations are
    counted (`calls`) so that contracts can talk about 'the k-th call'."""

    def __init__(self, name, result, raises=True, raise_classes=None):
        self.name = name
        self.result = result
        self.raises = raises
        self.raise_classes = raise_classes
        self.calls: List[tuple] = []
        self.__name__ = name

    def __repr__(self):
        return f"<callback {self.name}>"


class SymSeq:
    """A sequence of unknown length `n` (>= 0) whose elements are created lazily per index.

    Elements for a *symbolic* index term are memoised by the term's id, so the generic element of a
    loop iteration is one object throughout that iteration.
    """

    def __init__(self, name, n: SNum, elem_fn: Callable[[Any], Any], pre=True):
        self.name = name
        self.n = n
        self.elem_fn = elem_fn
        self.cache: Dict[Any, Any] = {}
        self.pre = pre
        self.appended: List[Any] = []  # concrete tail appended on this path (functional update)

    @classmethod
    def fresh(cls, name, elem_type):
        from . import types as T

        n = core.sym_int(f"len({name})")
        cur().assume(n >= 0)
        core.register_model_var(f"len({name})", n.z)

        def elem(i, _name=name, _t=elem_type):
            idx = i.z if isinstance(i, SNum) else i
            return T.fresh_value(_t, f"{_name}[{idx}]")

        return cls(name, n, elem)

    def slen(self):
        n = self.n
        for x in self.appended:
            n = n + (x.seq.slen() if isinstance(x, SeqChunk) else 1)
        return n

    def extend(self, xs):
        if isinstance(xs, SymSeq):
            self.appended.append(SeqChunk(xs))
        else:
            self.appended.extend(list(xs))

    def at(self, i):
        if not isinstance(i, (int, SNum)):
            raise Unsupported(f"symbolic sequence indexed with {type(i).__name__}")
        key = i.z.get_id() if isinstance(i, Sym) else i
        if key not in self.cache:
            self.cache[key] = self.elem_fn(i)
        return self.cache[key]

    def __bool__(self):
        return cur().decide(self.slen() > 0, f"{self.name} nonempty")

    def append(self, x):
        self.appended.append(x)

    def __repr__(self):
        return f"<symseq {self.name}>"


class SeqChunk:
    """a whole symbolic sequence appended to another one by list.extend"""

    def __init__(self, seq):
        self.seq = seq


class SymDict:
    """A dict with an unknown, insertion-ordered key sequence; values created lazily per key."""

    def __init__(self, name, keys: SymSeq, val_type):
        self.name = name
        self.keys_seq = keys
        self.val_type = val_type
        self.vals: Dict[Any, Any] = {}

    @classmethod
    def fresh(cls, name, key_type, val_type):
        from . import types as T

        return cls(name, SymSeq.fresh(f"keys({name})", key_type), val_type)

    def value_for(self, key):
        from . import types as T

        k = key.z.get_id() if isinstance(key, Sym) else key
        if k not in self.vals:
            self.vals[k] = T.fresh_value(self.val_type, f"{self.name}[{getattr(key, 'z', key)}]")
        return self.vals[k]

    def __bool__(self):
        return cur().decide(self.keys_seq.slen() > 0, f"{self.name} nonempty")

    def items(self):
        return SymDictItems(self)

    def values(self):
        return SymDictValues(self)

    def keys(self):
        return self.keys_seq


class SymDictItems:
    def __init__(self, d: SymDict):
        self.d = d


class SymDictValues:
    def __init__(self, d: SymDict):
        self.d = d


class Enumerated:
    def __init__(self, seq, start=0):
        self.seq, self.start = seq, start
