"""Heap objects with concrete identity, lazily materialised symbolic attributes, write tracking.

S-heap as implemented: every object that exists on a path has a concrete python identity (an
`Obj`).  Pre-existing objects (parameters, objects reachable from them, module globals declared
symbolic) materialise their attributes lazily from the declared field types; the first value an
attribute has on the path is remembered in `attrs0` -- that is `old(x.f)`.  A frame obligation is
`x.f == old(x.f)` for every attribute of every pre-existing object that was written.
Aliasing between two distinct pre-existing parameters is not modelled (stated assumption S-alias).
"""
from __future__ import annotations

from typing import Any, Dict, Optional

from .core import PyExc, Sym, Unsupported, cur, py_eq

MISSING = object()


class Obj:
    def __init__(self, cls, name: str, pre: bool, fields: Optional[Dict[str, Any]] = None, strict=False):
        self.cls = cls
        self.name = name
        self.pre = pre
        self.attrs: Dict[str, Any] = {}
        self.attrs0: Dict[str, Any] = {}
        self.field_types: Dict[str, Any] = dict(fields or {})
        self.strict = strict  # undeclared attribute => AttributeError (else lazily SAny)
        self.writes = []
        p = cur()
        self.ref = p.next_ref
        p.next_ref += 1
        p.objects.append(self)

    def __repr__(self):
        return f"<{self.cls.__name__ if self.cls else 'obj'} {self.name}#{self.ref}>"

    # python protocol pieces theory code may rely on
    def __bool__(self):
        return True

    def __hash__(self):
        return id(self)

    def __eq__(self, other):
        return self is other

    def __ne__(self, other):
        return self is not other


class ListObj(list):
    """A python list that lives in the interpreted heap (tracks owner for frame analysis)."""

    pre = False
    name = "list"

    def __hash__(self):  # identity hashing so that lists can be keys of snapshots
        return id(self)


class DictObj(dict):
    pre = False
    name = "dict"

    def __hash__(self):
        return id(self)


def materialise(obj: Obj, name: str):
    """First read of an attribute of a pre-existing object: create its symbolic initial value."""
    from . import types as T

    if name in obj.field_types:
        v = T.fresh_value(obj.field_types[name], f"{obj.name}.{name}")
    elif obj.strict:
        return MISSING
    else:
        v = T.fresh_value(T.Any, f"{obj.name}.{name}")
    obj.attrs[name] = v
    obj.attrs0[name] = v
    return v


def snapshot_attrs(objs):
    return {o: dict(o.attrs) for o in objs}
