#!/usr/bin/env bash
# bin/baseline_check.sh [tree]  - runs the pinned test-suite command (/root/.vp/BASELINE.json) on a tree (default /repo) and lists every
# stable_pass test that does not pass there.  Output: /tmp/baseline_<name>.{xml,log}; exit 0 iff nothing from stable_pass is lost.
TREE="${1:-/repo}"; NAME="$(basename "$TREE")"
cd "$TREE" && PYTHONPATH="$TREE" /venv/bin/python -m pytest -ra -q -p no:cacheprovider --timeout=900 --continue-on-collection-errors --junitxml=/tmp/baseline_$NAME.xml > /tmp/baseline_$NAME.log 2>&1
python3 - "$NAME" <<'P'
import json, sys, xml.etree.ElementTree as ET
name = sys.argv[1]
base = set(json.load(open('/root/.vp/BASELINE.json'))['stable_pass'])
passed = set()
for tc in ET.parse(f'/tmp/baseline_{name}.xml').getroot().iter('testcase'):
    if not any(c.tag in ('failure', 'error', 'skipped') for c in tc):
        passed.add(f"{tc.get('classname')}::{tc.get('name')}")
lost = sorted(base - passed)
print(f"baseline stable_pass={len(base)} passed_now={len(passed)} lost={len(lost)}")
for l in lost[:60]: print("  LOST", l)
sys.exit(1 if lost else 0)
P
