#!/usr/bin/env python3
"""debug aid: run ONE contract (all cases) and print every record.  usage: PANDERA_REPO=... bin/debug_contract.py <prop> <ContractClassNameSubstring>"""
import os, sys
HERE = os.path.dirname(os.path.dirname(os.path.abspath(__file__)))
repo = os.environ.get("PANDERA_REPO", "/repo")
sys.path[:0] = [repo, HERE]
os.execv(os.path.join(HERE, ".venv/bin/python"), [os.path.join(HERE, ".venv/bin/python"), "-c", f"""
import sys, itertools, copy
sys.path[:0] = [{repo!r}, {HERE!r}]
from pyvc import driver, spec
prop, sub = {sys.argv[1]!r}, {sys.argv[2]!r}
contracts, lemmas, bounded, extra, registry = driver.collect(prop)
for c in contracts:
    if sub not in c.name(): continue
    keys = sorted(c.split) if c.split else []
    combos = list(itertools.product(*[c.split[k] for k in keys])) if keys else [()]
    for combo in combos:
        cc = copy.copy(c); cc.fixed = dict(zip(keys, combo))
        r = spec.verify_contract(cc, registry, 20000)
        print('==', c.name(), cc.fixed, r['status'], r.get('unsupported'), 'paths', r.get('paths'))
        for rec in r['records']:
            if rec['verdict'] != 'unsat' or '-v' in sys.argv: print('   ', rec['verdict'], rec['oid'], rec.get('note'), rec.get('path'))
        if r.get('trace'): print(r['trace'])
"""] + sys.argv[3:])
