#!/usr/bin/env bash
# usage: bin/try_patch.sh <patch> <Cxx> [more Cxx]   -- applies the patch to /repo, runs the checks, reverts.
# Evidence files written while the patch is applied are put back afterwards (evidence must come from the unchanged tree).
P="$(readlink -f "$1")"; shift
HERE="$(cd "$(dirname "${BASH_SOURCE[0]}")/.." && pwd)"; cd "$HERE"
REPO="${PANDERA_REPO:-/repo}"
TMP="$(mktemp -d)"; cp -r evidence "$TMP/" 2>/dev/null
git -C "$REPO" apply "$P" || { echo "patch does not apply"; rm -rf "$TMP"; exit 9; }
for c in "$@"; do ./check "$c" 2>&1 | grep -E "VIOLATION|KNOWN|UNDECIDED|CHECKER|refuted obligation|bounded stand-in|^C[0-9]+:" | cut -c1-400; done
git -C "$REPO" checkout -- .
rm -rf evidence; cp -r "$TMP/evidence" . 2>/dev/null; rm -rf "$TMP"
