#!/usr/bin/env bash
# usage: bin/try_patch.sh <patch> <Cxx> [more Cxx]   -- applies the patch to /repo, runs the checks, reverts
P="$(readlink -f "$1")"; shift
cd /verif
git -C /repo apply "$P" || { echo "patch does not apply"; exit 9; }
for c in "$@"; do ./check "$c" 2>&1 | grep -E "VIOLATION|KNOWN|UNDECIDED|CHECKER|refuted obligation|^C[0-9]+:" | cut -c1-400; done
git -C /repo checkout -- . 
