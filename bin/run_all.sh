#!/usr/bin/env bash
# runs every claimed check (quick tier) on the current tree; prints the summary line of each
cd /verif
git -C /repo status --short | grep -q . && echo "WARNING: /repo working tree is dirty"
for c in $(python3 -c "import json;print(' '.join(x['property_id'] for x in json.load(open('MANIFEST.json'))['checks']))"); do
  ./check "$c" --tier "${1:-quick}" 2>&1 | grep -E "VIOLATION|UNDECIDED|CHECKER|^C[0-9]+:" | cut -c1-300
done
