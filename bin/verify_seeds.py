#!/usr/bin/env python3
"""Confirms each candidate seeded change (seeded_incoming/<id>/) in a scratch worktree of /repo and runs our checks on it.

For every candidate:  patch applies at the current /repo HEAD; demo.py exits 0 unpatched and non-zero patched; the test files the
author ran show no NEW failure with the patch; then `./check <Cxx>` (PANDERA_REPO=<scratch>) with the patch applied.
Confirmed seeds are written to seeded/<id>/ (patch.diff, demo.py, meta.json).  Usage: bin/verify_seeds.py [ids...]
"""
import json
import os
import re
import shutil
import subprocess
import sys

HERE = os.path.dirname(os.path.dirname(os.path.abspath(__file__)))
WT = "/tmp/seedverify_wt"
PY = "/venv/bin/python"


def sh(cmd, cwd=None, env=None, timeout=3600):
    e = dict(os.environ)
    e.update(env or {})
    p = subprocess.run(cmd, shell=True, cwd=cwd, env=e, capture_output=True, text=True, timeout=timeout)
    return p.returncode, p.stdout + p.stderr


def failing_tests(files, tag):
    # serial on purpose: under xdist some pandera tests are order dependent (backend registration): failing sets are flaky
    rc, out = sh(f"{PY} -m pytest -q -p no:cacheprovider -p no:xdist {' '.join(files)} 2>&1 | grep -E '^(FAILED|ERROR)' | sed 's/ - .*//' | sort -u",
                 cwd=WT, env={"PYTHONPATH": WT}, timeout=3000)
    return set(l.strip() for l in out.splitlines() if l.strip())


def main(ids):
    if not os.path.isdir(WT):
        sh(f"git -C /repo worktree add -q --detach {WT} HEAD")
    sh("git checkout -q --detach $(git -C /repo rev-parse HEAD) && git checkout -- . && git clean -fdq", cwd=WT)
    os.makedirs(os.path.join(HERE, "seeded"), exist_ok=True)
    base_cache = {}
    summary = []
    for sid in ids:
        src = os.path.join(HERE, "seeded_incoming", sid)
        meta = json.load(open(os.path.join(src, "meta.json")))
        prop = meta.get("property", sid[:3])
        rec = {"id": sid, "property": prop, "summary": meta.get("summary"), "needs_to_manifest": meta.get("what_it_needs_to_manifest")}
        patch, demo = os.path.join(src, "patch.diff"), os.path.join(src, "demo.py")
        sh("git checkout -- . ", cwd=WT)
        rc, out = sh(f"git apply --check {patch}", cwd=WT)
        if rc != 0:
            rec["status"] = "patch does not apply at current HEAD (code changed by a fix: commit): " + out.strip()[:200]
            summary.append(rec)
            print(sid, rec["status"][:100])
            continue
        rc0, out0 = sh(f"{PY} {demo}", cwd="/tmp", env={"PYTHONPATH": WT}, timeout=900)
        sh(f"git apply {patch}", cwd=WT)
        rc1, out1 = sh(f"{PY} {demo}", cwd="/tmp", env={"PYTHONPATH": WT}, timeout=900)
        rec["demo_unpatched_exit"], rec["demo_patched_exit"] = rc0, rc1
        rec["demo_patched_output"] = out1.strip()[-400:]
        if not (rc0 == 0 and rc1 != 0):
            rec["status"] = f"demo does not discriminate at current HEAD (unpatched exit {rc0}, patched exit {rc1})"
            sh("git checkout -- .", cwd=WT)
            summary.append(rec)
            print(sid, rec["status"])
            continue
        # tests the author ran
        files = sorted(set(re.findall(r"tests/[\w/\.]+", meta.get("tests_run", "") if isinstance(meta.get("tests_run"), str) else " ".join(meta.get("tests_run", [])))))
        files = [f for f in files if os.path.exists(os.path.join(WT, f))][:14]
        if files:
            key = tuple(files)
            patched = failing_tests(files, "patched")
            sh("git checkout -- .", cwd=WT)
            if key not in base_cache:
                base_cache[key] = failing_tests(files, "base")
            new = sorted(patched - base_cache[key])
            rec["tests_run"] = f"pytest (serial) {' '.join(files)} (unpatched vs patched)"
            rec["new_test_failures"] = new
            sh(f"git apply {patch}", cwd=WT)
            if new:
                rec["status"] = "existing tests fail with the patch: rejected"
                sh("git checkout -- .", cwd=WT)
                summary.append(rec)
                print(sid, rec["status"], new[:3])
                continue
        # our checks
        props = [prop] + [p for p in meta.get("also_check", [])]
        det = {}
        for pr in props:
            rc, out = sh(f"./check {pr}", cwd=HERE, env={"PANDERA_REPO": WT}, timeout=3000)
            viol = [l for l in out.splitlines() if l.startswith("VIOLATION")]
            obl = sorted(set(re.findall(r"refuted obligation: (\S+)", out)) | set(re.findall(r"(bounded [\w\- ]+ of \S+|bounded run-time contract \S+)", out)))
            det[pr] = {"exit": rc, "violations": len(viol), "obligations": obl[:8]}
        sh("git checkout -- .", cwd=WT)
        sh("git checkout -- evidence", cwd=HERE)
        rec["our_checks"] = det
        rec["detected"] = any(v["exit"] == 1 for v in det.values())
        rec["status"] = "confirmed"
        dst = os.path.join(HERE, "seeded", sid)
        os.makedirs(dst, exist_ok=True)
        shutil.copy(patch, dst)
        shutil.copy(demo, dst)
        json.dump({**rec, "author_meta": meta, "what_i_ran": "bin/verify_seeds.py: git apply in a scratch worktree of /repo HEAD; demo.py unpatched/patched; the author's test files unpatched vs patched (only new failures count); ./check with PANDERA_REPO=<scratch>"},
                  open(os.path.join(dst, "meta.json"), "w"), indent=1)
        summary.append(rec)
        print(sid, "confirmed; detected:", rec["detected"], {k: v["exit"] for k, v in det.items()})
    json.dump(summary, open(os.path.join(HERE, "seeded", "SUMMARY.json"), "w"), indent=1)


if __name__ == "__main__":
    ids = sys.argv[1:] or sorted(os.listdir(os.path.join(HERE, "seeded_incoming")))
    main(ids)
