#!/usr/bin/env python3
"""Re-runs our checks against every confirmed seeded change (seeded/<id>/patch.diff) at the current /repo HEAD and records which
obligations catch it in seeded/<id>/meta.json under "recheck".  Scratch worktree under /tmp, removed at the end.
Usage: bin/recheck_seeds.py [ids...]   (default: every directory under seeded/)"""
import json, os, re, subprocess, sys, tempfile

HERE = os.path.dirname(os.path.dirname(os.path.abspath(__file__)))


def sh(cmd, cwd=None, env=None, timeout=3600):
    e = dict(os.environ); e.update(env or {})
    p = subprocess.run(cmd, shell=True, cwd=cwd, env=e, capture_output=True, text=True, timeout=timeout)
    return p.returncode, p.stdout + p.stderr


def main(ids):
    wt = tempfile.mkdtemp(prefix="seedrecheck_")
    os.rmdir(wt)
    sh(f"git -C /repo worktree add -q --detach {wt} HEAD")
    evd = tempfile.mkdtemp(prefix="seedrecheck_ev_")
    try:
        for sid in ids:
            d = os.path.join(HERE, "seeded", sid)
            if not os.path.exists(os.path.join(d, "patch.diff")):
                continue
            meta = json.load(open(os.path.join(d, "meta.json")))
            sh("git checkout -- . && git clean -fdq", cwd=wt)
            rc, out = sh(f"git apply {d}/patch.diff || git apply -3 {d}/patch.diff", cwd=wt)  # -3: a later fix: commit touched neighbouring lines
            if rc != 0:
                print(sid, "patch no longer applies:", out.strip()[:120]); continue
            props = [meta.get("property", sid[:3])] + list((meta.get("author_meta") or {}).get("also_check", [])) + list(meta.get("also_check", []))
            det = {}
            for pr in dict.fromkeys(props):
                rc, out = sh(f"./check {pr}", cwd=HERE, env={"PANDERA_REPO": wt, "PYVC_EVIDENCE_DIR": evd}, timeout=3000)
                obl = sorted(set(re.findall(r"refuted obligation: (\S+)", out)) | set(re.findall(r"(bounded [\w\- ]+ of \S+|bounded run-time contract \S+)", out)))
                det[pr] = {"exit": rc, "violations": len([l for l in out.splitlines() if l.startswith("VIOLATION")]), "obligations": obl[:8]}
            meta["recheck"] = {"repo_head": sh("git -C /repo rev-parse --short HEAD")[1].strip(), "verif_head": sh("git rev-parse --short HEAD", cwd=HERE)[1].strip(),
                               "checks": det, "detected": any(v["exit"] == 1 for v in det.values())}
            json.dump(meta, open(os.path.join(d, "meta.json"), "w"), indent=1)
            print(sid, "detected" if meta["recheck"]["detected"] else "MISSED", {k: (v["exit"], v["obligations"][:2]) for k, v in det.items()}, flush=True)
    finally:
        sh(f"git -C /repo worktree remove --force {wt}")
        sh(f"rm -rf {evd}")


if __name__ == "__main__":
    main(sys.argv[1:] or sorted(x for x in os.listdir(os.path.join(HERE, "seeded")) if os.path.isdir(os.path.join(HERE, "seeded", x))))
