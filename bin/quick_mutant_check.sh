#!/bin/bash
# bin/quick_mutant_check.sh <patch file> <prop>: applies a catalogue patch to a scratch worktree of /repo and runs ./check <prop> on it (expected: exit 1)
patch=$(readlink -f "$1"); prop=$2
wt=$(mktemp -d /tmp/qmc_XXXX); rmdir $wt
git -C /repo worktree add -q --detach $wt HEAD
(cd $wt && git apply $patch) || { echo "$(basename $patch): does not apply"; git -C /repo worktree remove --force $wt; exit 2; }
cd /verif; out=$(PANDERA_REPO=$wt PYVC_EVIDENCE_DIR=$(mktemp -d /tmp/qmc_ev_XXXX) PYVC_NO_MUTANTS=1 ./check $prop --quick 2>&1); rc=$?
echo "$(basename $patch) [$prop] exit=$rc $(echo "$out" | grep -m1 'refuted obligation\|bounded run-time' | cut -c1-160)"
git -C /repo worktree remove --force $wt
