#!/usr/bin/env bash
# Builds /verif/.venv (python 3.12 + z3-solver, cvc5, jsonschema, icontract, deal, crosshair) offline,
# overlaying /venv's site-packages (pandas, polars, hypothesis, pandera editable -> /repo).
# Idempotent: a no-op when the venv is already usable.
set -euo pipefail
HERE="$(cd "$(dirname "${BASH_SOURCE[0]}")/.." && pwd)"
VENV="$HERE/.venv"
PY="$VENV/bin/python"
if [ -x "$PY" ] && "$PY" -c "import z3, cvc5, jsonschema, pandas, pandera" >/dev/null 2>&1; then
  exit 0
fi
BASEPY=/root/.pyenv/versions/3.12.1/bin/python3.12
[ -x "$BASEPY" ] || BASEPY="$(readlink -f /venv/bin/python)"
rm -rf "$VENV"
"$BASEPY" -m venv "$VENV"
export PIP_NO_INDEX=1 PIP_DISABLE_PIP_VERSION_CHECK=1
"$PY" -m pip install -q --no-index --find-links /opt/veriftools/wheels \
    z3-solver cvc5 jsonschema icontract deal crosshair-tool >/dev/null
SP="$("$PY" -c 'import sysconfig; print(sysconfig.get_paths()["purelib"])')"
echo "import site; site.addsitedir('/venv/lib/python3.12/site-packages')" > "$SP/zz_overlay_venv.pth"
"$PY" -c "import z3, cvc5, jsonschema, pandas, polars, pandera; print('env ok', z3.get_version_string(), pandas.__version__, pandera.__file__)"
