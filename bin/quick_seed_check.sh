#!/bin/bash
# bin/quick_seed_check.sh <seed id> [prop]: applies seeded_incoming/<id>/patch.diff (or seeded/<id>) to a scratch worktree and runs ./check <prop> on it
id=$1; prop=${2:-${id:0:3}}
src=/verif/seeded_incoming/$id; [ -d $src ] || src=/verif/seeded/$id
wt=$(mktemp -d /tmp/qsc_XXXX); rmdir $wt
git -C /repo worktree add -q --detach $wt HEAD
(cd $wt && (git apply $src/patch.diff || git apply -3 $src/patch.diff)) || { echo "$id: patch does not apply"; git -C /repo worktree remove --force $wt; exit 2; }
cd /verif; PANDERA_REPO=$wt PYVC_EVIDENCE_DIR=$(mktemp -d /tmp/qsc_ev_XXXX) PYVC_NO_MUTANTS=1 ./check $prop --quick 2>&1 | grep -E " refuted|bounded|VIOLATION|UNDECIDED|CHECKER|^C[0-9]+:" | grep -v KNOWN | cut -c1-260 | head -${3:-8}
git -C /repo worktree remove --force $wt
