#!/usr/bin/env python3
"""append the entries of known_findings_Cxx.json files (from contract-writer branches) to known_findings.json (by id)"""
import json, sys
main = json.load(open("known_findings.json"))
ids = {f["id"] for f in main["findings"]}
for fn in sys.argv[1:]:
    d = json.load(open(fn))
    for f in d["findings"] if isinstance(d, dict) else d:
        if f["id"] not in ids:
            main["findings"].append(f); ids.add(f["id"]); print("added", f["id"])
json.dump(main, open("known_findings.json", "w"), indent=1)
