"""C05 (hypothesis checks): validating with a pa.Hypothesis leaves the Hypothesis object - part of the schema - as it was.

PandasHypothesisBackend.preprocess(check_obj, key) prepares what the test function sees.  For a Series / column the `samples` of the
hypothesis name the groups to hand over; they are an argument of this step, not something to store on the check:

    frame.preexisting_objects_unchanged        no attribute of the Hypothesis (groups, samples, groupby, ...) is written
    post.field_without_groupby_is_handed_over  groupby=None: the object itself (PandasCheckBackend.preprocess_field: own contract)
"""
from pyvc import core, types as T
from pyvc.core import SAny, cur
from pyvc.heap import ListObj, Obj
from pyvc.spec import Contract
from pyvc.theories import pandas_lite as PL
from pyvc.theories.pandas_lite import SeriesVal

HB = "pandera.backends.pandas.hypotheses:PandasHypothesisBackend"


class HypothesisPreprocessField(Contract):
    target = f"{HB}.preprocess"
    split = {"groupby": ["none", "given"], "samples": ["none", "two"]}

    def setup(self, I):
        PL.install(I)
        import pandera.backends.pandas.checks as C

        def groupby(I_, self_obj, check_obj):
            return SAny(name="groupby_object")

        def fmt(I_, groupby_obj, groups):
            cur().ghost["format_got_groups"] = groups
            return SAny(name="groups_dict")

        I.models[id(C.PandasCheckBackend.groupby)] = groupby
        I.models[id(C.PandasCheckBackend._format_groupby_input)] = fmt

    def make_args(self):
        import pandera.backends.pandas.hypotheses as H
        from pandera.api.hypotheses import Hypothesis

        samples = ListObj([] if self.fixed.get("samples", "none") == "none" else ["x", "y"])
        samples.pre = True
        samples.name = "check.samples"
        gb = None if self.fixed.get("groupby", "none") == "none" else "g"
        check = T.Ref(Hypothesis, groupby=T.Const(gb), groups=T.Const(None), samples=T.Const(samples), ignore_na=T.Const(False)).fresh("check")
        be = Obj(H.PandasHypothesisBackend, "backend", pre=True)
        be.attrs["check"] = check
        be.attrs0["check"] = check
        cur().ghost.update(check=check, samples=samples)
        return {"self": be, "check_obj": SeriesVal.fresh("check_obj", "real"), "key": None}

    def call_target(self, I, fn, a):
        return I.call(fn, [a["self"], a["check_obj"], a["key"]], {})

    def ensures(self, result, old, self_, check_obj, key):
        g = cur().ghost
        if self.fixed.get("groupby", "none") == "none":
            return {"field_without_groupby_is_handed_over": result is check_obj}
        got = g.get("format_got_groups")
        return {"the_samples_name_the_groups_handed_over": got is g["samples"] or (isinstance(got, (list, ListObj)) and list(got) == list(g["samples"]))}

    def concretize(self, rec):
        def thunk():
            """a SeriesSchema with a one-sample hypothesis, validated once: the schema equals its snapshot"""
            import copy
            import warnings

            import pandas as pd
            import pandera as pa

            warnings.simplefilter("ignore")
            schema = pa.SeriesSchema(float, checks=pa.Hypothesis.one_sample_ttest(popmean=0.0, relationship="equal", alpha=0.01))
            snap = copy.deepcopy(schema)
            groups_before = schema.checks[0].groups
            try:
                schema.validate(pd.Series([0.1, -0.1, 0.05, -0.05, 0.0, 0.02, -0.02]))
            except (pa.errors.SchemaError, pa.errors.SchemaErrors):
                pass
            obs = {"check.groups before / after one validation": [repr(groups_before), repr(schema.checks[0].groups)], "schema == snapshot": schema == snap}
            return (schema != snap) or repr(groups_before) != repr(schema.checks[0].groups), obs

        return thunk


CONTRACTS = [HypothesisPreprocessField]
