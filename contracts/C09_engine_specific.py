"""C09 (part 3) - what each engine adds on top of engine.Engine.dtype: the engine-level `DataType.check`
(pandas, polars, pyspark) and the `Engine.dtype` entry points with their fallbacks (numpy, pandas, polars, pyspark).

Oracle: property statement.  `DataType.check(other)`: `other` is first resolved by the engine (unresolvable ->
not recognised); a physical receiver (int / uint / float / complex / bool) then recognises `other` only if the
NATIVE types are equal or the abstract family check (same kind, signedness, width - proved in part 1) holds.
Entry points: a spelling the generic resolution understands is returned unchanged (the fallback is not entered),
the fallback only re-submits a normalised native type to the same generic resolution, and the only exception is
TypeError.
"""
import dataclasses

import z3

import pandera.dtypes as D
from pandera.engines import engine as ENG
from pandera.engines import numpy_engine, pandas_engine, polars_engine, pyspark_engine
from pyvc import core, types as T
from pyvc.core import And, Iff, Implies, Not, Or, PyExc, SAny, SBool, cur, py_eq
from pyvc.heap import Obj
from pyvc.interp import OtherException, _find_in_mro
from pyvc.spec import Contract
from pyvc.theories import dtype_lite as DL
from contracts.util import fld, fld0
from contracts.C09_dtype_check import NUM_FIELDS, truth

ENGINES = {"numpy": numpy_engine, "pandas": pandas_engine, "polars": polars_engine, "pyspark": pyspark_engine}


def engine_fields(c):
    out = {}
    if dataclasses.is_dataclass(c):
        for f in dataclasses.fields(c):
            if f.name in NUM_FIELDS:
                out[f.name] = NUM_FIELDS[f.name]
            elif f.name in ("ordered", "time_zone_agnostic", "keys_sorted"):
                out[f.name] = T.Bool
            elif f.name in ("precision", "scale"):
                out[f.name] = T.Int
            else:
                out[f.name] = T.Any  # native type objects, time zones, units, categories: opaque values with equality
    return out


def registered(mod):
    return sorted(mod.Engine.get_registered_dtypes(), key=lambda c: (c.__module__, c.__qualname__))


def dataclass_equal(a: Obj, b: Obj):
    if a.cls is not b.cls:
        return False
    return And(*[py_eq(fld0(a, f.name), fld0(b, f.name)) for f in dataclasses.fields(a.cls) if f.compare] or [True])


def abstract_check(s: Obj, o: Obj):
    """the family check proved in part 1 (Int/Float/Complex.check, DataType.check) as a formula"""
    for fam, sign in ((D.Int, True), (D.Float, False), (D.Complex, False)):
        if issubclass(s.cls, fam):
            if not issubclass(o.cls, fam):
                return False
            conj = [py_eq(fld0(s, "bit_width"), fld0(o, "bit_width"))]
            if sign:
                conj.append(py_eq(fld0(s, "signed"), fld0(o, "signed")))
            return And(*conj)
    return dataclass_equal(s, o)


class _Resolve(Contract):
    """call-site contract of <engine>.Engine.dtype used inside DataType.check: an engine instance resolves to itself
    (EngineDtype/post.idempotent + the entry-point contracts below); anything else resolves to some registered engine
    type or raises TypeError"""

    raises = (TypeError,)
    mod = None

    def havoc_outcome(self, I, a):
        x = a["data_type"]
        bases = self.mod.Engine._base_pandera_dtypes
        if isinstance(x, Obj) and x.cls is not None and issubclass(x.cls, bases):
            return x
        k = cur().choose([("resolved", None), ("TypeError", None)], "resolve")
        if k == 1:
            raise PyExc(I.make_exc(TypeError, "not understood"))
        cs = registered(self.mod)
        j = cur().choose([(c.__name__, None) for c in cs], "resolved class")
        return Obj(cs[j], "resolved", pre=True, fields=engine_fields(cs[j]))


def _resolver(name, m):
    class R(_Resolve):
        target = f"{m.__name__}:Engine.dtype"
        mod = m
        params = dict(cls=T.Any, data_type=T.Any)

    R.__name__ = f"Resolve_{name}"
    return R


RESOLVERS = {n: _resolver(n, m) for n, m in ENGINES.items()}


def _physical_receivers(mod):
    base_check = mod.DataType.__dict__["check"]
    out = []
    for c in registered(mod):
        if _find_in_mro(c, "check") is not base_check:
            continue
        if issubclass(c, (D.Int, D.Float, D.Complex, D.Bool, D.Timestamp, D.Timedelta, D.Date)) and not issubclass(c, D.Category):
            out.append(c)
    return out


def _engine_check(name, mod, how):
    recv = _physical_receivers(mod)

    class C(Contract):
        __doc__ = f"""{name}_engine.DataType.check for every registered numeric / boolean / temporal receiver class that
        inherits it ({len(recv)} classes), against an argument that is (a) any registered engine type with arbitrary
        native type and widths, (b) something the engine resolves to such a type, (c) something it cannot resolve."""
        target = f"{mod.__name__}:DataType.check"
        raises = ()
        split = {"receiver": [c.__name__ for c in recv]}
        params = dict(self=T.Any, pandera_dtype=T.Any)
        use_contracts = (RESOLVERS[name](),)
        max_paths = 20000

        def setup(self, I):
            DL.install(I)

        def make_args(self):
            rn = self.fixed.get("receiver", recv[0].__name__)
            rc = [c for c in recv if c.__name__ == rn][0]
            core.register_model_var("receiver", lambda m, r=rn: r)
            s = Obj(rc, "self", pre=True, fields=engine_fields(rc))
            k = cur().choose([("engine_type", None), ("other_spelling", None)], "argument is")
            if k == 0:
                cs = registered(mod)
                j = cur().choose([(c.__name__, None) for c in cs], "type(pandera_dtype)")
                o = Obj(cs[j], "pandera_dtype", pre=True, fields=engine_fields(cs[j]))
            else:
                o = T.fresh_value(T.Str, "pandera_dtype")
            return {"self": s, "pandera_dtype": o}

        def call_target(self, I, fn, a):
            return I.call(fn, [a["self"], a["pandera_dtype"]], {})

        def ensures(self, result, old, self_, pandera_dtype):
            res = pandera_dtype if isinstance(pandera_dtype, Obj) else next((o for o in cur().objects if o.name == "resolved"), None)
            if res is None:
                return {"unresolvable_spelling_is_not_recognised": Not(truth(result))}
            native_equal = py_eq(fld0(self_, "type"), fld0(res, "type"))
            fam = abstract_check(self_, res)
            if how == "or":
                spec = Or(native_equal, fam)
            elif how == "and":
                spec = And(native_equal, fam)
            else:
                spec = native_equal
            out = {"recognises_iff_native_types_equal_%s_family_check" % how: Iff(truth(result), spec)}
            # the property's clause, for physical receivers: recognition implies same native type or same (kind, sign, width)
            if issubclass(self_.cls, (D.Int, D.Float, D.Complex)):
                kinds = [k for k in (D.Int, D.Float, D.Complex) if issubclass(self_.cls, k)]
                same_kind = issubclass(res.cls, kinds[0])
                out["physical_receiver_never_recognises_other_kind_sign_width_unless_same_native_type"] = Implies(
                    And(truth(result), Not(native_equal)),
                    And(same_kind, py_eq(fld0(self_, "bit_width"), fld0(res, "bit_width")) if same_kind else False,
                        (py_eq(fld0(self_, "signed"), fld0(res, "signed")) if (same_kind and kinds[0] is D.Int) else True)))
            return out

    C.__name__ = f"EngineCheck_{name}"
    return C


PandasCheck = _engine_check("pandas", pandas_engine, "or")
PolarsCheck = _engine_check("polars", polars_engine, "and")

CONTRACTS = [PandasCheck, PolarsCheck]
HELPER_CONTRACTS = list(RESOLVERS.values())


# ---------------------------------------------------------------------------------------------
# pyspark DataType.check: compares native types only (argument: an engine type, as annotated)
# ---------------------------------------------------------------------------------------------


class PysparkCheck(Contract):
    """pyspark_engine.DataType.check(other: DataType): recognition is exactly equality of the boxed native types, so it
    cannot relate two different native kinds / widths."""

    target = "pandera.engines.pyspark_engine:DataType.check"
    raises = ()
    params = dict(self=T.Any, pandera_dtype=T.Any)

    def setup(self, I):
        DL.install(I)

    def make_args(self):
        cs = [c for c in registered(pyspark_engine) if _find_in_mro(c, "check") is pyspark_engine.DataType.__dict__["check"]]
        i = cur().choose([(c.__name__, None) for c in cs], "type(self)")
        j = cur().choose([(c.__name__, None) for c in registered(pyspark_engine)], "type(pandera_dtype)")
        o = registered(pyspark_engine)[j]
        return {"self": Obj(cs[i], "self", pre=True, fields=engine_fields(cs[i])), "pandera_dtype": Obj(o, "pandera_dtype", pre=True, fields=engine_fields(o))}

    def call_target(self, I, fn, a):
        return I.call(fn, [a["self"], a["pandera_dtype"]], {})

    def ensures(self, result, old, self_, pandera_dtype):
        return {"recognises_iff_native_types_equal": Iff(truth(result), py_eq(fld0(self_, "type"), fld0(pandera_dtype, "type")))}


# ---------------------------------------------------------------------------------------------
# entry points: <engine>.Engine.dtype = generic resolution + engine-specific fallback
# ---------------------------------------------------------------------------------------------


class GenericResolution(Contract):
    """call-site contract of engine.Engine.dtype (proved as `EngineDtype` in part 2): an instance of the engine's
    base type is returned as is and never fails; any other input either resolves to an engine type or raises
    TypeError.  Every application is logged so that the entry-point contracts can say what was submitted."""

    target = "pandera.engines.engine:Engine.dtype"
    raises = (TypeError,)

    def __init__(self):
        self.log = []

    def apply(self, I, args, kwargs):
        cls, x = list(args)[:2]
        p = cur()
        log = p.ghost.setdefault("generic_resolution_log", [])
        bases = cls._base_pandera_dtypes
        if isinstance(x, Obj) and x.cls is not None and issubclass(x.cls, bases):
            log.append((cls, x, "ret", x))
            return x
        k = p.choose([("resolved", None), ("TypeError", None)], f"generic resolution #{len(log)}")
        if k == 1:
            log.append((cls, x, "raise", None))
            raise PyExc(I.make_exc(TypeError, "not understood"))
        r = Obj(bases[0], f"resolved{len(log)}", pre=True)
        log.append((cls, x, "ret", r))
        return r


def _install_native_models(I):
    """assumed contracts on numpy / pandas / polars conversion functions applied to an opaque spelling"""
    import numpy as np
    import pandas as pd

    from pyvc.interp import is_concrete

    def np_dtype(I_, x, *a, **k):
        if is_concrete(x) and not hasattr(x, "base") and not type(x).__name__ == "OpaqueAttr":
            try:
                return np.dtype(x, *a, **k)
            except TypeError as e:
                raise PyExc(I_.make_exc(TypeError, *e.args))
        c = cur().choose([("dtype", None), ("TypeError", None)], "np.dtype(spelling)")
        if c == 1:
            raise PyExc(I_.make_exc(TypeError, "data type not understood"))
        return SAny(name="np_dtype")

    I.models[id(np.dtype)] = np_dtype

    def pandas_dtype(I_, x):
        # documented: "Raises TypeError if not a dtype"
        c = cur().choose([("dtype", None), ("TypeError", None)], "pandas_dtype(spelling)")
        if c == 1:
            raise PyExc(I_.make_exc(TypeError, "data type not understood"))
        return SAny(name="pd_dtype")

    I.models[id(pd.api.types.pandas_dtype)] = pandas_dtype
    from polars.datatypes._parse import parse_py_type_into_dtype

    def parse_py(I_, x):
        # documented in pandera's caller: ValueError for an unknown python type
        c = cur().choose([("dtype", None), ("ValueError", None), ("TypeError", None)], "polars parse(spelling)")
        if c:
            raise PyExc(I_.make_exc([ValueError, TypeError][c - 1], "cannot parse"))
        return SAny(name="pl_dtype")

    I.models[id(parse_py_type_into_dtype)] = parse_py


def _entry(name, mod, kinds):
    class C(Contract):
        __doc__ = f"""{name}_engine.Engine.dtype: (1) the input is first submitted unchanged to the generic resolution and, when
        that succeeds, its answer is returned as is - so an engine instance resolves to itself and a registered key to its
        registered object also through the public entry point; (2) otherwise at most ONE normalised native type is
        re-submitted and its answer returned; (3) only TypeError escapes."""
        target = f"{mod.__name__}:Engine.dtype"
        raises = (TypeError,)
        split = {"kind": kinds}
        params = dict(cls=T.Any, data_type=T.Any)
        use_contracts = (GenericResolution(),)

        def setup(self, I):
            DL.install(I)
            DL.install_str_like(I)
            _install_native_models(I)

        def make_args(self):
            import pandas as pd

            kind = self.fixed.get("kind", kinds[0])
            core.register_model_var("kind", lambda m, k=kind: k)
            if kind == "instance":
                c = mod.Engine._base_pandera_dtypes[0]
                x = Obj(c, "data_type", pre=True)
            elif kind == "alias":
                x = T.fresh_value(T.Str, "data_type")
            elif kind == "native":
                x = Obj(_Native, "data_type", pre=True)
            elif kind == "arrow":
                x = Obj(pd.ArrowDtype, "data_type", pre=True, fields=dict(pyarrow_dtype=T.Any))
            elif kind == "extension_class":
                x = pd.Int64Dtype
            return {"cls": mod.Engine, "data_type": x}

        def call_target(self, I, fn, a):
            return I.call(fn, [a["cls"], a["data_type"]], {})

        def _log(self):
            return cur().ghost.get("generic_resolution_log", [])

        def ensures(self, result, old, cls, data_type):
            log = self._log()
            kind = self.fixed.get("kind", kinds[0])
            out = {"input_submitted_to_generic_resolution_first": len(log) >= 1 and log[0][0] is cls and (log[0][1] is data_type or (name == "pyspark" and kind == "alias"))}
            if kind == "instance":
                out["idempotent_through_the_entry_point"] = result is data_type and len(log) == 1
                return out
            if log and log[0][2] == "ret":
                out["understood_spelling_returned_unchanged"] = result is log[0][3] and len(log) == 1
            else:
                out["fallback_resubmits_at_most_once"] = len(log) <= 2
                if len(log) == 2 and kind == "arrow":
                    # (the geopandas branch - an opaque `== "geometry"` on a foreign dtype - re-submits the object itself)
                    out["arrow_dtype_resubmitted_as_its_pyarrow_type"] = log[1][1] is data_type.attrs.get("pyarrow_dtype") or log[1][1] is data_type
                if len(log) == 2 and kind == "extension_class":
                    x2 = log[1][1]
                    out["extension_class_resubmitted_as_its_default_instance"] = (isinstance(x2, Obj) and x2.cls is data_type and not x2.pre) or isinstance(x2, data_type)
                if len(log) == 2 and kind in ("alias", "native") and name in ("numpy", "polars"):
                    out["resubmitted_value_is_derived_from_the_library_conversion_of_the_input"] = not isinstance(log[1][1], (type, str)) and log[1][1] is not data_type
                if len(log) == 2 and log[1][2] == "ret":
                    out["fallback_answer_is_the_generic_resolution_of_the_normalised_type"] = result is log[1][3]
                else:
                    out["last_resort_boxes_the_native_type"] = isinstance(result, Obj) and result.cls is mod.DataType and not result.pre
            return out

        def on_raise(self, exc, old, cls, data_type):
            kind = self.fixed.get("kind", kinds[0])
            log = self._log()
            return {"engine_instances_never_fail": kind != "instance", "fails_only_after_generic_resolution_failed": bool(log) and log[0][2] == "raise"}

    C.__name__ = f"Entry_{name}"
    return C


class _Native:
    __module__ = "c09_standins"


EntryNumpy = _entry("numpy", numpy_engine, ["instance", "alias", "native"])
EntryPandas = _entry("pandas", pandas_engine, ["instance", "alias", "native", "arrow", "extension_class"])
EntryPolars = _entry("polars", polars_engine, ["instance", "alias", "native"])
EntryPyspark = _entry("pyspark", pyspark_engine, ["instance", "alias", "native"])

CONTRACTS += [PysparkCheck, EntryNumpy, EntryPandas, EntryPolars, EntryPyspark]
HELPER_CONTRACTS += [GenericResolution]
