"""C01 (leaf level): each pandas built-in check computes, element by element, its documented meaning.

result[i] == (not null(data[i]) and spec(data[i], args))   for every row i, all bounds, all flags,
and the result has exactly the rows of the input (same index).
"""
import z3

from contracts import specs
from pyvc import core, types as T
from pyvc.core import And, Iff, Implies, Not, Or, SBool, cur, ite, py_eq
from pyvc.spec import Contract
from pyvc.theories import pandas_lite as PL
from pyvc.theories.pandas_lite import SeriesVal, SymSet

MOD = "pandera.backends.pandas.builtin_checks"


def Series(kind="real"):
    return T.Lazy(lambda name: SeriesVal.fresh(name, kind))


def SetOf(kind="real"):
    return T.Lazy(lambda name: SymSet.fresh(name, kind))


def pointwise(result, data, spec_at, on_null=False):
    """for an arbitrary row i of data: result[i] == (null ? on_null : spec(data[i]))"""
    i = z3.Int(cur().fresh_name("row"))
    core.register_model_var("row", i)
    want = z3.If(data.null(i), z3.BoolVal(on_null), core.as_z3_bool(spec_at(data.at(i))))
    got = core.as_z3_bool(result.at(i))
    return SBool(z3.Implies(data.sel(i), got == want))


class _Leaf(Contract):
    check_frame = False
    kind = "real"

    def setup(self, I):
        PL.install(I)

    def same_rows(self, result, data):
        return isinstance(result, SeriesVal) and result.space is data.space and result._sel is data._sel

    def concretize(self, rec):
        return concretize_leaf(self, rec)


def concretize_leaf(c, rec):
    """turn the z3 model into a real pd.Series + arguments, call the real function, compare with the spec"""
    import fractions

    model = rec.get("model") or {}

    def num(s):
        s = str(s).strip('"')
        try:
            return float(fractions.Fraction(s.replace("?", "")))
        except Exception:
            return s

    def thunk():
        import pandas as pd

        from pyvc.spec import resolve_target

        fn = resolve_target(c.target)
        d = model.get("data")
        if not isinstance(d, dict):
            return False, "no data in model"
        vals = [None if v is None else num(v) for v in d["values"]]
        kind = getattr(c, "kind", "real")
        if kind == "str":
            vals = [None if v is None else str(v) for v in vals]
        s = pd.Series(vals, dtype=object if kind == "str" else float)
        kwargs = {}
        for k in c.params:
            if k == "data":
                continue
            v = model.get(k)
            if v is None or v == "None":
                kwargs[k] = None
            elif v in ("True", "False"):
                kwargs[k] = v == "True"
            else:
                kwargs[k] = num(v) if kind != "str" or k in ("min_value", "max_value") else str(v).strip('"')
            if k in ("min_value", "max_value") and kind == "str" and kwargs[k] is not None:
                kwargs[k] = int(kwargs[k])
        try:
            out = fn(s, **kwargs)
            got = list(out)
        except Exception as e:
            return False, f"real call raised {type(e).__name__}: {e}"
        exp = c.concrete_spec(s, **kwargs)
        return got != exp, {"data": vals, "args": kwargs, "real_result": got, "spec": exp}

    return thunk


def _mk_cmp(name, spec, argname, none_raises=False):
    class C(_Leaf):
        target = f"{MOD}:{name}"
        params = {"data": Series("real"), argname: T.Ord if not none_raises else T.Opt(T.Ord)}
        raises = (ValueError,) if none_raises else ()

        def ensures(self, result, old, data, **kw):
            v = kw[argname]
            out = {}
            if none_raises:
                out["none_bound_rejected"] = v is not None
                if v is None:
                    return out
            on_null = name == "not_equal_to"
            out["pointwise"] = pointwise(result, data, lambda x: spec(x, v), on_null=on_null)
            out["same_rows"] = self.same_rows(result, data)
            return out

        def on_raise(self, exc, old, data, **kw):
            return {"raises_only_for_none_bound": kw[argname] is None}

        def concrete_spec(self, s, **kw):
            import math

            v = kw[argname]
            ops = {"equal_to": lambda x: x == v, "not_equal_to": lambda x: x != v, "greater_than": lambda x: x > v,
                   "greater_than_or_equal_to": lambda x: x >= v, "less_than": lambda x: x < v, "less_than_or_equal_to": lambda x: x <= v}
            return [(name == "not_equal_to") if (x is None or (isinstance(x, float) and math.isnan(x))) else bool(ops[name](x)) for x in s]

    C.__name__ = "Leaf_" + name
    return C


Eq = _mk_cmp("equal_to", specs.equal_to, "value")
Ne = _mk_cmp("not_equal_to", specs.not_equal_to, "value")
Gt = _mk_cmp("greater_than", specs.greater_than, "min_value")
Ge = _mk_cmp("greater_than_or_equal_to", specs.greater_than_or_equal_to, "min_value")
Lt = _mk_cmp("less_than", specs.less_than, "max_value", none_raises=True)
Le = _mk_cmp("less_than_or_equal_to", specs.less_than_or_equal_to, "max_value", none_raises=True)


class InRange(_Leaf):
    target = f"{MOD}:in_range"
    params = dict(data=Series("real"), min_value=T.Ord, max_value=T.Ord, include_min=T.Bool, include_max=T.Bool)

    def ensures(self, result, old, data, min_value, max_value, include_min, include_max):
        return {
            "pointwise": pointwise(result, data, lambda x: specs.in_range(x, min_value, max_value, include_min, include_max)),
            "same_rows": self.same_rows(result, data),
        }

    def concrete_spec(self, s, min_value, max_value, include_min, include_max):
        import math

        out = []
        for x in s:
            if x is None or (isinstance(x, float) and math.isnan(x)):
                out.append(False)
                continue
            lo = min_value <= x if include_min else min_value < x
            hi = x <= max_value if include_max else x < max_value
            out.append(bool(lo and hi))
        return out


class IsIn(_Leaf):
    target = f"{MOD}:isin"
    params = dict(data=Series("real"), allowed_values=SetOf("real"))

    def ensures(self, result, old, data, allowed_values):
        return {"pointwise": pointwise(result, data, lambda x: specs.isin(x, allowed_values)), "same_rows": self.same_rows(result, data)}


class NotIn(_Leaf):
    target = f"{MOD}:notin"
    params = dict(data=Series("real"), forbidden_values=SetOf("real"))

    def ensures(self, result, old, data, forbidden_values):
        # a null element is not one of the forbidden values
        return {"pointwise": pointwise(result, data, lambda x: specs.notin(x, forbidden_values), on_null=True),
                "same_rows": self.same_rows(result, data)}


class StrLength(_Leaf):
    target = f"{MOD}:str_length"
    kind = "str"
    params = dict(data=Series("str"), min_value=T.Opt(T.Int), max_value=T.Opt(T.Int))
    raises = (ValueError,)

    def ensures(self, result, old, data, min_value, max_value):
        if min_value is None and max_value is None:
            return {"needs_a_bound": False}
        return {
            "pointwise": pointwise(result, data, lambda x: specs.str_length(x.slen(), min_value, max_value)),
            "same_rows": self.same_rows(result, data),
        }

    def on_raise(self, exc, old, data, min_value, max_value):
        return {"raises_only_without_bounds": min_value is None and max_value is None}

    def concrete_spec(self, s, min_value, max_value):
        out = []
        for x in s:
            if x is None or x != x:
                out.append(False)
                continue
            ok = True
            if min_value is not None:
                ok = ok and len(x) >= min_value
            if max_value is not None:
                ok = ok and len(x) <= max_value
            out.append(ok)
        return out


def _mk_str(name, argname, f):
    class C(_Leaf):
        target = f"{MOD}:{name}"
        kind = "str"
        params = {"data": Series("str"), argname: T.Str}

        def ensures(self, result, old, data, **kw):
            return {"pointwise": pointwise(result, data, lambda x: f(x, kw[argname])), "same_rows": self.same_rows(result, data)}

    C.__name__ = "Leaf_" + name
    return C


StartsWith = _mk_str("str_startswith", "string", lambda x, p: x.startswith(p))
EndsWith = _mk_str("str_endswith", "string", lambda x, p: x.endswith(p))
# regular expressions are the uninterpreted relations rx_match (anchored at the start) / rx_search
StrMatches = _mk_str("str_matches", "pattern", lambda x, p: PL.rx("match", p, x))
StrContains = _mk_str("str_contains", "pattern", lambda x, p: PL.rx("search", p, x))


def install_set_model(I):
    """set(series.unique()) == values  : set equality by extensionality"""
    import builtins

    def set_model(I, v=()):
        if isinstance(v, SymSet):
            return SetEqWrap(v)
        return set(I.concrete_iter(v))

    I.models[id(builtins.set)] = set_model


class UniqueValuesEq(_Leaf):
    """unique_values_eq: passes iff the set of (non-null) values equals `values` (a set: the Check
    constructor passes a frozenset - that call-site precondition is checked structurally below)."""

    target = f"{MOD}:unique_values_eq"
    params = dict(data=Series("real"), values=SetOf("real"))

    def setup(self, I):
        super().setup(I)
        install_set_model(I)

    def ensures(self, result, old, data, values):
        x = core.sym_real("elem")
        uniq = data.unique()
        want = Iff(uniq.member(x), values.member(x))
        # result <=> forall x. (x in unique(data)) == (x in values)
        xb = z3.Real(cur().fresh_name("xq"))
        from pyvc.core import SNum

        full = SBool(z3.ForAll([xb], core.as_z3_bool(Iff(uniq.member(SNum(xb)), values.member(SNum(xb))))))
        # (a missing cell makes NaN an element of the unique values, which no requested value equals; under ignore_na the check
        # back end drops the missing cells before the check sees them: PandasCheckBackend.preprocess)
        return {"set_equality": Iff(result, And(full, Not(uniq.has_null)))}


class SetEqWrap:
    __pyvc_symbolic__ = True

    def __init__(self, s):
        self.s = s

    def __eq__(self, other):
        if isinstance(other, (SymSet, SetEqWrap)):
            o = other.s if isinstance(other, SetEqWrap) else other
            xb = z3.Real(cur().fresh_name("xs"))
            from pyvc.core import SNum

            same = SBool(z3.ForAll([xb], core.as_z3_bool(Iff(self.s.member(SNum(xb)), o.member(SNum(xb))))))
            # the missing value is an element like any other: both sets hold it or neither does
            return And(same, Iff(getattr(self.s, "has_null", False), getattr(o, "has_null", False)))
        return False

    __hash__ = object.__hash__


CONTRACTS = [Eq, Ne, Gt, Ge, Lt, Le, InRange, IsIn, NotIn, StrLength, StartsWith, EndsWith, StrMatches, StrContains, UniqueValuesEq]
