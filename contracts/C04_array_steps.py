"""C04 (pandas fields): the two steps of ArraySchemaBackend.validate that decide WHOSE buffers the parsing steps write.

ArrayValidate (C04_field_validate) assumes two callee contracts; they are discharged here on the real bodies:

preprocess(check_obj, inplace)                     "copy-on-entry"
    post.inplace_hands_back_the_callers_object     inplace => result is check_obj
    post.otherwise_a_deep_copy                     not inplace => result is a new object that shares NO buffer with check_obj (a shallow
                                                   copy is a new container over the caller's buffers: any later in-place step - a default
                                                   fill, a user parser working in place - would then write the caller's data)
    frame: the argument is not written
set_default(check_obj, schema)                     for a Series / a table holding the column schema.name, every default value
    post.series_result_is_a_new_object             a Series argument is never filled in place: the filled series is a new object
    post.series_argument_not_written               (with inplace=True the caller's series is the argument; C04 allows the write there, but
                                                   the documented behaviour is `validate` RETURNS the parsed object - and with
                                                   inplace=False the argument may share buffers with the caller's object only if
                                                   preprocess broke its contract; both are reported separately)
    post.nulls_are_filled_with_the_default         result[i] = default where the argument is null, unchanged elsewhere
    post.table_writes_only_the_named_column        a table argument: exactly one assignment, to check_obj[schema.name]; returned as is
"""
import z3

from pyvc import core, types as T
from pyvc.core import SAny, SBool, cur, py_eq
from pyvc.spec import Contract
from pyvc.theories import pandas_lite as PL
from pyvc.theories.pandas_lite import FrameVal, SeriesVal
from contracts.util import fld, fld0

ARR = "pandera.backends.pandas.array:ArraySchemaBackend"
DFB = "pandera.backends.pandas.container:DataFrameSchemaBackend"


def _obj(kind):
    return SeriesVal.fresh("check_obj", "real") if kind == "Series" else FrameVal.fresh("check_obj")


class ArrayPreprocess(Contract):
    target = f"{ARR}.preprocess"
    split = {"kind": ["Series", "DataFrame"], "inplace": [True, False]}

    def setup(self, I):
        PL.install(I)

    def make_args(self):
        from pandera.backends.pandas.array import ArraySchemaBackend as B

        obj = _obj(self.fixed.get("kind", "Series"))
        obj.pre = True
        cur().ghost.setdefault("data_objects", []).append(obj)
        return {"self": T.Ref(B).fresh("self"), "check_obj": obj, "inplace": self.arg("inplace", T.Bool)}

    def call_target(self, I, fn, a):
        return I.call(fn, [a["self"], a["check_obj"]], {"inplace": a["inplace"]})

    def ensures(self, result, old, self_, check_obj, inplace):
        out = {"argument_not_written": not check_obj.mutations}
        if inplace is True:
            out["inplace_hands_back_the_callers_object"] = result is check_obj
        else:
            out["otherwise_a_deep_copy"] = isinstance(result, (SeriesVal, FrameVal)) and result is not check_obj and getattr(result, "buffer_root", None) is None
        return out

    def concretize(self, rec):
        def thunk():
            """the real method on real data: write the returned object in place, look at the caller's"""
            import warnings

            import numpy as np
            import pandas as pd
            from pandera.backends.pandas.array import ArraySchemaBackend

            warnings.simplefilter("ignore")
            obs, bad = {}, False
            for cow in (False, True):
                try:
                    pd.set_option("mode.copy_on_write", cow)
                except Exception:  # noqa: BLE001
                    continue
                try:
                    s = pd.Series([1.0, np.nan, 3.0])
                    r = ArraySchemaBackend().preprocess(s, inplace=False)
                    shares = bool(np.shares_memory(r.to_numpy(), s.to_numpy()))
                    r.fillna(0.0, inplace=True)
                    written = not bool(s.isna().any())
                    obs[f"copy_on_write={cow}"] = {"result shares memory with the argument": shares, "caller's series after an in-place fill of the result": s.tolist()}
                    bad = bad or written or (shares and not cow)
                finally:
                    pd.set_option("mode.copy_on_write", False)
            return bad, obs

        return thunk


class ContainerPreprocess(ArrayPreprocess):
    target = f"{DFB}.preprocess"
    split = {"kind": ["DataFrame"], "inplace": [True, False]}

    def make_args(self):
        a = super().make_args()
        from pandera.backends.pandas.container import DataFrameSchemaBackend as B

        a["self"] = T.Ref(B).fresh("self")
        return a

    def concretize(self, rec):
        def thunk():
            import warnings

            import numpy as np
            import pandas as pd
            from pandera.backends.pandas.container import DataFrameSchemaBackend

            warnings.simplefilter("ignore")
            df = pd.DataFrame({"a": [1.0, np.nan]})
            r = DataFrameSchemaBackend().preprocess(df, inplace=False)
            shares = bool(np.shares_memory(r["a"].to_numpy(), df["a"].to_numpy()))
            return shares or r is df, {"result shares memory with the argument": shares, "result is the argument": r is df}

        return thunk


class ArraySetDefault(Contract):
    target = f"{ARR}.set_default"
    split = {"kind": ["Series", "DataFrame"]}

    def setup(self, I):
        PL.install(I)

    def make_args(self):
        from pandera.backends.pandas.array import ArraySchemaBackend as B

        obj = _obj(self.fixed.get("kind", "Series"))
        obj.pre = True
        schema = T.Ref(None, default=T.Real, name=T.Label).fresh("schema")
        return {"self": T.Ref(B).fresh("self"), "check_obj": obj, "schema": schema}

    def requires(self, self_, check_obj, schema):
        if isinstance(check_obj, FrameVal):
            return check_obj.has_col(fld(schema, "name"))  # call-site precondition, as for ArrayValidate
        return True

    def modifies(self, self_, check_obj, schema):
        return [(check_obj, "data")] if isinstance(check_obj, FrameVal) else []

    def call_target(self, I, fn, a):
        return I.call(fn, [a["self"], a["check_obj"], a["schema"]], {})

    def ensures(self, result, old, self_, check_obj, schema):
        d = fld0(schema, "default")
        i = z3.Int(cur().fresh_name("row"))
        core.register_model_var("row", i)
        out = {}
        import pandas as pd

        col = check_obj if isinstance(check_obj, SeriesVal) else check_obj.col_fn(fld0(schema, "name"))
        sparse = col is not None and col.dtype_ is not None and cur().ghost["interp"].truth(col.dtype.pyvc_isinstance(pd.SparseDtype))
        if sparse:  # "Ignore sparse dtype as it can't assign default value directly": handed back untouched
            return {"sparse_data_handed_back_untouched": result is check_obj and not check_obj.mutations}
        if isinstance(check_obj, SeriesVal):
            out["series_result_is_a_new_object"] = isinstance(result, SeriesVal) and result is not check_obj
            out["series_argument_not_written"] = not check_obj.mutations
            filled = result if isinstance(result, SeriesVal) and result is not check_obj else None
            src = check_obj
        else:
            nm = fld0(schema, "name")
            out["table_returned_as_is"] = result is check_obj
            muts = check_obj.mutations
            out["table_writes_only_the_named_column"] = [m[0] for m in muts] == ["setitem"] and py_eq(muts[0][1], nm)
            new = list(check_obj.overrides.values())[0] if len(check_obj.overrides) == 1 else None
            filled = new if isinstance(new, SeriesVal) else None
            src = check_obj.col_fn(nm)
            out["the_named_column_is_assigned_a_series"] = filled is not None
        if filled is not None:
            same_or_default = core.as_z3_bool(py_eq(filled.at(i), core.ite(SBool(src.null(i)), d, src.at(i))))
            out["nulls_are_filled_with_the_default"] = SBool(z3.Implies(check_obj.sel(i), z3.And(z3.Not(filled.null(i)), same_or_default)))
        return out

    def concretize(self, rec):
        def thunk():
            import warnings

            import numpy as np
            import pandas as pd
            import pandera as pa

            warnings.simplefilter("ignore")
            s = pd.Series([1.0, np.nan, 3.0], name="x")
            before = s.copy()
            out = pa.SeriesSchema(float, nullable=True, default=0.0).validate(s)
            df = pd.DataFrame({"x": [1.0, np.nan]})
            dfb = df.copy()
            pa.DataFrameSchema({"x": pa.Column(float, nullable=True, default=0.0)}).validate(df)
            bad = not s.equals(before) or not df.equals(dfb)
            return bad, {"caller's series after validate(inplace=False)": s.tolist(), "returned": out.tolist(), "caller's frame after validate(inplace=False)": df["x"].tolist()}

        return thunk


CONTRACTS = [ArrayPreprocess, ContainerPreprocess, ArraySetDefault]
