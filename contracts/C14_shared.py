"""C14: contracts shared with C12 - the io entry points write / read the serialised form itself (an inferred schema survives the YAML
round trip only if nothing is converted between serialize_schema and the text)."""
from contracts.C12_wire import CONTRACTS as WIRE

CONTRACTS = list(WIRE)
