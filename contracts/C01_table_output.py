"""C01 / C02 / C19 (pandas check back end): PandasCheckBackend.postprocess_table - a dataframe-wide check whose function returns a
boolean TABLE (one verdict per cell, e.g. `Check(lambda df: df > 0)`).

Documentation (Check): "ignore_na: if True, null values will be ignored when determining if a check passed or failed" - per CELL here,
the output being cell-shaped.  Specification, for a table with columns a, b and ANY number of rows (unique labels; any values, any nulls):
    post.cell_verdicts                out[c](i) == raw[c](i) or (ignore_na and the output is aligned with the table and cell (i, c) is null)
    post.verdict_is_all_cells         check_passed  <=>  every cell of `out` is True
    post.reports_the_table            checked_object is the table
    post.a_row_is_reported_iff_it_has_a_failing_cell_with_a_value     (n_failure_cases=None)  row i is among the failure cases  <=>
                                      some cell (i, c) has out[c](i) False and holds a value (a null cell has nothing to show)
    post.each_reported_row_lists_exactly_its_failing_cells            the {column: value} mapping of row i has key c  <=>  cell (i, c) fails with a value
    post.truncation_only_on_request   with n_failure_cases=n the report is the first n of those rows
An output over OTHER rows than the table's is outside this theory (label alignment of a boolean table): bounded stand-in only.

The re-shaping the function does with the failing cells (to_frame / assign / rename_axis / reset_index per column, concat,
set_index / groupby("index") / agg(to_dict)) is modelled by the small theory below: its operations are defined only in the order the
function uses them, every other use is UNSUPPORTED (undecided), never silently accepted.  Assumption (stated): row labels are unique - with
repeated labels `groupby("index")` merges the failing cells of the rows that share a label (C02; bounded stand-in observes it).
"""
import z3

from pandera.api.base.checks import CheckResult
from pyvc import core
from pyvc.core import And, Iff, Implies, Not, Or, SAny, SBool, Unsupported, cur
from pyvc.heap import Obj
from pyvc.spec import Contract
from pyvc.theories import pandas_lite as PL
from pyvc.theories.pandas_lite import FrameVal, SeriesVal
from contracts.util import fld0
from contracts.C19_check_options import backend

CB = "pandera.backends.pandas.checks:PandasCheckBackend"
COLS = ["a", "b"]


def _zb(x):
    return core.as_z3_bool(x)


class BoolTable:
    """a DataFrame of booleans: one z3 predicate per column over the rows of `space`"""

    __pyvc_symbolic__ = True

    def __init__(self, space, cols, sel, aligned_with=None):
        self.space, self.cols, self._sel, self.aligned_with = space, dict(cols), sel, aligned_with

    @classmethod
    def fresh(cls, name, like=None):
        if like is not None:
            space, sel = like.space, like._sel
        else:
            other = FrameVal.fresh(name, columns=COLS)
            space, sel = other.space, other._sel
        cols = {}
        for c in COLS:
            f = z3.Function(cur().fresh_name(f"{name}_{c}"), z3.IntSort(), z3.BoolSort())
            cols[c] = (lambda i, f=f: f(i))
        return cls(space, cols, sel, aligned_with=like)

    def pyvc_class(self):
        import pandas as pd

        return pd.DataFrame

    def sel(self, i):
        return z3.And(self.space.inb(i), self._sel(i))

    @property
    def shape(self):
        return (PL.view_len(self), len(self.cols))

    @property
    def dtypes(self):
        import numpy as np

        return _Items([(c, np.dtype(bool)) for c in self.cols])  # (a table of booleans; the object-dtype empty table is not modelled)

    @property
    def columns(self):
        return list(self.cols)

    @property
    def index(self):
        return _TableIndex(self)

    def pyvc_getitem(self, I, k):
        if isinstance(k, str) and k in self.cols:
            f = self.cols[k]
            return SeriesVal(self.space, lambda i: SBool(f(i)), lambda i: z3.BoolVal(False), self._sel, k, "bool", bool)
        raise Unsupported(f"boolean table [{k!r}]")

    def __or__(self, other):
        if isinstance(other, PL._FrameIsNa) and other.frame.space is self.space:
            fr = other.frame
            return BoolTable(self.space, {c: (lambda i, c=c, f=f: z3.Or(f(i), fr.col_fn(c).null(i))) for c, f in self.cols.items()}, self._sel, self.aligned_with)
        raise Unsupported("boolean table | <something other than isna() of the aligned table>")

    def __invert__(self):
        return BoolTable(self.space, {c: (lambda i, f=f: z3.Not(f(i))) for c, f in self.cols.items()}, self._sel, self.aligned_with)

    def all(self, axis=0, **kw):
        if axis is not None:
            raise Unsupported("boolean table .all(axis) other than axis=None")
        i = z3.Int(cur().fresh_name("i"))
        return SBool(z3.ForAll([i], z3.Implies(self.sel(i), z3.And(*[f(i) for f in self.cols.values()]))))


class _Items:
    __pyvc_symbolic__ = True

    def __init__(self, pairs):
        self.pairs = pairs

    def items(self):
        return list(self.pairs)


class _TableIndex:
    __pyvc_symbolic__ = True

    def __init__(self, owner):
        self.owner = owner

    def pyvc_class(self):
        import pandas as pd

        return pd.Index


class MaskedTable:
    """table[mask]: the table's cells where the mask is True, a missing value elsewhere (all rows kept)"""

    __pyvc_symbolic__ = True

    def __init__(self, frame, mask):
        self.frame, self.mask = frame, mask

    @property
    def columns(self):
        return list(self.mask.cols)

    def pyvc_getitem(self, I, k):
        if isinstance(k, str) and k in self.mask.cols:
            col, m = self.frame.col_fn(k), self.mask.cols[k]
            s = col.derive(sel=self.frame._sel, null=lambda i: z3.Or(col.null(i), z3.Not(m(i))))
            s.cell_of = k
            return s
        raise Unsupported(f"masked table [{k!r}]")


class CasesPart:
    """cases.to_frame().assign(column=c).rename_axis("index").reset_index(): the failing cells of ONE column in long form -
    rows (index=label, failure_case=value, column=c) for the rows selected in `cases`"""

    __pyvc_symbolic__ = True

    def __init__(self, cases, steps=("to_frame",), column=None):
        self.cases, self.steps, self.column = cases, tuple(steps), column

    def _next(self, step, expect, **kw):
        if self.steps != expect:
            raise Unsupported(f"failure-case re-shaping: .{step} after {self.steps}")
        return CasesPart(self.cases, self.steps + (step,), kw.get("column", self.column))

    def assign(self, **kw):
        if list(kw) != ["column"]:
            raise Unsupported("failure-case re-shaping: assign of another column")
        return self._next("assign", ("to_frame",), column=kw["column"])

    def rename_axis(self, name):
        if name != "index":
            raise Unsupported("failure-case re-shaping: rename_axis to another name")
        return self._next("rename_axis", ("to_frame", "assign"))

    def reset_index(self, **kw):
        if kw:
            raise Unsupported("failure-case re-shaping: reset_index options")
        return self._next("reset_index", ("to_frame", "assign", "rename_axis"))


class LongCases:
    """pd.concat of the per-column parts, then set_index("column").groupby("index").agg(to_dict): one row per LABEL that has a failing
    cell, holding {column: value} of its failing cells"""

    __pyvc_symbolic__ = True

    def __init__(self, parts, stage="concat", truncated_to=None):
        self.parts, self.stage, self.truncated_to = list(parts), stage, truncated_to

    def pyvc_class(self):
        import pandas as pd

        return pd.DataFrame

    def set_index(self, key):
        if key != "column" or self.stage != "concat":
            raise Unsupported("failure-case re-shaping: set_index")
        return LongCases(self.parts, "set_index")

    def groupby(self, key):
        if key != "index" or self.stage != "set_index":
            raise Unsupported("failure-case re-shaping: groupby")
        return LongCases(self.parts, "groupby")

    def agg(self, fn):
        if self.stage != "groupby":
            raise Unsupported("failure-case re-shaping: agg")
        return LongCases(self.parts, "rows_per_label")

    def reported(self, i):
        """z3: row i of the table has a row in the report"""
        return z3.Or(*[p.cases.sel(i) for p in self.parts]) if self.parts else z3.BoolVal(False)

    @property
    def empty(self):
        i = z3.Int(cur().fresh_name("i"))
        return SBool(z3.Not(z3.Exists([i], self.reported(i))))

    def drop_duplicates(self):
        # rows are (label, {column: value}) with unique labels: nothing to drop
        return self

    def head(self, n):
        return LongCases(self.parts, self.stage, truncated_to=n)


class NoCases:
    """pd.DataFrame(columns=["index", "failure_case"]): the empty report"""

    __pyvc_symbolic__ = True

    def pyvc_class(self):
        import pandas as pd

        return pd.DataFrame

    @property
    def empty(self):
        return True


_ORIG_EQUALS = PL.IndexVal.equals


class PostprocessTableCells(Contract):
    target = f"{CB}.postprocess_table"
    split = {"index": ["same"]}  # (an output over OTHER rows: `table[~output]` aligns a boolean table on labels - not modelled, bounded stand-in)
    check_frame = False

    def setup(self, I):
        import pandas as pd

        PL.install(I)
        orig_concat = I.models[id(pd.concat)]

        def concat(I_, objs, axis=0, **kw):
            objs = list(objs)
            if objs and all(isinstance(o, CasesPart) for o in objs):
                if axis != 0 or any(o.steps != ("to_frame", "assign", "rename_axis", "reset_index") for o in objs):
                    raise Unsupported("failure-case re-shaping: concat of unfinished parts")
                return LongCases(objs)
            return orig_concat(I_, objs, axis=axis, **kw)

        I.models[id(pd.concat)] = concat
        orig_df = I.models.get(id(pd.DataFrame))

        def dataframe(I_, data=None, index=None, columns=None, **kw):
            if data is None and index is None and columns is not None and list(columns) == ["index", "failure_case"] and not kw:
                return NoCases()
            if orig_df is None:
                raise Unsupported("pd.DataFrame(...)")
            return orig_df(I_, data, index=index, columns=columns, **kw)

        I.models[id(pd.DataFrame)] = dataframe

    def make_args(self):
        obj = FrameVal.fresh("check_obj", columns=COLS)
        same = self.fixed.get("index", "same") == "same"
        out = BoolTable.fresh("check_output", like=obj if same else None)
        cur().ghost.update(obj=obj, raw=out)
        return {"self": backend().fresh("self"), "check_obj": obj, "check_output": out}

    def call_target(self, I, fn, a):
        return I.call(fn, [a["self"], a["check_obj"], a["check_output"]], {})

    def requires(self, self_, check_obj, check_output):
        # `assert check_obj.shape == check_output.shape`: the caller hands over an output of the table's shape
        if check_output.space is not check_obj.space:
            return core.py_eq(PL.view_len(check_obj), PL.view_len(check_output))
        return True

    def ensures(self, result, old, self_, check_obj, check_output):
        ign = _zb(fld0(fld0(self_, "check"), "ignore_na"))
        nfc = fld0(fld0(self_, "check"), "n_failure_cases")
        same = self.fixed.get("index", "same") == "same"
        out = {"is_check_result": isinstance(result, Obj) and result.cls is CheckResult}
        if not out["is_check_result"]:
            return out
        rep, passed, fc = result.attrs["check_output"], result.attrs["check_passed"], result.attrs["failure_cases"]
        out["reports_the_table"] = result.attrs["checked_object"] is check_obj
        out["reports_a_table_of_cell_verdicts"] = isinstance(rep, BoolTable) and rep.space is check_output.space and list(rep.cols) == COLS
        if not out["reports_a_table_of_cell_verdicts"]:
            return out
        i = z3.Int(cur().fresh_name("row"))
        core.register_model_var("row", i)
        raw = cur().ghost["raw"]
        for c in COLS:
            null_c = check_obj.col_fn(c).null(i)
            want = z3.Or(raw.cols[c](i), z3.And(ign, null_c)) if same else raw.cols[c](i)
            out["cell_verdicts"] = And(out.get("cell_verdicts", True), SBool(z3.Implies(rep.sel(i), rep.cols[c](i) == want)))
        j = z3.Int(cur().fresh_name("j"))
        out["verdict_is_all_cells"] = Iff(passed, SBool(z3.ForAll([j], z3.Implies(rep.sel(j), z3.And(*[rep.cols[c](j) for c in COLS])))))
        # the report: rows with a failing cell that holds a value
        fails = {c: z3.And(check_obj.sel(i), z3.Not(rep.cols[c](i)), z3.Not(check_obj.col_fn(c).null(i))) for c in COLS} if same else None
        if isinstance(fc, NoCases):
            if same:
                out["an_empty_report_only_without_failing_cells"] = SBool(z3.Not(z3.Or(*fails.values())))
            return out
        out["report_is_one_row_per_label_with_its_failing_cells"] = isinstance(fc, LongCases) and fc.stage == "rows_per_label"
        if not out["report_is_one_row_per_label_with_its_failing_cells"] or not same:
            return out
        if fc.truncated_to is None:
            out["truncation_only_on_request"] = nfc is None
            out["a_row_is_reported_iff_it_has_a_failing_cell_with_a_value"] = SBool(fc.reported(i) == z3.Or(*fails.values()))
            by_col = {p.column: p for p in fc.parts}
            out["each_column_contributes_at_most_one_part"] = len(by_col) == len(fc.parts) and set(by_col) <= set(COLS)
            for c in COLS:
                listed = by_col[c].cases.sel(i) if c in by_col else z3.BoolVal(False)
                out["each_reported_row_lists_exactly_its_failing_cells"] = And(out.get("each_reported_row_lists_exactly_its_failing_cells", True), SBool(listed == fails[c]))
        else:
            out["truncation_only_on_request"] = fc.truncated_to is nfc and nfc is not None
        return out

    def concretize(self, rec):
        def thunk():
            import warnings

            import numpy as np
            import pandas as pd
            import pandera as pa
            from pandera.backends.pandas.checks import PandasCheckBackend

            warnings.simplefilter("ignore")
            obs, bad = {}, False
            df = pd.DataFrame({"a": [1.0, -1.0, np.nan], "b": [-1.0, -2.0, 3.0]}, index=[10, 11, 12])
            for ign in (True, False):
                res = PandasCheckBackend(pa.Check(lambda d: d > 0, ignore_na=ign)).postprocess_table(df, df > 0)
                want_out = (df > 0) | df.isna() if ign else (df > 0)
                cells = sorted((int(r), c) for r, row in res.failure_cases.iterrows() for c in (row["failure_case"] or {})) if len(res.failure_cases) else []
                want_cells = sorted((int(r), c) for c in ("a", "b") for r in df.index if not want_out.loc[r, c] and not pd.isna(df.loc[r, c]))
                if bool(res.check_passed) != bool(want_out.all(axis=None)) or not res.check_output.equals(want_out) or cells != want_cells:
                    bad = True
                    obs[f"ignore_na={ign}"] = {"check_passed": bool(res.check_passed), "failing cells reported": cells, "expected": want_cells}
            return bad, obs or "cell verdicts, verdict and reported cells agree with the specification on a 3x2 table with a null cell"

        return thunk


# FrameVal[BoolTable]: the masked table (hook on the shared class: every other key goes the usual way)
_orig_getitem = FrameVal.pyvc_getitem


def _getitem(self, I, k):
    if isinstance(k, BoolTable):
        if k.space is not self.space:
            raise Unsupported("table[mask over other rows]: label alignment of a boolean table is not modelled")
        return MaskedTable(self, k)
    return _orig_getitem(self, I, k)


FrameVal.pyvc_getitem = _getitem

_orig_to_frame = getattr(SeriesVal, "to_frame", None)


def _to_frame(self, *a, **k):
    if getattr(self, "name", None) == "failure_case" and not a and not k:
        return CasesPart(self)
    if _orig_to_frame is None:
        raise Unsupported("Series.to_frame()")
    return _orig_to_frame(self, *a, **k)


SeriesVal.to_frame = _to_frame
PL.IndexVal.equals = lambda self, other: (isinstance(other, _TableIndex) and other.owner.aligned_with is not None and other.owner.space is self.owner.space) if isinstance(other, _TableIndex) else _ORIG_EQUALS(self, other)

CONTRACTS = [PostprocessTableCells]
