"""C05 / C15: comparing schemas never raises.

C05 observes immutability by comparing a schema with a snapshot ("it stays equal to a snapshot taken before"), C15 states its laws as
equalities (`reset_index(set_index(S, k), k) == S`).  `==` between any schema and ANY other object - a schema of another kind, None (the
`index` of a schema without index is None: DataFrameSchema.__eq__ compares the attribute dictionaries, and so compares an Index with None)
- answers, it does not raise:
    Index.__eq__ / MultiIndex.__eq__ / ComponentSchema.__eq__ (polars Column)     post.foreign_operand_is_not_equal   NotImplemented (python then
                                                                                  answers False) for an operand that is not of the receiver's kind
                                                                                  post.same_kind_compares_the_attributes
"""
from pyvc import core, types as T
from pyvc.core import SAny, cur
from pyvc.spec import Contract

TARGETS = {"Index": "pandera.api.pandas.components:Index.__eq__", "MultiIndex": "pandera.api.pandas.components:MultiIndex.__eq__",
           "ComponentSchema": "pandera.api.dataframe.components:ComponentSchema.__eq__"}


def _mk(label, target):
    class E(Contract):
        split = {"other": ["None", "another_kind_of_object", "same_kind"]}
        raises = ()
        check_frame = False

        def make_args(self):
            mod, path = target.split(":")
            cls = getattr(__import__(mod, fromlist=["x"]), path.split(".")[0])
            me = T.Ref(cls).fresh("self")
            kind = self.fixed.get("other", "None")

            class Foreign:
                pass

            other = None if kind == "None" else (T.Ref(Foreign).fresh("other") if kind == "another_kind_of_object" else T.Ref(cls).fresh("other"))
            return {"self": me, "other": other}

        def call_target(self, I, fn, a):
            return I.call(fn, [a["self"], a["other"]], {})

        def ensures(self, result, old, self_, other):
            if self.fixed.get("other", "None") != "same_kind":
                return {"foreign_operand_is_not_equal": result is NotImplemented or result is False}
            return {"same_kind_compares_the_attributes": result is not NotImplemented}

        def concretize(self, rec):
            def thunk():
                import warnings

                import pandera as pa
                import pandera.polars as pp

                warnings.simplefilter("ignore")
                obs, bad = {}, False
                with_index = pa.DataFrameSchema({"a": pa.Column(int)}, index=pa.Index(int))
                without = pa.DataFrameSchema({"a": pa.Column(int)})
                for name, f in (("schema with index == schema without", lambda: with_index == without), ("schema without index == schema with", lambda: without == with_index),
                                ("Index == None", lambda: pa.Index(int) == None), ("MultiIndex == None", lambda: pa.MultiIndex([pa.Index(int, name="i")]) == None),  # noqa: E711
                                ("polars Column == None", lambda: pp.Column(int) == None)):  # noqa: E711
                    try:
                        got = f()
                    except Exception as e:  # noqa: BLE001
                        got = f"raised {type(e).__name__}"
                    if got is not False:
                        bad = True
                        obs[name] = f"{got}, expected False"
                return bad, obs or "comparisons with foreign operands answer False"

            return thunk

    E.target = target
    E.__name__ = f"Eq_{label}"
    return E


CONTRACTS = [_mk(k, v) for k, v in TARGETS.items()]
