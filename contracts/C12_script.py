"""C12 (script leg) - the text emitted by to_script evaluates to the schema it was written for.

The emitters are string templates.  `pyvc.theories.text` keeps every string operation structural (template + slot
values, joins, repr, hand-made quotes) and axiomatises python evaluation of the resulting expression forms (E1-E5).
Obligation per template slot: the text put into the slot evaluates to the attribute the slot is named after.
That every serialisable constructor argument HAS a slot of its own name, and that each template is a call of the right
constructor with `kw={kw}` slots only, is decided on the live templates in C12_structure.py.
"""
import z3

from pyvc import core, types as T
from pyvc.core import And, Iff, Implies, Not, Or, SAny, SBool, SNum, SStr, cur, ite, py_eq
from pyvc.heap import DictObj, ListObj, Obj
from pyvc.spec import Contract
from pyvc.theories import serial, text
from pyvc.theories.serial import FlowJson, JsonList, TdVal, TsVal
from pyvc.theories.text import Concat, Joined, Repr, Tmpl, Txt, evaluates_to
from pyvc.values import Fmt

import importlib

RT = importlib.import_module("contracts.C12_roundtrip")
IO = RT.IO
NAMES, SHAPES, DTYPE_KINDS = RT.NAMES, RT.SHAPES, RT.DTYPE_KINDS


def io_mod():
    import pandera.io.pandas_io as m

    return m


# ---------------------------------------------------------------------------------------
# reading the emitted text
# ---------------------------------------------------------------------------------------


def keyword_pairs(t):
    """the `k=<text>` arguments of an argument-list text, in order; None when the text has another form"""
    if isinstance(t, Concat):
        out = []
        for p in t.parts_list:
            if isinstance(p, str):
                if p.strip() not in (",", ""):
                    return None
                continue
            sub = keyword_pairs(p)
            if sub is None:
                return None
            out += sub
        return out
    if isinstance(t, Joined):
        if t.sep.strip() != ",":
            return None
        out = []
        for it in t.items:
            sub = keyword_pairs(it)
            if sub is None:
                return None
            out += sub
        return out
    if isinstance(t, Fmt) and not isinstance(t, Txt) and len(t.parts) == 3 and isinstance(t.parts[0], str) and t.parts[1] == "=":
        return [(t.parts[0], t.parts[2])]
    if isinstance(t, str) and t == "":
        return []
    return None


def check_calls(t):
    """'[Check.a(...), Check.b(...)]' -> [(name, argument text)]; None for another form"""
    if isinstance(t, str):
        return [] if t == "[]" else None
    if not (isinstance(t, Fmt) and not isinstance(t, Txt) and len(t.parts) == 3 and t.parts[0] == "[" and t.parts[2] == "]"):
        return None
    j = t.parts[1]
    if not isinstance(j, Joined) or j.sep.strip() != ",":
        return None
    out = []
    for it in j.items:
        if not (isinstance(it, Fmt) and len(it.parts) == 5 and it.parts[0] == "Check." and it.parts[2] == "(" and it.parts[4] == ")" and isinstance(it.parts[1], str)):
            return None
        out.append((it.parts[1], it.parts[3]))
    return out


def checks_text_matches(t, snap_checks, out, prefix):
    """the text is a list display of one `Check.<name>(stat=repr, ..., option=repr, ...)` call per check, each argument the
    repr of the original value (E1)"""
    if snap_checks is None:
        out[f"{prefix}no_checks_written_as_None"] = t == "None"
        return
    calls = check_calls(t)
    names = list(snap_checks)
    out[f"{prefix}checks_written_as_a_list_of_Check_calls"] = calls is not None and [n for n, _ in calls] == names
    if not out[f"{prefix}checks_written_as_a_list_of_Check_calls"]:
        return
    for i, ((n, args), st) in enumerate(zip(calls, snap_checks.values())):
        pairs = keyword_pairs(args)
        want = [(k, v) for k, v in st.items() if k != "options"] + list(st.get("options", {}).items())
        ok = pairs is not None and [k for k, _ in pairs] == [k for k, _ in want]
        out[f"{prefix}check_{i}_every_statistic_and_option_is_a_keyword_argument"] = ok
        if not ok:
            if pairs is not None:
                cur().labels.append(f"{prefix}check_{i} arguments written: {[k for k, _ in pairs]} expected: {[k for k, _ in want]}")
            continue
        allok = True
        for (k, txt), (_, v) in zip(pairs, want):
            holds, form = evaluates_to(txt, v)
            allok = And(allok, holds)
        out[f"{prefix}check_{i}_arguments_evaluate_to_the_original_values"] = allok


def slot_obligations(tm, record, fields, out, prefix, hand_quoted):
    """one obligation per slot of template instance `tm`: its text evaluates to record[field]"""
    for f in fields:
        if f not in tm.slots:
            continue  # a missing slot is the structural obligation's business
        if f == "checks":
            continue
        txt, want = tm.slots[f], record[f]
        holds, form = evaluates_to(txt, want)
        if form == "E3 hand-quoted":
            hand_quoted.append((f"{prefix}{f}", holds))
            out[f"{prefix}{f}_slot_evaluates_to_the_attribute_when_it_needs_no_escaping"] = evaluates_to(txt, want, any_text=False)[0]
        else:
            if holds is False:
                cur().labels.append(f"{prefix}{f}: {form}")
            out[f"{prefix}{f}_slot_evaluates_to_the_attribute"] = holds


def finish_hand_quoted(out, hand_quoted):
    if hand_quoted:
        cur().labels.append("hand-quoted slots: " + ",".join(n for n, _ in hand_quoted))
        out["hand_quoted_text_evaluates_to_the_attribute_for_any_str"] = And(*[h for _, h in hand_quoted])


# ---------------------------------------------------------------------------------------
# _format_checks
# ---------------------------------------------------------------------------------------


class FormatChecks(Contract):
    """_format_checks(checks): 'None' for no checks, else the text of a list with one `Check.<name>(...)` call per entry whose
    keyword arguments are all statistics and all options, each written with repr (so that it evaluates to the value)."""

    target = f"{IO}:_format_checks"
    split = {"checks": ["none", "one", "two"]}
    max_paths = 20000

    def setup(self, I):
        serial.install(I)
        text.install(I)

    def make_args(self):
        n = self.fixed["checks"]
        if n == "none":
            cur().ghost["c12"] = dict(snap=None, d=None)
            return {"checks_dict": None}
        names = [NAMES[cur().choose([(x, None) for x in NAMES], "check")]] if n == "one" else ["in_range", "equal_to"]
        kinds = [d for d in DTYPE_KINDS if all(d in RT.dtype_kinds_for(x) for x in names)]
        kind = kinds[cur().choose([(d, None) for d in kinds], "dtype")]
        d = DictObj()
        for x in names:
            d[x] = RT.check_stats_value(x, kind, f"checks.{x}")
            d[x].pre, d[x].name = True, f"checks.{x}"
        snap = {x: {k: (dict(v) if k == "options" else v) for k, v in st.items()} for x, st in d.items()}
        cur().ghost["c12"] = dict(snap=snap, d=d)
        return {"checks_dict": d}

    def modifies(self, checks_dict):
        return [("container", id(st)) for st in (checks_dict or {}).values()]

    def ensures(self, result, old, checks_dict):
        g = cur().ghost["c12"]
        out = {}
        checks_text_matches(result, g["snap"], out, "")
        if g["d"] is not None:
            out["callers_statistics_not_rewritten"] = all(
                all(k in st and st[k] is v for k, v in g["snap"][n].items() if k != "options") and set(st) <= set(g["snap"][n]) for n, st in g["d"].items())
        return out


def _format_checks_replay(self, rec):
    def thunk():
        """statistics that are non-finite floats: the script must still evaluate to the schema"""
        import warnings

        import numpy as np
        import pandera as pa

        warnings.simplefilter("ignore")
        obs, bad = {}, False
        for name, check in (("in_range(-inf, inf)", pa.Check.in_range(-np.inf, np.inf)), ("le(inf)", pa.Check.le(float("inf"))), ("ge(-inf)", pa.Check.ge(float("-inf")))):
            schema = pa.DataFrameSchema({"a": pa.Column(float, check)})
            try:
                ns = {}
                exec(schema.to_script(), ns)  # noqa: S102 - the generated script is what the property is about
                got = "equal" if ns["schema"] == schema else "a different schema"
            except Exception as e:  # noqa: BLE001
                got = f"raised {type(e).__name__}: {e}"
            if got != "equal":
                bad = True
                obs[f"exec(to_script(Column(float, Check.{name})))"] = got
        return bad, obs or "scripts with non-finite bounds evaluate to the schema"

    return thunk


FormatChecks.concretize = _format_checks_replay


# ---------------------------------------------------------------------------------------
# _format_index
# ---------------------------------------------------------------------------------------

INDEX_FIELDS = ("dtype", "checks", "nullable", "unique", "coerce", "name", "description", "title")
COLUMN_FIELDS = ("dtype", "checks", "nullable", "unique", "coerce", "required", "regex", "description", "title")


def index_text_matches(t, snaps, out, hand_quoted):
    m = io_mod()
    if len(snaps) == 1:
        levels = [t]
        out["single_level_written_as_Index"] = isinstance(t, Tmpl) and t.template is m.INDEX_TEMPLATE
        if not out["single_level_written_as_Index"]:
            return
    else:
        ok = isinstance(t, Tmpl) and t.template is m.MULTIINDEX_TEMPLATE and isinstance(t.slots.get("indexes"), Joined) and \
            t.slots["indexes"].sep.strip() == "," and len(t.slots["indexes"].items) == len(snaps) and \
            all(isinstance(x, Tmpl) and x.template is m.INDEX_TEMPLATE for x in t.slots["indexes"].items)
        out["levels_written_as_MultiIndex_of_Index_in_order"] = ok
        if not ok:
            return
        levels = t.slots["indexes"].items
    for i, (tm, snap) in enumerate(zip(levels, snaps)):
        slot_obligations(tm, snap, INDEX_FIELDS, out, f"level_{i}_", hand_quoted)
        if "checks" in tm.slots:
            checks_text_matches(tm.slots["checks"], snap["checks"], out, f"level_{i}_")


class FormatIndex(Contract):
    """_format_index(levels): `Index(...)` for one level, `MultiIndex(indexes=[Index(...), ...])` otherwise; every slot of every
    level evaluates to that level's attribute of the same name."""

    target = f"{IO}:_format_index"
    split = {"levels": [1, 2], "checks": ["none", "one"]}
    max_paths = 20000

    def setup(self, I):
        serial.install(I)
        text.install(I)

    def make_args(self):
        n = self.fixed["levels"]
        recs = ListObj()
        for i in range(n):
            names = None
            if self.fixed["checks"] == "one" and i == 0:
                names = ["isin"]
            kinds = DTYPE_KINDS if not names else RT.dtype_kinds_for(names[0])
            kind = kinds[cur().choose([(d, None) for d in kinds], f"level{i}.dtype")] if i == 0 else "int64"
            recs.append(RT.component_stats_value("index", f"level{i}", kind, names, opt=(i == 0)))
        cur().ghost["c12"] = dict(snaps=[RT.snapshot_component(r) for r in recs])
        return {"index_statistics": recs}

    def modifies(self, index_statistics):
        return [("container", id(st)) for r in index_statistics for st in (r["checks"] or {}).values()]

    def ensures(self, result, old, index_statistics):
        out, hq = {}, []
        index_text_matches(result, cur().ghost["c12"]["snaps"], out, hq)
        finish_hand_quoted(out, hq)
        return out


# ---------------------------------------------------------------------------------------
# to_script
# ---------------------------------------------------------------------------------------

SCHEMA_SLOTS = ("dtype", "coerce", "strict", "name", "ordered", "unique", "report_duplicates", "unique_column_names",
                "add_missing_columns", "title", "description")


class ToScript(Contract):
    """to_script(S): the program `schema = DataFrameSchema(<slots>)` in which every slot evaluates to S's attribute of that name:
    one `'<key>': Column(<slots>)` per column in order, the index text of _format_index, the dataframe-level checks as a list of
    Check calls, and every schema-level attribute; pandas names used by reprs are imported."""

    target = f"{IO}:to_script"
    split = {"shape": [f"schema_only/{s}/{w}" for s in ("True", "False", "filter") for w in ("no_checks", "one_check")] +
             ["one_column", "two_columns", "single_index", "multi_index"]}
    max_paths = 20000

    def setup(self, I):
        serial.install(I)
        text.install(I)
        RT.install_class_contains(I)

    def make_args(self):
        shape = self.fixed["shape"]
        full = shape.startswith("schema_only")
        if full:
            _, strict_case, wide_case = shape.split("/")
            strict_value = {"True": True, "False": False, "filter": "filter"}[strict_case]
        cols, col_objs = DictObj(), []
        ncols = {"one_column": 1, "two_columns": 2}.get(shape, 0)
        for i in range(ncols):
            name = T.fresh_value(T.Str, f"colname{i}")
            for other in cols:
                cur().assume(name != other)  # keys of one dict
            if ncols == 1:
                kind = ["none", "int64", "datetime64[ns]"][cur().choose([("none", None), ("int64", None), ("datetime64[ns]", None)], "col0.dtype")]
                checks = [[], ["in_range"]][cur().choose([("none", None), ("in_range", None)], "col0.checks")] if kind != "none" else []
            else:
                kind, checks = ["int64", "timedelta64[ns]"][i], [[], ["greater_than"]][i]
            o = self._component("column", f"col{i}", kind, checks, opt=(ncols == 1))
            cols[name] = o
            col_objs.append(o)
        levels = []
        if shape in ("single_index", "multi_index"):
            levels.append(self._component("index", "level0", "int64", ["isin"], opt=True))
        if shape == "multi_index":
            levels.append(self._component("index", "level1", "datetime64[ns]", [], opt=False))
        index = None if not levels else levels[0] if len(levels) == 1 else T.Ref(None, strict=True, indexes=T.Const(ListObj(levels))).fresh("multiindex")
        if full:
            wide = ListObj([RT.check_object("checks[0]", "equal_to", simple=False, dtype_kind="none")] if wide_case == "one_check" else [])
            dtype = None if cur().choose([("None", None), ("int64", None)], "schema.dtype") == 0 else RT.live_dtype("int64")
            OS = T.Opt(T.Str)
            ref = T.Ref(None, strict=True, columns=T.Const(cols), checks=T.Const(wide), index=T.Const(index), dtype=T.Const(dtype), coerce=T.Bool,
                        name=OS, ordered=T.Bool, unique=T.Opt(T.Lazy(lambda n: JsonList(name=n))), report_duplicates=T.OneOf("all", "exclude_first", "exclude_last"),
                        unique_column_names=T.Bool, add_missing_columns=T.Bool, title=OS, description=OS)
            ref.fields["strict"] = T.Const(strict_value)
        else:
            wide = ListObj()
            # schema-level slots are decided in the 'schema_only' case; here two representative settings (all unset / all set)
            k = cur().choose([("unset", None), ("set", None)], "schema_level_attributes")
            S = (lambda: T.Const(None)) if k == 0 else (lambda: T.Str)
            ref = T.Ref(None, strict=True, columns=T.Const(cols), checks=T.Const(wide), index=T.Const(index), dtype=T.Const(None), coerce=T.Bool,
                        name=S(), ordered=T.Bool, unique=T.Const(None) if k == 0 else T.Lazy(lambda n: JsonList(name=n)),
                        report_duplicates=T.Const("all"), unique_column_names=T.Bool, add_missing_columns=T.Bool, title=S(), description=S())
            ref.fields["strict"] = T.Const(False) if k == 0 else T.Const("filter")
        schema = ref.fresh("schema")
        schema.attrs["checks"] = wide
        schema.attrs0["checks"] = wide
        from contracts.util import fld0

        g = cur().ghost
        g["c12"] = dict(cols=[(n, o, RT.snapshot_object("column", o)) for n, o in cols.items()],
                        levels=[RT.snapshot_object("index", o) for o in levels],
                        wide={c.attrs["name"]: {**dict(c.attrs["statistics"]), "options": RT.documented_options(c)} for c in wide} or None,
                        attrs={a: fld0(schema, a) for a in SCHEMA_SLOTS},
                        stats0=[(d, dict(d)) for d in RT.stats_dicts_of(col_objs + levels + [schema])])
        return {"dataframe_schema": schema}

    @staticmethod
    def _component(kind, label, dtype_kind, check_names, opt):
        checks = ListObj(RT.check_object(f"{label}.checks[{i}]", n, simple=False, dtype_kind=dtype_kind) for i, n in enumerate(check_names))
        S = T.Opt(T.Str) if opt else T.Str
        fields = dict(dtype=T.Const(RT.live_dtype(dtype_kind)), nullable=T.Bool, unique=T.Bool, coerce=T.Bool, checks=T.Const(checks), title=S, description=S)
        if kind == "column":
            fields.update(required=T.Bool, regex=T.Bool)
        else:
            fields.update(name=S)
        return T.Ref(None, strict=True, **fields).fresh(label)

    def modifies(self, dataframe_schema):
        return [("container", id(d)) for d, _ in cur().ghost["c12"]["stats0"]]

    def ensures(self, result, old, dataframe_schema):
        m = io_mod()
        g = cur().ghost["c12"]
        out, hq = {}, []
        parts = result.parts_list if isinstance(result, Concat) else [result]
        prog = parts[-1]
        imports = [p for p in parts[:-1]]
        out["program_is_the_schema_template"] = isinstance(prog, Tmpl) and prog.template is m.SCRIPT_TEMPLATE and all(isinstance(p, str) for p in imports)
        if not out["program_is_the_schema_template"]:
            return out
        # imports needed by reprs
        used = set()
        for n in text.walk(prog):
            if isinstance(n, Repr) and isinstance(n.value, TsVal):
                used.add("Timestamp")
            if isinstance(n, Repr) and isinstance(n.value, TdVal):
                used.add("Timedelta")
        out["pandas_names_used_by_reprs_are_imported"] = all(any(p.strip() == f"from pandas import {u}" for p in imports) for u in used)
        out["nothing_but_import_lines_before_the_program"] = all(p.startswith("from pandas import ") and p.endswith("\n") for p in imports)
        # schema level
        slot_obligations(prog, g["attrs"], SCHEMA_SLOTS, out, "schema_", hq)
        if "checks" in prog.slots:
            w = prog.slots["checks"]
            if g["wide"] is None:
                out["no_dataframe_checks_written_as_None"] = (w is None) or w == "None"
            else:
                if not isinstance(w, Fmt):
                    cur().labels.append(f"dataframe-level checks inserted as str({type(w).__name__})")
                checks_text_matches(w, g["wide"], out, "dataframe_")
        # columns
        cs = prog.slots.get("columns")
        want = g["cols"]
        if not want:
            out["no_columns_written_as_empty_dict_body"] = cs == ""
        else:
            def key_text(it):
                """'<key text>: Column(...)' -> the key text (hand-quoted or repr), else None"""
                if not (isinstance(it, Fmt) and it.parts and isinstance(it.parts[-1], Tmpl) and it.parts[-1].template is m.COLUMN_TEMPLATE):
                    return None
                pre = list(it.parts[:-1])
                if len(pre) == 3 and pre[0] in ("'", '"') and pre[2] == pre[0] + ": ":
                    return Fmt([pre[0], pre[1], pre[0]])
                if len(pre) == 2 and isinstance(pre[0], Repr) and pre[1] == ": ":
                    return pre[0]
                return None

            ok = isinstance(cs, Joined) and cs.sep.strip() == "," and len(cs.items) == len(want) and all(key_text(it) is not None for it in cs.items)
            out["one_key_colon_Column_item_per_column_in_order"] = ok
            if ok:
                for i, (it, (name, o, snap)) in enumerate(zip(cs.items, want)):
                    keytxt = key_text(it)
                    holds, form = evaluates_to(keytxt, name)
                    if form == "E3 hand-quoted":
                        hq.append((f"column_{i}_key", holds))
                        out[f"column_{i}_key_evaluates_to_the_column_name_when_it_needs_no_escaping"] = evaluates_to(keytxt, name, any_text=False)[0]
                    else:
                        out[f"column_{i}_key_evaluates_to_the_column_name"] = holds
                    tm = it.parts[-1]
                    slot_obligations(tm, snap, COLUMN_FIELDS, out, f"column_{i}_", hq)
                    if "checks" in tm.slots:
                        checks_text_matches(tm.slots["checks"], snap["checks"], out, f"column_{i}_")
        # index
        ix = prog.slots.get("index")
        if not g["levels"]:
            out["no_index_written_as_None"] = ix is None
        else:
            index_text_matches(ix, g["levels"], out, hq)
        finish_hand_quoted(out, hq)
        out["schema_unchanged"] = all(list(d) == list(d0) and all(d[k] is v for k, v in d0.items()) for d, d0 in g["stats0"])
        return out


CONTRACTS = [FormatChecks, FormatIndex, ToScript]
