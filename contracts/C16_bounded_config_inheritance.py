"""C16 (bounded, never counted as proved): Config options and Config extras of EVERY DataFrameModel base reach the model.

`DataFrameModel._collect_config_and_extras` walks the model bases of the MRO; the symbolic C16 contracts take its result
(`cls.__config__`, `cls.__extras__`) as given.  Class creation (metaclass, __init_subclass__, `type("Config", ...)`) is outside the
verifiable subset, so this obligation is a BOUNDED enumeration on the real code:

    hierarchies with <= 4 model classes: chains (depth 1-3), two-parent mixins, diamonds, a mixin under a chain
    x every placement of two options (strict, coerce) and of one Config extra (a registered dataframe check) on the classes
    x pandas and polars models

oracle (python attribute inheritance, which pandera documents for Config: "options are inherited and can be overridden"):
    the value of an option is the one set by the FIRST class in the MRO whose own Config sets it (the default if none does);
    the extras are the union over all bases, the first class in the MRO winning per name.
"""
import itertools
import warnings


def _shapes():
    """name -> list of (class name, [parent names]) in definition order; 'B' is the DataFrameModel base"""
    return {
        "chain1": [("A", ["B"])],
        "chain2": [("A", ["B"]), ("C", ["A"])],
        "chain3": [("A", ["B"]), ("C", ["A"]), ("D", ["C"])],
        "mixin": [("A", ["B"]), ("P", ["B"]), ("M", ["A", "P"])],
        "diamond": [("R", ["B"]), ("L", ["R"]), ("Q", ["R"]), ("Z", ["L", "Q"])],
        "mixin_under_chain": [("A", ["B"]), ("C", ["A"]), ("P", ["B"]), ("M", ["C", "P"])],
    }


def bounded_config_inheritance(seed=0, tier="quick"):
    warnings.simplefilter("ignore")
    import pandera as pa
    import pandera.extensions as ext
    import pandera.polars as pp
    from pandera.api.dataframe.model_config import BaseConfig

    for nm in ("c16_extra_a", "c16_extra_b"):
        if nm not in pa.Check.REGISTERED_CUSTOM_CHECKS:
            ext.register_check_method(statistics=["v"])(type(lambda: 0)((lambda pandas_obj, *, v: True).__code__, globals(), nm))
    examples = 0
    bound = "6 hierarchy shapes (<= 4 model classes: chains, mixin, diamond, mixin under chain) x all placements of strict / coerce / one Config extra per class (value or unset) x (pandas, polars)"
    vals = {"strict": [None, True, "filter"], "coerce": [None, True]}
    for api_name, api in (("pandas", pa), ("polars", pp)):
        for shape, classes in _shapes().items():
            names = [c for c, _ in classes]
            # per class: (strict, coerce, extra) each unset or a value that identifies the class
            per_class = list(itertools.product(vals["strict"], vals["coerce"], [None, "c16_extra_a", "c16_extra_b"]))
            if tier == "quick" and len(names) >= 3:
                per_class = [p for p in per_class if sum(x is not None for x in p) <= 1]
            for combo in itertools.product(per_class, repeat=len(names)):
                examples += 1
                built = {"B": api.DataFrameModel}
                spec = {}
                for (cname, parents), (strict, coerce, extra) in zip(classes, combo):
                    ns = {"__annotations__": {}, "__module__": __name__}
                    cfg = {}
                    if strict is not None:
                        cfg["strict"] = strict
                    if coerce is not None:
                        cfg["coerce"] = coerce
                    if extra is not None:
                        cfg[extra] = {"v": cname}
                    if cfg:
                        ns["Config"] = type("Config", (), dict(cfg))
                    spec[cname] = cfg
                    built[cname] = type(cname, tuple(built[p] for p in parents), ns)
                leaf = built[names[-1]]
                mro = [k.__name__ for k in leaf.__mro__ if k.__name__ in spec]
                want = {}
                for opt in ("strict", "coerce"):
                    want[opt] = next((spec[c][opt] for c in mro if opt in spec[c]), getattr(BaseConfig, opt))
                want_extras = {}
                for c in reversed(mro):
                    want_extras.update({k: v for k, v in spec[c].items() if k.startswith("c16_extra")})
                got = {opt: getattr(leaf.__config__, opt) for opt in ("strict", "coerce")}
                got_extras = dict(leaf.__extras__ or {})
                if got != want or got_extras != want_extras:
                    return {"examples": examples, "bound": bound,
                            "failing_input": {"api": api_name, "shape": shape, "classes": [{"class": c, "parents": p, "Config": spec[c]} for c, p in classes], "mro": mro},
                            "observed": {"options": got, "expected options": want, "extras": got_extras, "expected extras": want_extras}}
                try:
                    schema = leaf.to_schema()
                    if (schema.strict, schema.coerce, len(schema.checks)) != (want["strict"], want["coerce"], len(want_extras)):
                        return {"examples": examples, "bound": bound,
                                "failing_input": {"api": api_name, "shape": shape, "classes": [{"class": c, "parents": p, "Config": spec[c]} for c, p in classes]},
                                "observed": {"schema (strict, coerce, #dataframe checks)": [schema.strict, schema.coerce, len(schema.checks)],
                                             "expected": [want["strict"], want["coerce"], len(want_extras)]}}
                except Exception as e:  # noqa: BLE001
                    return {"examples": examples, "bound": bound, "failing_input": {"api": api_name, "shape": shape, "Config per class": spec},
                            "observed": f"to_schema raised {type(e).__name__}: {e}"[:200]}
    return {"examples": examples, "bound": bound, "failing_input": None}


BOUNDED = [bounded_config_inheritance]
