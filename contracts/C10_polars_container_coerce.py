"""C10 / C03 / C18 (polars container): _coerce_dtype_helper and coerce_dtype.

    helper.post.each_coercing_column_is_coerced_once_in_schema_order   (schema-level coerce or the column's own flag; a column that is
                                                                        ABSENT from the frame is skipped - required or not; with a dataframe-level dtype the whole frame
                                                                        is coerced once instead)
    helper.post.only_its_own_column                                    each column's data type gets the frame WITH that column's selector
    helper.post.each_coercion_continues_from_the_previous_result
    helper.post.strict_cast_only_without_data_validation               SCHEMA_ONLY -> dtype.coerce, SCHEMA_AND_DATA / DATA_ONLY -> dtype.try_coerce
    helper.post.each_coercion_continues_from_the_previous_result       (the previous SUCCESSFUL result: a failed cast leaves the frame as it was)
    helper.exit.every_parser_error_is_reported_as_a_coercion_error_of_its_own_column   C02 / C08: "the lazy report's failure cases name every
                                                                        offending (column, row label, value)": EVERY coercing column is attempted, also after one has
                                                                        failed, and SchemaErrors carries one SchemaError(DATATYPE_COERCION) per failed cast, in order,
                                                                        whose failure_cases / check_output are that ParserError's and whose `schema` is the column (the
                                                                        report's `column` is read from it) - as the pandas back end reports them
    coerce_dtype.post.no_column_coerces_returns_the_argument / exit.errors_of_the_helper_are_reraised_as_schema_errors

For all coerce / required flags, depths, outcomes of each cast; layouts: 2 declared columns present or absent; with / without a
dataframe-level dtype.
"""
from pandera.api.polars.types import PolarsData
from pandera.config import ValidationDepth
from pandera.errors import ParserError, SchemaError, SchemaErrorReason, SchemaErrors
from pyvc import core, types as T
from pyvc.core import PyExc, SAny, cur
from pyvc.heap import DictObj, ListObj, Obj
from pyvc.interp import OtherException
from pyvc.spec import Contract
from pyvc.theories import pandas_lite as PL
from contracts.util import fld, fld0

DFP = "pandera.backends.polars.container:DataFrameSchemaBackend"


class Dt:
    __pyvc_symbolic__ = True

    def __init__(self, I, tag):
        self.I, self.tag = I, tag

    def _do(self, which, data):
        p = cur()
        entry = [self.tag, which, data, None]
        p.ghost.setdefault("casts", []).append(entry)
        if isinstance(data, Obj) and data.attrs.get("key") is not None and data.attrs.get("key") not in p.ghost["names"]:
            raise PyExc(self.I.make_exc(OtherException))  # casting a column the frame does not have: polars ColumnNotFoundError
        k = p.choose([("returns", None), ("ParserError", None)], f"{self.tag}.{which}")
        if k == 1:
            e = self.I.make_exc(ParserError)
            e.attrs["failure_cases"] = SAny(name="uncoercible_values")
            e.attrs["parser_output"] = SAny(name="parser_output")
            e.attrs["args"] = (SAny(name="message"),)
            p.ghost.setdefault("parser_errors", []).append((self.tag, e))
            raise PyExc(e)
        r = Names(p.ghost["names"], f"coerced[{self.tag}]")
        entry[3] = r
        return r

    def coerce(self, data):
        return self._do("coerce", data)

    def try_coerce(self, data):
        return self._do("try_coerce", data)


class Names:
    __pyvc_symbolic__ = True

    def __init__(self, names, how="argument"):
        self.names, self.how = list(names), how

    def pyvc_class(self):
        import polars as pl

        return pl.LazyFrame


class PolarsCoerceHelper(Contract):
    target = f"{DFP}._coerce_dtype_helper"
    raises = (SchemaErrors,)
    check_frame = False
    split = {"present": ["both", "k0", "none"], "frame_dtype": ["none", "declared"]}

    def setup(self, I):
        PL.install(I)
        import pandera.api.polars.utils as PU
        import pandera.backends.polars.container as PC

        names = lambda I, lf: list(lf.names)  # noqa: E731
        I.models[id(PU.get_lazyframe_column_names)] = names
        I.models[id(PC.get_lazyframe_column_names)] = names

    def make_args(self):
        from pandera.backends.polars.container import DataFrameSchemaBackend as B

        I = cur().ghost["interp"]
        present = {"both": ["k0", "k1"], "k0": ["k0"], "none": []}[self.fixed.get("present", "both")]
        cur().ghost["names"] = present
        cols = DictObj()
        meta = {}
        for k in ("k0", "k1"):
            c = T.Ref(None, coerce=T.Bool, required=T.Bool).fresh(f"column_{k}")
            dt = Dt(I, k)
            for a, v in (("dtype", dt), ("name", k), ("selector", k), ("regex", False)):  # (non-regex columns: a regex selector never fails to resolve)
                c.attrs[a] = v
                c.attrs0[a] = v
            dict.__setitem__(cols, k, c)
            meta[k] = c
        schema = T.Ref(None, coerce=T.Bool, name=T.Any, dtypes=T.Any).fresh("schema")
        sdt = Dt(I, "frame") if self.fixed.get("frame_dtype", "none") == "declared" else None
        for a, v in (("columns", cols), ("dtype", sdt)):
            schema.attrs[a] = v
            schema.attrs0[a] = v
        cur().ghost.update(meta=meta, present=present, sdt=sdt)
        return {"self": T.Ref(B).fresh("self"), "obj": Names(present), "schema": schema}

    def call_target(self, I, fn, a):
        return I.call(fn, [a["self"], a["obj"], a["schema"]], {})

    def _depth(self):
        ctx = cur().globals_state.get(("pandera.config", "_CONTEXT_CONFIG"))
        return fld0(ctx, "validation_depth") if ctx is not None else None

    def _expected(self, schema):
        g = cur().ghost
        if g["sdt"] is not None:
            return ["frame"]
        sc = fld0(schema, "coerce")
        sc = bool(cur().decide(sc, "schema.coerce")) if not isinstance(sc, bool) else sc
        want = []
        for k in ("k0", "k1"):
            c = g["meta"][k]
            if k not in g["present"]:
                continue  # nothing to coerce; a missing REQUIRED column is reported by check_column_presence (no polars error may escape)
            cc = fld0(c, "coerce")
            cc = bool(cur().decide(cc, f"coerce[{k}]")) if not isinstance(cc, bool) else cc
            if sc or cc:
                want.append(k)
        return want

    def _cast_posts(self, obj, schema, complete):
        g = cur().ghost
        casts = g.get("casts", [])
        want = self._expected(schema)
        out = {}
        tags = [c[0] for c in casts]
        out["each_coercing_column_is_coerced_once_in_schema_order"] = tags == want  # (whether or not an earlier column failed)
        depth = self._depth()
        # documented rule (comment in the helper, docs/polars.md): data-validating depths use try_coerce (values are checked), SCHEMA_ONLY
        # the lazy strict cast.  The API level always sets the depth before it calls the back end; an unset depth is left unconstrained.
        if depth is not None:
            strict_only = depth is ValidationDepth.SCHEMA_ONLY
            out["strict_cast_only_without_data_validation"] = all((which == "coerce") == strict_only for _, which, _, _ in casts)
        prev = obj
        ok_chain, ok_key = True, True
        for n, (tag, which, data, res) in enumerate(casts):
            if tag == "frame":
                ok_chain = ok_chain and data is prev
            else:
                ok_key = ok_key and isinstance(data, Obj) and data.cls is PolarsData and data.attrs.get("key") == tag
                ok_chain = ok_chain and isinstance(data, Obj) and data.attrs.get("lazyframe") is prev
            if res is not None:
                prev = res
        out["only_its_own_column"] = ok_key
        out["each_coercion_continues_from_the_previous_result"] = ok_chain
        return out, prev

    def ensures(self, result, old, self_, obj, schema):
        out, last = self._cast_posts(obj, schema, True)
        out["returns_the_last_coerced_frame"] = result is last
        out["a_failed_coercion_is_not_passed_over"] = not cur().ghost.get("parser_errors")
        return out

    def concretize(self, rec):
        def thunk():
            import warnings

            import polars as pl
            import pandera as pa
            import pandera.polars as pp

            warnings.simplefilter("ignore")
            obs, bad = {}, False
            for name, schema in (("column-level coerce", pp.DataFrameSchema({"x": pp.Column(int), "y": pp.Column(int, coerce=True)})),
                                 ("schema-level coerce", pp.DataFrameSchema({"x": pp.Column(int), "y": pp.Column(int)}, coerce=True))):
                for lazy in (False, True):
                    try:
                        schema.validate(pl.DataFrame({"x": [1]}), lazy=lazy)
                        got = "accepted"
                    except (pa.errors.SchemaError, pa.errors.SchemaErrors) as e:
                        codes = [x.reason_code.name for x in e.schema_errors] if hasattr(e, "schema_errors") else [e.reason_code.name]
                        got = "SchemaError(s) " + ",".join(sorted(set(codes)))
                    except Exception as e:  # noqa: BLE001
                        got = "leaked " + type(e).__name__
                    if got != "SchemaError(s) COLUMN_NOT_IN_DATAFRAME":
                        bad = True
                        obs[f"{name}, required column y absent, lazy={lazy}"] = got
            # C02 / C08: every uncoercible value is named under its own column, as on pandas
            import pandas as pd

            from pandera.config import config_context

            cells = {}
            for lib, mod, mk in (("polars", pp, pl.DataFrame), ("pandas", pa, pd.DataFrame)):
                schema = mod.DataFrameSchema({"a": mod.Column(int), "b": mod.Column(int)}, coerce=True)
                try:
                    with config_context(validation_depth=ValidationDepth.SCHEMA_AND_DATA):
                        schema.validate(mk({"a": ["1", "x"], "b": ["y", "2"]}), lazy=True)
                    cells[lib] = "accepted"
                except pa.errors.SchemaErrors as e:
                    fc = e.failure_cases if lib == "pandas" else e.failure_cases.to_pandas()
                    fc = fc[fc["check"].astype(str).str.startswith("coerce_dtype")]
                    cells[lib] = sorted((str(c), int(i), str(v)) for c, i, v in zip(fc["column"], fc["index"], fc["failure_case"]))
                except Exception as e:  # noqa: BLE001
                    cells[lib] = "leaked " + type(e).__name__
            # C18: a depth that validates data sees the uncoercible values, DATA_ONLY as SCHEMA_AND_DATA does
            by_depth = {}
            for depth in (ValidationDepth.SCHEMA_AND_DATA, ValidationDepth.DATA_ONLY):
                try:
                    with config_context(validation_depth=depth):
                        pp.DataFrameSchema({"a": pp.Column(int, coerce=True, nullable=True)}).validate(pl.LazyFrame({"a": ["1", "x"]}))
                    by_depth[depth.name] = "accepted"
                except (pa.errors.SchemaError, pa.errors.SchemaErrors):
                    by_depth[depth.name] = "rejected"
                except Exception as e:  # noqa: BLE001
                    by_depth[depth.name] = "leaked " + type(e).__name__
            if set(by_depth.values()) != {"rejected"}:
                bad = True
                obs["Column(int, coerce=True, nullable=True) on LazyFrame a=['1','x'] by depth"] = by_depth
            want = [("a", 1, "x"), ("b", 0, "y")]
            if cells["polars"] != want:
                bad = True
                obs["a=['1','x'], b=['y','2'] coerced to int, lazy: uncoercible cells reported"] = {**cells, "expected": want}
            return bad, obs or "an absent required column under coercion is reported as COLUMN_NOT_IN_DATAFRAME; every uncoercible cell is named under its column"

        return thunk

    def on_raise(self, exc, old, self_, obj, schema):
        if exc.cls is not SchemaErrors:
            return {}  # (reported by exit.only_documented_exceptions)
        pes = cur().ghost.get("parser_errors", [])
        out, _ = self._cast_posts(obj, schema, False)
        errs = exc.attrs.get("schema_errors")
        ok = isinstance(errs, (list, ListObj)) and len(errs) == len(pes) >= 1
        if ok:
            for (tag, pe), err in zip(pes, errs):
                ctx = schema if tag == "frame" else cur().ghost["meta"][tag]
                ok = ok and bool(isinstance(err, Obj) and err.cls is SchemaError and err.attrs.get("reason_code") is SchemaErrorReason.DATATYPE_COERCION
                                 and err.attrs.get("failure_cases") is pe.attrs["failure_cases"] and err.attrs.get("check_output") is pe.attrs["parser_output"]
                                 and err.attrs.get("schema") is ctx)
        out["every_parser_error_is_reported_as_a_coercion_error_of_its_own_column"] = ok
        return out


CONTRACTS = [PolarsCoerceHelper]
