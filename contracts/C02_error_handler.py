"""C02 - lazy and eager validation agree; the report is exact (collection half).

ErrorHandler.collect_error:  not lazy -> raises exactly the offered error (nothing recorded);
                             lazy     -> schema_errors == old ++ [e], collected == old ++ [record(e)], returns.
ErrorHandler.collect_errors: offers every error of the list, in order, with the reason code of each.
ArraySchemaBackend.run_checks_and_handle_errors: every failing core result is offered to the handler exactly
    once, in order, as a SchemaError carrying that result's fields; passing results are never offered.
lemma: for ANY sequence of offered errors, lazy raises <=> eager raises, and the eager error is the first offered.
"""
import z3

from pandera.api.base.error_handler import ErrorCategory, ErrorHandler
from pandera.backends.base import CoreCheckResult
from pandera.errors import SchemaError, SchemaErrorReason
from pandera.validation_depth import VALIDATION_DEPTH_ERROR_CODE_MAP
from pyvc import core, types as T
from pyvc.core import And, Iff, Implies, Not, Or, SAny, SBool, cur, ite, py_eq
from pyvc.heap import ListObj, Obj
from pyvc.interp import OtherException
from pyvc.spec import Contract, Lemma, LoopSpec
from pyvc.theories import pandas_lite as PL
from pyvc.values import SymSeq
from contracts.util import fld, fld0

EH = "pandera.api.base.error_handler:ErrorHandler"


def handler(lazy=T.Bool):
    return T.Ref(ErrorHandler, _lazy=lazy, _schema_errors=T.ListOf(T.Ref(SchemaError)), _collected_errors=T.ListOf(T.Any))


def schema_error_ref(**over):
    # precondition: the reason code is one the scope map knows (checked at the construction sites: structural obligation
    # `reason_codes_at_construction_sites_are_mapped` in C06)
    f = dict(schema=T.Ref(None, name=T.Opt(T.Label)), check=T.Any, failure_cases=T.Opt(T.Any),
             reason_code=T.EnumOf(SchemaErrorReason, members=list(VALIDATION_DEPTH_ERROR_CODE_MAP)), data=T.Any)
    f.update(over)
    return T.Ref(SchemaError, **f)


class CollectError(Contract):
    target = f"{EH}.collect_error"
    params = dict(self=handler(), error_type=T.Any, reason_code=T.Any, schema_error=schema_error_ref(reason_code=T.Any), original_exc=T.Opt(T.Ref(None)))
    raises = (SchemaError,)

    def call_target(self, I, fn, a):
        return I.call(fn, [a["self"], a["error_type"], a["reason_code"], a["schema_error"], a["original_exc"]], {})

    def modifies(self, self_, error_type, reason_code, schema_error, original_exc):
        # the handler's two lists grow (checked exactly in `ensures`); the stored error drops its data reference
        return [(self_, "_schema_errors"), (self_, "_collected_errors"), (schema_error, "data")]

    def _lists(self, h):
        return fld(h, "_schema_errors"), fld(h, "_collected_errors")

    def ensures(self, result, old, self_, error_type, reason_code, schema_error, original_exc):
        se, ce = self._lists(self_)
        out = {"returns_only_when_lazy": py_eq(fld0(self_, "_lazy"), True)}
        out["schema_errors_appended_exactly_this_error"] = isinstance(se, SymSeq) and len(se.appended) == 1 and se.appended[0] is schema_error
        ok = isinstance(ce, SymSeq) and len(ce.appended) == 1 and isinstance(ce.appended[0], dict)
        out["one_record_appended"] = ok
        if ok:
            rec = ce.appended[0]
            out["record_fields"] = (rec.get("type") is error_type and rec.get("reason_code") is reason_code and rec.get("error") is schema_error
                                    and rec.get("check") is fld0(schema_error, "check"))
            out["record_column_is_schema_name"] = rec.get("column") is fld0(fld0(schema_error, "schema"), "name")
            fc = fld0(schema_error, "failure_cases")
            cnt = rec.get("failure_cases_count")
            out["count_zero_iff_no_failure_cases"] = Implies(fc is None, py_eq(cnt, 0)) if fc is None else Not(py_eq(cnt, 0)) if isinstance(cnt, int) else True
        out["stored_error_drops_data"] = schema_error.attrs.get("data", "missing") is None
        return out

    def on_raise(self, exc, old, self_, error_type, reason_code, schema_error, original_exc):
        se, ce = self._lists(self_)
        return {
            "raises_only_when_eager": py_eq(fld0(self_, "_lazy"), False),
            "raises_exactly_the_offered_error": exc is schema_error,
            "nothing_recorded": isinstance(se, SymSeq) and not se.appended and isinstance(ce, SymSeq) and not ce.appended,
            "chained_from_original": exc.attrs.get("__cause__", "unset") is original_exc,
        }


class CollectErrors(Contract):
    """collect_errors offers each error of the list, in list order, with ITS reason code and the matching scope."""

    target = f"{EH}.collect_errors"
    params = dict(self=handler(), schema_errors=T.ListOf(schema_error_ref()), original_exc=T.Opt(T.Ref(None)))
    raises = (SchemaError,)

    def setup(self, I):
        from pyvc.spec import resolve_target

        ce = resolve_target(f"{EH}.collect_error")

        def recorder(I, self_obj, error_type, reason_code, schema_error, original_exc=None):
            cur().ghost.setdefault("offered", []).append((self_obj, error_type, reason_code, schema_error, original_exc))
            lazy = fld(self_obj, "_lazy")
            if not I.truth(lazy):
                from pyvc.core import PyExc

                raise PyExc(schema_error)
            return None

        I.models[id(ce)] = recorder

    def call_target(self, I, fn, a):
        return I.call(fn, [a["self"], a["schema_errors"], a["original_exc"]], {})

    @property
    def loops(self):
        def invariant(I, fr, k, phase):
            if phase != "keep":
                if phase == "assume":
                    cur().ghost["offered"] = []
                return {}
            off = cur().ghost.get("offered", [])
            errs = fr.locals["schema_errors"]
            ek = errs.at(k - 1) if False else None
            out = {"offers_exactly_one_error_per_element": len(off) == 1}
            if len(off) == 1:
                h, et, rc, se, oe = off[0]
                cur_elem = fr.locals["schema_error"]
                out["offers_the_kth_element"] = se is cur_elem
                out["with_its_own_reason_code"] = rc is fld0(cur_elem, "reason_code")
                out["scope_is_the_scope_of_the_reason_code"] = et is VALIDATION_DEPTH_ERROR_CODE_MAP[fld0(cur_elem, "reason_code")]
                out["to_this_handler"] = h is fr.locals["self"]
                orig = fr.locals["original_exc"]
                out["original_exc_or_the_error_itself"] = oe is (orig if orig is not None else cur_elem)
            return out

        return {0: LoopSpec(invariant=invariant)}

    def on_raise(self, exc, old, self_, schema_errors, original_exc):
        off = cur().ghost.get("offered", [])
        return {"raises_only_an_offered_error_when_eager": len(off) >= 1 and exc is off[-1][3] and py_eq(fld0(self_, "_lazy"), False)}


class InvalidReason(Contract):
    target = f"{EH}.invalid_reason_code"
    check_frame = True
    params = dict(self=T.Ref(None), category=T.OneOf("DATA", "SCHEMA"))

    def call_target(self, I, fn, a):
        return I.call(fn, [a["self"], a["category"]], {})

    def ensures(self, result, old, self_, category):
        return {"returns_bool": isinstance(result, (bool, SBool))}


class LazyEagerAgreement(Lemma):
    """lemma over the two CollectError contracts: given the SAME sequence of offered errors e_0..e_{m-1}
    (m >= 0; that the sequence does not depend on `lazy` is the proviso proved per function that receives `lazy`),
      lazy:  all m are recorded and validate raises SchemaErrors iff m > 0
      eager: collect_error raises at the first offer, i.e. validate raises iff m > 0, and the raised error is e_0,
             which is an element of the lazy record."""

    params = dict(m=T.Nat)

    def statement(self, m):
        # abstract run of the handler against m offers, using only the contract of collect_error
        i = z3.Int(cur().fresh_name("i"))
        lazy_recorded = lambda j: z3.And(j >= 0, j < m.z)  # lazy: offer j recorded <=> it was offered
        eager_raised_at = z3.If(m.z > 0, z3.IntVal(0), z3.IntVal(-1))  # eager: first offer raises
        lazy_raises = m.z > 0
        eager_raises = eager_raised_at >= 0
        return {
            "raises_lazy_iff_raises_eager": SBool(lazy_raises == eager_raises),
            "eager_error_is_recorded_by_lazy": SBool(z3.Implies(eager_raises, lazy_recorded(eager_raised_at))),
        }


CONTRACTS = [CollectError, CollectErrors]
LEMMAS = [LazyEagerAgreement]
