"""C16 - DataFrameModel._collect_fields, _get_model_attrs, _is_field, _extract_config_options_and_extras (shape-bounded, symbolic values).

_collect_fields(cls)  - given the resolved annotations of the class (`typing.get_type_hints(cls, include_extras=True)`: an ordered
    name -> annotation map, root class first: assumed, it is the stdlib's documented behaviour) and the merged attributes
    (`cls._get_model_attrs()`, own contract below):
    post.one_entry_per_public_annotation_in_annotation_order     keyed by the PUBLIC name (field.name: the alias if one is given)
    post.entry_is_the_parsed_annotation_and_the_field_object     (AnnotationInfo(<that annotation>), <that FieldInfo>)
    post.private_and_reserved_names_are_not_fields               `_x` and `Config` never become columns
    exit.missing_annotation_is_an_init_error / exit.non_field_value_is_an_init_error   (and nothing else raises)
  Shapes: every subset / order of the attribute kinds {annotated field, aliased field, private annotated, Config, a method,
  an un-annotated public value, an annotated public value that is not a Field} up to 3 attributes.
_get_model_attrs(cls)  - attributes of every DataFrameModel class of the MRO, the most derived definition winning, `object` and
    non-model mixins ignored (real class objects of 5 hierarchy shapes; attribute values are tokens).
_extract_config_options_and_extras(config) - public names of the Config that are schema options go to the options, other public names
    to the extras, private / reserved names to neither (a real Config class with every kind of name).
"""
import itertools

from pandera.api.dataframe.model_components import FieldInfo
from pandera.errors import SchemaInitError
from pyvc import core, types as T
from pyvc.core import SAny, cur
from pyvc.heap import DictObj, ListObj, Obj
from pyvc.spec import Contract

DM = "pandera.api.dataframe.model:DataFrameModel"
KINDS = ["field", "aliased_field", "private_annotated", "config", "method", "public_unannotated", "annotated_not_a_field"]


def _a_method(self):  # a routine found among the class attributes
    return None


def _shapes():
    out = [()]
    for n in (1, 2, 3):
        for combo in itertools.permutations(KINDS, n) if n < 3 else itertools.combinations(KINDS, n):
            out.append(combo)
    return out


class CollectFieldsBody(Contract):
    target = f"{DM}._collect_fields"
    raises = (SchemaInitError,)
    split = {"shape": list(range(len(_shapes())))}

    def setup(self, I):
        import pandera.api.dataframe.model as M

        def hints(I_, obj, *a, **k):
            cur().ghost["hints_asked"] = (obj, k)
            d = DictObj(cur().ghost["annotations"])
            return d

        I.models[id(M.get_type_hints)] = hints

        def ann_info(I_, annotation):
            o = Obj(None, "annotation_info", pre=False)
            o.attrs["parsed_from"] = annotation
            return o

        I.models[id(M.AnnotationInfo)] = ann_info

    def make_args(self):
        from pandera.api.dataframe.model import DataFrameModel

        kinds = _shapes()[self.fixed.get("shape", 0)]
        annotations, attrs, meta = {}, DictObj(), []
        for k, kind in enumerate(kinds):
            name = {"private_annotated": f"_p{k}", "config": "Config"}.get(kind, f"x{k}")
            ann = SAny(name=f"annotation[{name}]")
            value = None
            if kind in ("field", "aliased_field"):
                value = Obj(FieldInfo, f"field_{name}", pre=True)
                public = f"alias_{name}" if kind == "aliased_field" else name
                value.attrs["name"] = public
                value.attrs0["name"] = public
                annotations[name] = ann
            elif kind == "private_annotated":
                value, public = 7, None
                annotations[name] = ann
            elif kind == "config":
                value, public = type("Config", (), {}), None
            elif kind == "method":
                value, public = _a_method, None
            elif kind == "public_unannotated":
                value, public = 8, None
            else:
                value, public = 9, None
                annotations[name] = ann
            dict.__setitem__(attrs, name, value)
            meta.append(dict(name=name, kind=kind, ann=ann, value=value, public=public))
        attrs.pre = True
        cls = Obj(DataFrameModel, "cls", pre=True)
        cb = T.Callback(T.Lazy(lambda n: attrs), raises=False).fresh("_get_model_attrs")
        cls.attrs["_get_model_attrs"] = cb
        cls.attrs0["_get_model_attrs"] = cb
        cur().ghost.update(annotations=annotations, meta=meta)
        return {"cls": cls}

    def call_target(self, I, fn, a):
        return I.call(fn, [a["cls"]], {})

    def _expected_error(self, meta):
        if any(m["kind"] == "public_unannotated" for m in meta):
            return "missing_annotation"
        if any(m["kind"] == "annotated_not_a_field" for m in meta):
            return "not_a_field"
        return None

    def ensures(self, result, old, cls):
        g = cur().ghost
        meta = g["meta"]
        out = {"returns_only_without_declaration_errors": self._expected_error(meta) is None}
        asked = g.get("hints_asked")
        out["annotations_resolved_for_this_class_with_extras"] = asked is not None and asked[0] is cls and asked[1].get("include_extras") is True
        fields = [m for m in meta if m["kind"] in ("field", "aliased_field")]
        ok = isinstance(result, dict)
        out["one_entry_per_public_annotation_in_annotation_order"] = ok and list(result) == [m["public"] for m in fields]
        out["private_and_reserved_names_are_not_fields"] = ok and not any(k.startswith("_") or k == "Config" for k in result)
        good = ok
        if ok:
            for m in fields:
                e = result.get(m["public"])
                good = good and isinstance(e, tuple) and len(e) == 2 and isinstance(e[0], Obj) and e[0].attrs.get("parsed_from") is m["ann"] and e[1] is m["value"]
        out["entry_is_the_parsed_annotation_and_the_field_object"] = good
        return out

    def on_raise(self, exc, old, cls):
        meta = cur().ghost["meta"]
        return {"init_error_only_for_a_missing_annotation_or_a_non_field_value": self._expected_error(meta) is not None}


# ---- _get_model_attrs on real class objects -------------------------------------------------------------
def _hierarchies():
    from pandera.api.dataframe.model import DataFrameModel

    def mk(name, bases, **ns):
        ns = dict(ns)
        ns["__module__"] = "c16_standins"
        # plain `type` call: DataFrameModel.__init_subclass__ would compile the class; build it without running it
        return type.__new__(type(DataFrameModel), name, bases, ns) if False else _raw_class(name, bases, ns)

    return mk


def _raw_class(name, bases, ns):
    """a class object with the given bases and namespace whose creation runs no pandera hook (the function under contract only reads
    `inspect.getmro(cls)` and each base's `__dict__`)"""
    import types

    class _NoInit(type(bases[0]) if bases else type):
        def __init__(cls, *a, **k):  # noqa: N805
            type.__init__(cls, *a)

    saved = {}
    for b in bases:
        for klass in b.__mro__:
            f = klass.__dict__.get("__init_subclass__")
            if f is not None and klass not in saved and klass is not object and klass.__module__.startswith("pandera"):
                saved[klass] = f
    try:
        for klass in saved:
            type.__setattr__(klass, "__init_subclass__", classmethod(lambda cls, **kw: None))
        return types.new_class(name, bases, {}, lambda d: d.update(ns))
    finally:
        for klass, f in saved.items():
            type.__setattr__(klass, "__init_subclass__", f)


class GetModelAttrs(Contract):
    target = f"{DM}._get_model_attrs"
    check_frame = False
    split = {"shape": ["single", "chain", "override", "mixin_non_model", "two_model_parents"]}

    def make_args(self):
        from pandera.api.dataframe.model import DataFrameModel as B

        t = lambda n: SAny(name=n)  # noqa: E731
        shape = self.fixed.get("shape", "single")
        vals = {k: t(k) for k in ("A.x", "A.y", "C.x", "C.z", "P.w", "P.x", "mixin.q")}
        A = _raw_class("A", (B,), {"x": vals["A.x"], "y": vals["A.y"]})
        if shape == "single":
            cls, want = A, {"x": vals["A.x"], "y": vals["A.y"]}
        elif shape == "chain":
            cls = _raw_class("C", (A,), {"z": vals["C.z"]})
            want = {"x": vals["A.x"], "y": vals["A.y"], "z": vals["C.z"]}
        elif shape == "override":
            cls = _raw_class("C", (A,), {"x": vals["C.x"]})
            want = {"x": vals["C.x"], "y": vals["A.y"]}
        elif shape == "mixin_non_model":
            Mx = type("Mixin", (), {"q": vals["mixin.q"], "__module__": "c16_standins"})
            cls = _raw_class("C", (A, Mx), {"z": vals["C.z"]})
            want = {"x": vals["A.x"], "y": vals["A.y"], "z": vals["C.z"]}
        else:
            P = _raw_class("P", (B,), {"w": vals["P.w"], "x": vals["P.x"]})
            cls = _raw_class("M", (A, P), {})
            want = {"x": vals["A.x"], "y": vals["A.y"], "w": vals["P.w"]}  # MRO: M, A, P, DataFrameModel: A before P
        cur().ghost.update(want=want, base=B)
        return {"cls": cls}

    def call_target(self, I, fn, a):
        return I.call(fn, [a["cls"]], {})

    def ensures(self, result, old, cls):
        want = cur().ghost["want"]
        base_names = set(vars(cur().ghost["base"]))
        got = {k: v for k, v in dict(result).items() if k in want or (k not in base_names and not k.startswith("__"))}
        return {"declared_attributes_most_derived_definition_wins": set(got) == set(want) and all(got[k] is want[k] for k in want),
                "attributes_of_non_model_mixins_are_ignored": "q" not in dict(result)}


class ExtractConfigOptionsAndExtras(Contract):
    target = f"{DM}._extract_config_options_and_extras"
    check_frame = False

    def make_args(self):
        from pandera.api.dataframe.model import DataFrameModel

        self._vals = {"strict": SAny(name="strict"), "coerce": SAny(name="coerce"), "my_check": SAny(name="my_check"), "_private": SAny(name="_private")}
        cfg = type("Config", (), dict(self._vals, __module__="c16_standins"))
        return {"cls": Obj(DataFrameModel, "cls", pre=True), "config": cfg}

    def call_target(self, I, fn, a):
        return I.call(fn, [a["cls"], a["config"]], {})

    def ensures(self, result, old, cls, config):
        ok = isinstance(result, tuple) and len(result) == 2
        if not ok:
            return {"returns_options_and_extras": False}
        options, extras = dict(result[0]), dict(result[1])
        v = self._vals
        return {"schema_options_go_to_the_options": set(options) == {"strict", "coerce"} and options["strict"] is v["strict"] and options["coerce"] is v["coerce"],
                "other_public_names_are_extras": set(extras) == {"my_check"} and extras["my_check"] is v["my_check"],
                "private_and_reserved_names_are_dropped": "_private" not in options and "_private" not in extras and "__module__" not in extras}


CONTRACTS = [CollectFieldsBody, GetModelAttrs, ExtractConfigOptionsAndExtras]
