"""C20 - head/tail/sample validate exactly the requested rows and return the whole object.

* PandasSchemaBackend.subsample against the position-set spec
      rows(result) == { i : i < head  or  i >= n - tail  or  i in pick(random_state, sample) }, each once
  (a) under the precondition 'index labels are unique'  -> must hold (residual obligation)
  (b) for an arbitrary index                             -> the property as stated (duplicates preserved)
* wiring: which core checks get the subsample and which the whole object (container and array back ends)
"""
import z3

from pandera.backends.base import CoreCheckResult
from pyvc import core, types as T
from pyvc.core import And, Iff, Implies, Not, Or, SAny, SBool, cur, ite, py_eq
from pyvc.heap import Obj
from pyvc.spec import Contract
from pyvc.theories import pandas_lite as PL
from pyvc.theories.pandas_lite import FrameVal, SeriesVal
from contracts.util import fld, fld0

BASE = "pandera.backends.pandas.base:PandasSchemaBackend"


class PandasSubsample(Contract):
    target = f"{BASE}.subsample"
    params = dict(self=T.Ref(None), check_obj=T.Lazy(lambda n: None), head=T.Opt(T.Nat), tail=T.Opt(T.Nat), sample=T.Opt(T.Nat), random_state=T.Opt(T.Int))

    def setup(self, I):
        PL.install(I)

    def make_args(self):
        k = cur().choose([("DataFrame", None), ("Series", None)], "kind(check_obj)")
        obj = FrameVal.fresh("check_obj") if k == 0 else SeriesVal.fresh("check_obj", "real")
        a = {"self": T.Ref(None).fresh("self"), "check_obj": obj}
        for name in ("head", "tail", "sample", "random_state"):
            a[name] = T.fresh_value(self.params[name], name)
        return a

    def requires(self, self_, check_obj, head, tail, sample, random_state):
        n = check_obj.space.n
        return And(*[v <= n for v in (head, tail, sample) if v is not None])

    def call_target(self, I, fn, args):
        return I.call(fn, [args["self"], args["check_obj"], args["head"], args["tail"], args["sample"], args["random_state"]], {})

    def _spec(self, check_obj, head, tail, sample, random_state, i):
        n = check_obj.space.n.z
        parts = []
        if head is not None:
            parts.append(i < head.z)
        if tail is not None:
            parts.append(i >= n - tail.z)
        if sample is not None:
            picked = cur().ghost.get("pick_fns", {}).get(("picked", check_obj.space.name))
            rs = random_state.z if random_state is not None else z3.IntVal(-1)
            parts.append(picked(rs, sample.z, i) if picked is not None else z3.BoolVal(False))
        return z3.And(check_obj.sel(i), z3.Or(*parts)) if parts else check_obj.sel(i)

    def ensures(self, result, old, self_, check_obj, head, tail, sample, random_state):
        if head is None and tail is None and sample is None:
            return {"no_option_returns_the_object_itself": result is check_obj}
        out = {"same_kind_and_base": type(result) is type(check_obj) and result.space is check_obj.space}
        if not out["same_kind_and_base"]:
            return out
        i = z3.Int(cur().fresh_name("row"))
        core.register_model_var("row", i)
        spec = self._spec(check_obj, head, tail, sample, random_state, i)
        same = SBool(result.sel(i) == spec)
        uniq = check_obj.index.is_unique if hasattr(check_obj, "index") else True
        out["positions_given_unique_index"] = Implies(uniq, same)
        out["positions_for_any_index"] = same
        return out


class _Wiring(Contract):
    """records which object each core check receives"""

    check_frame = False
    core_names = ()
    backend_cls = None

    def setup(self, I):
        PL.install(I)
        self_contract = self

        def recorder(name):
            def model(I, self_obj, *args, **kw):
                cur().ghost.setdefault("core_calls", []).append((name, args, kw))
                if name == "subsample":
                    if len(args) == 5 and all(a is None for a in args[1:4]):
                        return args[0]  # (PandasSubsample/post: without head / tail / sample the object itself)
                    tok = Obj(None, f"SUBSAMPLE#{len([c for c in cur().ghost['core_calls'] if c[0]=='subsample'])}", pre=True)
                    return tok
                r = Obj(CoreCheckResult, "result_" + name, pre=True, fields=dict(passed=T.Const(True)))
                r.attrs["passed"] = True
                return r

            return model

        for name in self.core_names + ("subsample",):
            fn = getattr(self.backend_cls, name)
            I.models[id(fn)] = recorder(name)
            w = getattr(fn, "__wrapped__", None)
            if w is not None:
                I.models[id(w)] = recorder(name)

    def calls(self, name):
        return [c for c in cur().ghost.get("core_calls", []) if c[0] == name]


class ContainerWiring(_Wiring):
    """DataFrameSchemaBackend.run_checks_and_handle_errors: schema-level checks (column names unique, column
    presence) see the WHOLE object; row-level checks (joint uniqueness, components, dataframe checks) see the
    subsample computed from exactly the caller's head/tail/sample/random_state."""

    target = "pandera.backends.pandas.container:DataFrameSchemaBackend.run_checks_and_handle_errors"
    core_names = ("check_column_names_are_unique", "check_column_presence", "check_column_values_are_unique",
                  "run_schema_component_checks", "run_checks")
    params = dict(self=None)
    split = {"options": ["given", "none"]}

    @property
    def backend_cls(self):
        from pandera.backends.pandas.container import DataFrameSchemaBackend

        return DataFrameSchemaBackend

    def make_args(self):
        from pandera.backends.pandas.container import DataFrameSchemaBackend

        a = {"self": T.Ref(DataFrameSchemaBackend).fresh("self"), "error_handler": T.Ref(None).fresh("error_handler"),
             "schema": T.Ref(None).fresh("schema"), "check_obj": T.fresh_value(T.Any, "check_obj"),
             "column_info": T.fresh_value(T.Any, "column_info"), "sample": T.fresh_value(T.Any, "sample"),
             "components": T.fresh_value(T.Any, "components"), "lazy": T.fresh_value(T.Bool, "lazy"),
             "head": T.fresh_value(T.Any, "head"), "tail": T.fresh_value(T.Any, "tail"), "random_state": T.fresh_value(T.Any, "random_state")}
        if self.fixed.get("options", "given") == "none":
            a.update(head=None, tail=None, sample=None)
        return a

    def call_target(self, I, fn, a):
        return I.call(fn, [a[k] for k in ("self", "error_handler", "schema", "check_obj", "column_info", "sample", "components", "lazy", "head", "tail", "random_state")], {})

    def ensures(self, result, old, self_, error_handler, schema, check_obj, column_info, sample, components, lazy, head, tail, random_state):
        sub = self.calls("subsample")
        out = {"subsample_called_once": len(sub) == 1}
        if len(sub) != 1:
            return out
        sargs = sub[0][1]
        out["subsample_gets_callers_options"] = (len(sargs) == 5 and sargs[0] is check_obj and sargs[1] is head and sargs[2] is tail
                                                 and sargs[3] is sample and sargs[4] is random_state and not sub[0][2])
        toks = [o for o in cur().objects if o.name.startswith("SUBSAMPLE#")]
        tok = toks[0] if toks else check_obj
        # C03: the schema components PARSE (custom parsers, written back in place) the table they are given - the table validate goes
        # on to return must be that table, or the parsed values are lost (they end up in a sub-sample copy)
        comp = self.calls("run_schema_component_checks")
        if len(comp) == 1:
            out["components_parse_the_table_that_is_returned"] = comp[0][1][0] is check_obj
        for name, want in (("check_column_names_are_unique", check_obj), ("check_column_presence", check_obj),
                           ("check_column_values_are_unique", tok), ("run_schema_component_checks", tok), ("run_checks", tok)):
            cs = self.calls(name)
            out[f"{name}_called_once"] = len(cs) == 1
            if len(cs) == 1:
                which = "whole_object" if want is check_obj else "subsample"
                out[f"{name}_receives_{which}"] = cs[0][1][0] is want
        out["returns_the_handler"] = result is error_handler
        return out


class ArrayWiring(_Wiring):
    """ArraySchemaBackend.run_checks_and_handle_errors: every field-level core check sees the subsample (of the
    field for name/nullable/unique/dtype, of the object for the user checks), computed from the caller's options."""

    target = "pandera.backends.pandas.array:ArraySchemaBackend.run_checks_and_handle_errors"
    core_names = ("check_name", "check_nullable", "check_unique", "check_dtype", "run_checks")

    @property
    def backend_cls(self):
        from pandera.backends.pandas.array import ArraySchemaBackend

        return ArraySchemaBackend

    def make_args(self):
        from pandera.backends.pandas.array import ArraySchemaBackend

        return {"self": T.Ref(ArraySchemaBackend).fresh("self"), "error_handler": T.Ref(None).fresh("error_handler"),
                "schema": T.Ref(None).fresh("schema"), "check_obj": SeriesVal.fresh("check_obj", "real"),
                "head": T.fresh_value(T.Any, "head"), "tail": T.fresh_value(T.Any, "tail"),
                "sample": T.fresh_value(T.Any, "sample"), "random_state": T.fresh_value(T.Any, "random_state")}

    def call_target(self, I, fn, a):
        return I.call(fn, [a["self"], a["error_handler"], a["schema"], a["check_obj"]],
                      dict(head=a["head"], tail=a["tail"], sample=a["sample"], random_state=a["random_state"]))

    def ensures(self, result, old, self_, error_handler, schema, check_obj, head, tail, sample, random_state):
        sub = self.calls("subsample")
        out = {"subsample_called_twice": len(sub) == 2}
        if len(sub) != 2:
            return out
        for n, (_, sargs, skw) in enumerate(sub):
            out[f"subsample{n}_gets_callers_options"] = (len(sargs) == 1 and sargs[0] is check_obj and set(skw) == {"head", "tail", "sample", "random_state"}
                                                         and skw["head"] is head and skw["tail"] is tail and skw["sample"] is sample and skw["random_state"] is random_state)
        toks = sorted([o for o in cur().objects if o.name.startswith("SUBSAMPLE#")], key=lambda o: o.name)
        for name in self.core_names:
            cs = self.calls(name)
            out[f"{name}_called_once"] = len(cs) == 1
            if len(cs) == 1:
                out[f"{name}_receives_subsample"] = cs[0][1][0] in toks
        out["returns_the_handler"] = result is error_handler
        return out


CONTRACTS = [PandasSubsample, ContainerWiring, ArrayWiring]


# ---------------------------------------------------------------------------------------
# polars
# ---------------------------------------------------------------------------------------
from pyvc.theories import polars_lite as PP  # noqa: E402


class PolarsSubsample(Contract):
    """PolarsSchemaBackend.subsample against the same position-set spec.
    (a) when all rows of the frame are pairwise different (by value)  -> must hold (residual)
    (b) for arbitrary data (duplicate rows are rows too)              -> the property as stated
    (c) never leaks an internal exception (sample= on a LazyFrame)"""

    target = "pandera.backends.polars.base:PolarsSchemaBackend.subsample"
    params = dict(self=T.Ref(None), check_obj=None, head=T.Opt(T.Nat), tail=T.Opt(T.Nat), sample=T.Opt(T.Nat), random_state=T.Opt(T.Int))

    def setup(self, I):
        PL.install(I)
        PP.install(I)

    def make_args(self):
        a = {"self": T.Ref(None).fresh("self"), "check_obj": PP.FrameP.fresh("check_obj", columns=("a", "b"), kind="LazyFrame")}
        for name in ("head", "tail", "sample", "random_state"):
            a[name] = T.fresh_value(self.params[name], name)
        return a

    def requires(self, self_, check_obj, head, tail, sample, random_state):
        n = check_obj.space.n
        return And(*[v <= n for v in (head, tail, sample) if v is not None])

    def call_target(self, I, fn, a):
        return I.call(fn, [a["self"], a["check_obj"], a["head"], a["tail"], a["sample"], a["random_state"]], {})

    def ensures(self, result, old, self_, check_obj, head, tail, sample, random_state):
        if head is None and tail is None and sample is None:
            return {"no_option_returns_the_object_itself": result is check_obj}
        out = {"same_base": isinstance(result, PP.FrameP) and result.space is check_obj.space}
        if not out["same_base"]:
            return out
        i = z3.Int(cur().fresh_name("row"))
        n = check_obj.space.n.z
        parts = []
        if head is not None:
            parts.append(i < head.z)
        if tail is not None:
            parts.append(i >= n - tail.z)
        spec = z3.And(check_obj.sel(i), z3.Or(*parts)) if parts else check_obj.sel(i)
        same = SBool(result.sel(i) == spec)
        a, b = z3.Int(cur().fresh_name("a")), z3.Int(cur().fresh_name("b"))
        eqrow = z3.And(*[z3.Or(z3.And(c.null(a), c.null(b)), z3.And(z3.Not(c.null(a)), z3.Not(c.null(b)), core.as_z3_bool(py_eq(c.at(a), c.at(b)))))
                         for c in check_obj.cols.values()])
        distinct = SBool(z3.ForAll([a, b], z3.Implies(z3.And(check_obj.sel(a), check_obj.sel(b), a != b), z3.Not(eqrow))))
        out["positions_given_distinct_rows"] = Implies(distinct, same)
        out["positions_for_any_data"] = same
        return out

    def on_raise(self, exc, old, **a):
        return {}


CONTRACTS.append(PolarsSubsample)

# polars container: which core checks see the sub-sample and which the whole parsed frame (post.*_sees_the_*) - shared with C03
from contracts.C03_polars_container_validate import PolarsContainerValidate  # noqa: E402

CONTRACTS = list(CONTRACTS) + [PolarsContainerValidate]

# the Index component: its values are validated under positional labels and with the caller's head/tail/sample (IndexValidate, C04 file)
from contracts.C04_field_validate import ArrayValidate, IndexValidate  # noqa: E402

from contracts.C02_polars_column_collect import PolarsColumnCollect  # noqa: E402  (every polars column core check sees the sub-sample)

CONTRACTS = list(CONTRACTS) + [IndexValidate, ArrayValidate, PolarsColumnCollect]
