"""C18: the kill switch at the other public validate entry points (contracts shared with C03 / C04)."""
from contracts.C03_series_validate import SeriesSchemaValidate
from contracts.C04_polars_api import CONTRACTS as POLARS_API

from contracts.C03_polars_container_validate import DEPTH_CONTRACTS

CONTRACTS = [SeriesSchemaValidate] + list(POLARS_API) + list(DEPTH_CONTRACTS)

# the verdict of a lazy run is "raise iff something was collected": whatever the depth, the handler keeps EVERY error it is offered
# (which errors are produced at a depth is decided by the scoped checks, not by the collector)
from contracts.C02_error_handler import CollectError, CollectErrors

CONTRACTS = list(CONTRACTS) + [CollectError, CollectErrors]

# which cast a depth selects (polars): the value-checking try_coerce under every depth that validates data, the lazy strict cast only
# under SCHEMA_ONLY - "depth only removes checks": DATA_ONLY must still see the uncoercible values SCHEMA_AND_DATA sees
from contracts.C10_polars_container_coerce import PolarsCoerceHelper  # noqa: E402
from contracts.C10_polars_column_coerce import PolarsColumnCoerceDtype  # noqa: E402

CONTRACTS = list(CONTRACTS) + [PolarsCoerceHelper, PolarsColumnCoerceDtype]
