"""C18: the kill switch at the other public validate entry points (contracts shared with C03 / C04)."""
from contracts.C03_series_validate import SeriesSchemaValidate
from contracts.C04_polars_api import CONTRACTS as POLARS_API

CONTRACTS = [SeriesSchemaValidate] + list(POLARS_API)
