"""C04 / C18 / C07 (polars API level): DataFrameSchema.validate and Column.validate of pandera.api.polars.

  * kind(result) == kind(argument): a pl.DataFrame is validated as a LazyFrame and collected again, a LazyFrame stays lazy
  * validation disabled -> the argument itself is returned and the back end is not called
  * the back end is called once with the caller's options; the depth in force during that call is
    get_validation_depth(argument); the context configuration is the same after the call as before (normal and
    exceptional exit) - sequentially.  (That it is *written* at all is the C07 strict-frame finding.)
"""
from pandera.config import ValidationDepth
from pandera.errors import SchemaDefinitionError, SchemaError, SchemaErrors
from pyvc import core, types as T
from pyvc.core import And, Iff, Implies, Not, Or, PyExc, SAny, SBool, cur, py_eq
from pyvc.heap import Obj
from pyvc.interp import OtherException
from pyvc.spec import Contract
from pyvc.theories import pandas_lite as PL
from pyvc.theories import polars_lite as PP
from pyvc.theories import pandera_models as PM
from contracts.util import fld, fld0

OPTS = ("head", "tail", "sample", "random_state", "lazy", "inplace")
CFG = ("validation_enabled", "validation_depth", "cache_dataframe", "keep_cached_dataframe")


def _mk(target_cls, target):
    class V(Contract):
        raises = (SchemaError, SchemaErrors, SchemaDefinitionError, OtherException, TypeError)
        split = {"kind": ["DataFrame", "LazyFrame"]}

        def setup(self, I):
            PL.install(I)
            PP.install(I)
            PM.install(I)
            from pandera.api.base.schema import BaseSchema

            class Backend:
                __pyvc_symbolic__ = True

                def validate(bself, check_obj, *args, **kw):
                    p = cur()
                    p.ghost.setdefault("backend_calls", []).append((check_obj, args, kw))
                    ctx = p.globals_state[("pandera.config", "_CONTEXT_CONFIG")]
                    p.ghost["depth_during_validation"] = fld(ctx, "validation_depth")
                    k = p.choose([("returns", None), ("SchemaError", None), ("SchemaErrors", None), ("foreign", None)], "backend.validate")
                    if k > 0:
                        raise PyExc(I.make_exc([None, SchemaError, SchemaErrors, OtherException][k]))
                    out = check_obj.derive()
                    # what the back end hands back is a QUERY: under a schema-only depth its coercion is a strict cast that polars
                    # evaluates - and may refuse - only when the query is collected (C06: also then no polars exception may escape)
                    if p.choose([("evaluated", None), ("holds_a_pending_strict_cast", None)], "validated query") == 1:
                        out.may_fail_when_collected = True
                    p.ghost["backend_result"] = out
                    return out

            def get_backend(I_, cls_or_self, *a, **k):
                # the back end registered for the type of the argument, else BackendNotFoundError - a TypeError (C06: "TypeError for a
                # non-dataframe argument"); the context configuration is restored on that exit as on every other
                if cur().choose([("registered", None), ("no_backend_for_this_type_of_argument", None)], "get_backend") == 1:
                    from pandera.errors import BackendNotFoundError

                    raise PyExc(I_.make_exc(BackendNotFoundError, "Backend not found for backend, class: ..."))
                return Backend()

            I.models[id(BaseSchema.get_backend.__func__)] = get_backend

        def make_args(self):
            kind = self.fixed.get("kind", "LazyFrame")
            obj = PP.FrameP.fresh("check_obj", columns=("a",), kind=kind)
            a = {"self": T.Ref(target_cls).fresh("self"), "check_obj": obj}
            for o in OPTS:
                a[o] = T.fresh_value(T.Any, o)
            cur().ghost["kind"] = kind
            return a

        def call_target(self, I, fn, a):
            p = cur()
            ctx = I.lookup_global("_CONTEXT_CONFIG", fn) if False else None
            return I.call(fn, [a["self"], a["check_obj"]], {o: a[o] for o in OPTS})

        def modifies(self, **a):
            # sequentially the context configuration is restored by value (object replaced by an equal copy)
            g0 = cur().ghost.get("globals0", {})
            ctx0 = g0.get(("pandera.config", "_CONTEXT_CONFIG"))
            return [("global", ("pandera.config", "_CONTEXT_CONFIG"))] + ([(ctx0, f) for f in CFG] if ctx0 is not None else [])

        def _config_restored(self):
            p = cur()
            g0 = p.ghost.get("globals0", {})
            ctx0 = g0.get(("pandera.config", "_CONTEXT_CONFIG"))
            ctx1 = p.globals_state.get(("pandera.config", "_CONTEXT_CONFIG"))
            if ctx0 is None:
                return True
            return And(*[py_eq(fld(ctx1, f), fld0(ctx0, f)) if f != "validation_depth" else (fld(ctx1, f) is fld0(ctx0, f)) for f in CFG])

        def ensures(self, result, old, self_, check_obj, **kw):
            p = cur()
            calls = p.ghost.get("backend_calls", [])
            ctx0 = p.ghost.get("globals0", {}).get(("pandera.config", "_CONTEXT_CONFIG"))
            enabled = fld0(ctx0, "validation_enabled") if ctx0 is not None else True
            out = {"context_config_restored": self._config_restored()}
            if enabled is not True and not cur().decide(enabled, "validation_enabled"):
                out["disabled_returns_argument_untouched"] = result is check_obj and calls == []
                return out
            out["backend_called_once"] = len(calls) == 1
            out["kind_preserved"] = isinstance(result, PP.FrameP) and result.kind == p.ghost["kind"]
            if len(calls) == 1:
                obj, args, ckw = calls[0]
                allkw = dict(ckw)
                out["backend_sees_a_lazyframe_of_the_argument"] = isinstance(obj, PP.FrameP) and obj.kind == "LazyFrame" and obj.space is check_obj.space
                out["options_forwarded"] = all(allkw.get(o) is kw[o] for o in OPTS)
                out["result_is_the_backend_result"] = result.space is p.ghost["backend_result"].space and result._sel is p.ghost["backend_result"]._sel
            return out

        def on_raise(self, exc, old, **a):
            return {"context_config_restored": self._config_restored()}

        def concretize(self, rec):
            def thunk():
                """inside the caller's own config_context, a passing and a failing validation: the caller's context is as before"""
                import warnings

                import polars as pl
                import pandera as pa
                import pandera.polars as pp
                from pandera.config import ValidationDepth, config_context, get_config_context

                warnings.simplefilter("ignore")
                obs, bad = {}, False
                schema = pp.DataFrameSchema({"a": pp.Column(int, pa.Check.gt(0))})
                for mk in (pl.DataFrame, pl.LazyFrame):
                    for data in ([1, 2], [1, -2]):
                        for lazy in (False, True):
                            with config_context(validation_depth=ValidationDepth.SCHEMA_AND_DATA, cache_dataframe=True):
                                before = get_config_context()
                                before = (before.validation_depth, before.cache_dataframe, before.validation_enabled, before.keep_cached_dataframe)
                                try:
                                    schema.validate(mk({"a": data}), lazy=lazy)
                                except (pa.errors.SchemaError, pa.errors.SchemaErrors):
                                    pass
                                after = get_config_context()
                                after = (after.validation_depth, after.cache_dataframe, after.validation_enabled, after.keep_cached_dataframe)
                            if after != before:
                                bad = True
                                obs[f"{mk.__name__} {data} lazy={lazy}"] = {"context before": [str(x) for x in before], "after": [str(x) for x in after]}
                # C06: a pl.DataFrame under an explicit schema-only depth: the strict cast is evaluated by the final collect()
                for name, sch in (("DataFrameSchema", pp.DataFrameSchema({"a": pp.Column(int)}, coerce=True)), ("Column", pp.Column(int, name="a", coerce=True))):
                    for lazy in (False, True):
                        with config_context(validation_depth=ValidationDepth.SCHEMA_ONLY):
                            try:
                                sch.validate(pl.DataFrame({"a": ["1", "x"]}), lazy=lazy)
                                got = "returned"
                            except (pa.errors.SchemaError, pa.errors.SchemaErrors) as e:
                                got = type(e).__name__
                            except Exception as e:  # noqa: BLE001
                                got = "leaked " + type(e).__name__
                        want = "SchemaErrors" if lazy else "SchemaError"
                        if got != want:
                            bad = True
                            obs[f"{name}(int, coerce=True).validate(pl.DataFrame a=['1','x'], lazy={lazy}) under SCHEMA_ONLY"] = f"{got}, expected {want}"
                return bad, obs or "the caller's context configuration is unchanged after passing and failing validations"

            return thunk

    V.target = target
    V.__name__ = "PolarsApi_" + target_cls.__name__
    return V


def _contracts():
    from pandera.api.polars.container import DataFrameSchema
    from pandera.api.polars.components import Column

    return [_mk(DataFrameSchema, "pandera.api.polars.container:DataFrameSchema.validate"),
            _mk(Column, "pandera.api.polars.components:Column.validate")]


CONTRACTS = _contracts()
