"""C12 - the text-level entry points (from_yaml / from_json / to_yaml / to_json and exec of to_script).

from_yaml / from_json open their argument as a path first (`with Path(x).open()`); file-system access is outside
PyVC's subset, so these two are UNDECIDED symbolically and carry a *bounded stand-in*: the property's quantifier text
evaluated at run time on the real functions over generated schemas (labelled bounded, never counted as proof).
Generated domain: <= 3 columns, <= 2 checks of different kinds each, optional Index / MultiIndex, every serialisable
attribute varied; the triggers of the open findings (see known_findings_C12.json) are left out of the generator.
to_yaml / to_json are verified symbolically: the text is the dump of serialize_schema(S) with keys in record order.
"""
from pyvc import core, types as T
from pyvc.core import cur
from pyvc.heap import DictObj, ListObj
from pyvc.spec import Contract
from pyvc.theories import serial
from pyvc.theories.serial import DumpedText, FlowJson

IO = "pandera.io.pandas_io"
FLOW = T.Lazy(lambda n: FlowJson(name=n))


def tiny_schema():
    ref = T.Ref(None, strict=True, columns=T.Const(DictObj()), checks=T.Const(ListObj()), index=T.Const(None), dtype=T.Const(None), coerce=T.Bool,
                name=FLOW, ordered=T.Bool, unique=FLOW, report_duplicates=FLOW, unique_column_names=T.Bool, add_missing_columns=T.Bool, title=FLOW, description=FLOW)
    ref.fields["strict"] = FLOW
    return ref.fresh("schema")


RECORD_KEYS = ["schema_type", "version", "columns", "checks", "index", "dtype", "coerce", "strict", "name", "ordered", "unique", "report_duplicates",
               "unique_column_names", "add_missing_columns", "title", "description"]  # documented YAML layout (docs/source/schema_inference.md)


def _dump_contract(fn_name, fmt, argname):
    class Dump(Contract):
        """the text is the dump of the serialised record, keys in record order (sort_keys=False), nothing written elsewhere"""

        target = f"{IO}:{fn_name}"
        raises = ()

        def setup(self, I):
            serial.install(I)

        def make_args(self):
            return {"dataframe_schema": tiny_schema()}

        def call_target(self, I, fn, a):
            return I.call(fn, [a["dataframe_schema"]], {})

        def ensures(self, result, old, dataframe_schema):
            from contracts.util import fld0

            out = {"returns_the_dumped_text": isinstance(result, DumpedText) and result.fmt == fmt}
            if not out["returns_the_dumped_text"]:
                return out
            out["keys_keep_record_order"] = result.sort_keys is False and list(result.value) == RECORD_KEYS
            out["schema_level_values_are_the_schemas"] = all(result.value[k] is fld0(dataframe_schema, k) for k in
                                                             ("coerce", "strict", "name", "ordered", "unique", "report_duplicates", "unique_column_names", "add_missing_columns", "title", "description"))
            return out

    Dump.__name__ = f"Dump_{fn_name}"
    return Dump


ToYaml = _dump_contract("to_yaml", "yaml", "stream")
ToJson = _dump_contract("to_json", "json", "target")


class _Load(Contract):
    raises = ()

    def setup(self, I):
        serial.install(I)

    def make_args(self):
        rec = DictObj({"columns": None, "checks": None, "index": None})
        return {self.argname: DumpedText(rec, self.fmt, False, [])}


def end_to_end_standin(seed=0, tier="quick"):
    import random
    import warnings

    import pandas as pd

    import pandera as pa
    from pandera import Check, Column, DataFrameSchema, Index, MultiIndex, io

    rng = random.Random(seed)
    n_cases = 60 if tier == "quick" else 300
    bound = f"{n_cases} schemas: <= 3 columns, <= 2 checks of different kinds each, optional Index/MultiIndex, 3 probe frames each"

    def text():
        return rng.choice(["t", "some text", "x: y", "a-b", "émile", "#1"])

    def checks(kind):
        pool = {
            "int": [lambda: Check.gt(rng.randint(-3, 3)), lambda: Check.le(rng.randint(4, 9)), lambda: Check.in_range(rng.randint(-3, 0), rng.randint(1, 9), include_min=rng.random() < .5),
                    lambda: Check.isin([1, 2, 3, rng.randint(4, 9)]), lambda: Check.ne(rng.randint(0, 5)), lambda: Check.notin([rng.randint(10, 20)])],
            "str": [lambda: Check.str_length(rng.randint(0, 1), rng.randint(2, 6)), lambda: Check.str_startswith(rng.choice(["a", "b"])), lambda: Check.isin(["a", "ab", "b"]),
                    lambda: Check.str_matches(rng.choice(["^a", "b$", "^[ab]+$"]))],
            "dt": [lambda: Check.gt(pd.Timestamp("2019-12-31")), lambda: Check.in_range(pd.Timestamp("2000-01-01 01:02:03"), pd.Timestamp("2030-01-01"))],
            "td": [lambda: Check.lt(pd.Timedelta(rng.randint(2, 9), unit="D")), lambda: Check.in_range(pd.Timedelta(rng.randint(1, 999), unit="ns"), pd.Timedelta(5, unit="D"))],
        }[kind]
        out, names = [], set()
        for mk in rng.sample(pool, rng.randint(0, 2)):
            opts = {}
            if rng.random() < .5:
                opts["ignore_na"] = rng.random() < .5
            if rng.random() < .3:
                opts["raise_warning"] = rng.random() < .5
            if rng.random() < .3:
                opts["n_failure_cases"] = rng.randint(1, 4)
            c = mk()
            if c.name in names:
                continue
            names.add(c.name)
            for k, v in opts.items():
                setattr(c, k, v)
            out.append(c)
        return out

    DT = {"int": "int64", "str": "str", "dt": "datetime64[ns]", "td": "timedelta64[ns]"}

    def component(cls, kind, **extra):
        # typed domain: temporal statistics on temporal components only (dtype=None only for int / str components)
        kw = dict(dtype=DT[kind] if (kind in ("dt", "td") or rng.random() < .9) else None, checks=checks(kind), nullable=rng.random() < .5, unique=rng.random() < .3, coerce=rng.random() < .3)
        if rng.random() < .4:
            kw["title"] = text()
        if rng.random() < .4:
            kw["description"] = text()
        if cls is Index:
            kw["unique"] = False  # open finding C12-script-index-unique-missing
        kw.update(extra)
        return cls(**kw)

    def schema():
        kinds = [rng.choice(["int", "str", "dt", "td"]) for _ in range(rng.randint(0, 3))]
        cols = {f"c{i}": component(Column, k, required=rng.random() < .8, regex=False) for i, k in enumerate(kinds)}
        r = rng.random()
        index = None if r < .4 else component(Index, "int", name=rng.choice([None, "idx"])) if r < .8 else MultiIndex([component(Index, "int", name="l0"), component(Index, "str", name="l1")])
        kw = dict(coerce=rng.random() < .3, strict=rng.choice([True, False]), ordered=rng.random() < .3, unique_column_names=rng.random() < .3, add_missing_columns=rng.random() < .2,
                  name=rng.choice([None, "sch", "it's"]), report_duplicates=rng.choice(["all", "exclude_first", "exclude_last"]))
        if cols and rng.random() < .3:
            kw["unique"] = [next(iter(cols))]
        return (lambda: DataFrameSchema(dict(cols), index=index, **kw)), kinds, index

    def frames(kinds, index):
        out = []
        for variant in range(3):
            n = 3
            data = {}
            for i, k in enumerate(kinds):
                data[f"c{i}"] = {"int": [rng.randint(-5, 12) for _ in range(n)], "str": [rng.choice(["a", "ab", "b", "zzzzzzz"]) for _ in range(n)],
                                 "dt": list(pd.to_datetime([rng.choice(["1999-01-01", "2020-05-05", "2031-01-01"]) for _ in range(n)])),
                                 "td": list(pd.to_timedelta([rng.choice([0, 500, 10 ** 14, 10 ** 15]) for _ in range(n)], unit="ns"))}[k]
                if variant == 2 and k == "int":
                    data[f"c{i}"] = [float("nan")] + [float(x) for x in data[f"c{i}"][1:]]
            df = pd.DataFrame(data, index=range(n))
            if isinstance(index, MultiIndex):
                df.index = pd.MultiIndex.from_arrays([[rng.randint(-2, 5) for _ in range(n)], [rng.choice(["a", "b"]) for _ in range(n)]], names=["l0", "l1"])
            elif index is not None:
                df.index = pd.Index([rng.randint(-2, 9) for _ in range(n)], name=index.name)
            out.append(df)
        return out

    def verdict(s, df):
        try:
            with warnings.catch_warnings(record=True) as w:
                warnings.simplefilter("always")
                s.validate(df, lazy=True)
            return ("pass", len([x for x in w if issubclass(x.category, pa.errors.SchemaWarning)]))
        except pa.errors.SchemaErrors as e:
            fc = e.failure_cases
            return ("fail", sorted(map(str, fc[["schema_context", "column", "check", "failure_case"]].values.tolist())))
        except Exception as e:  # noqa
            return ("error", type(e).__name__)

    def run_script(t):
        ns = {}
        exec(t, ns)
        return ns["schema"]

    warnings.simplefilter("ignore")
    for case in range(n_cases):
        mk, kinds, index = schema()
        s = mk()
        fail = None
        try:
            y = io.to_yaml(s)
            sy = io.from_yaml(y)
            j = io.to_json(s)
            sj = io.from_json(j)
            ss = run_script(io.to_script(s))
            problems = []
            for label, other in (("from_yaml(to_yaml(S))", sy), ("from_json(to_json(S))", sj), ("exec(to_script(S)).schema", ss)):
                if other != mk():
                    problems.append(f"{label} != S")
            if s != mk():
                problems.append("S itself changed by serialising it")
            if io.to_yaml(sy) != y:
                problems.append("to_yaml(from_yaml(y)) != y")
            if io.to_json(sj) != j:
                problems.append("to_json(from_json(j)) != j")
            for k, df in enumerate(frames(kinds, index)):
                want = verdict(mk(), df)
                for label, other in (("yaml", sy), ("json", sj), ("script", ss)):
                    got = verdict(other, df)
                    if got != want:
                        problems.append(f"probe {k}: verdict via {label} {str(got)[:80]} != original {str(want)[:80]}")
            if problems:
                fail = problems
        except Exception as e:  # noqa
            fail = [f"raised {type(e).__name__}: {str(e)[:200]}"]
        if fail:
            return {"examples": case + 1, "bound": bound, "failing_input": {"schema": repr(s), "yaml": io.serialize_schema(mk()) if not fail[0].startswith("raised") else None}, "observed": fail[:6]}
    return {"examples": n_cases, "bound": bound, "failing_input": None}


class FromYaml(_Load):
    """from_yaml(text): the schema de-serialised from the YAML document (bounded stand-in: end-to-end round trips)"""

    target = f"{IO}:from_yaml"
    argname, fmt = "yaml_schema", "yaml"
    bounded_standin = staticmethod(end_to_end_standin)


CONTRACTS = [ToYaml, ToJson, FromYaml]
