"""C11 - drop_invalid_rows removes exactly the rows that violate a row-level constraint.

pandas: PandasSchemaBackend.drop_invalid_rows(check_obj, error_handler)
   rows(result) == [ r in rows(check_obj) : label(r) not in  U_j  failure_cases_j['index'] ]   (original order, values kept)
   and, when index labels are unique, this is the position-based statement of the property:
   row r is dropped  <=>  some collected error reports row r.
Loop invariant (closed form in the iteration counter k):  after k errors the view is
   sel_k(i) = sel_0(i) and not exists j < k . label(i) in failing_j
"""
import z3

from pyvc import core, types as T
from pyvc.core import And, Iff, Implies, Not, Or, SAny, SBool, cur, ite, py_eq
from pyvc.heap import Obj
from pyvc.spec import Contract, LoopSpec
from pyvc.theories import pandas_lite as PL
from pyvc.theories.pandas_lite import FrameVal, LabelSeries, SeriesVal, L
from pyvc.values import SymSeq
from contracts.util import fld, fld0

BASE = "pandera.backends.pandas.base:PandasSchemaBackend"


class TabularFailureCases:
    """failure cases in the reshaped (tabular) form: has an 'index' column holding the labels of the failing rows"""

    __pyvc_symbolic__ = True

    def __init__(self, member, text=None):
        self.member, self.text = member, text

    def pyvc_getitem(self, I, k):
        if k == "index":
            if self.text is not None:
                return PL.TextLabelSeries(self.member, labels_are_literals=self.text == "literal")
            return LabelSeries(self.member)
        raise core.Unsupported(f"failure_cases[{k!r}]")


def errors_list(name, text=None):
    """list of collected SchemaErrors; error j reports the label set  { l : fails(j, l) }
    text (MultiIndex): the report holds the TEXT of each label tuple: error j reports { t : reports_text(j, t) } and a row is
    reported when the text of its label is in that set"""
    if text is not None:
        rt = z3.Function(cur().fresh_name("reports_text"), z3.IntSort(), PL.LabelText, z3.BoolSort())
        fails = lambda j, l: rt(j, PL.label_text(l))  # noqa: E731
    else:
        fails = z3.Function(cur().fresh_name("fails"), z3.IntSort(), L, z3.BoolSort())
    cur().ghost["fails"] = fails
    n = core.sym_int(f"len({name})")
    cur().assume(n >= 0)
    core.register_model_var(f"len({name})", n.z)

    def elem(i):
        iz = i.z if isinstance(i, core.SNum) else z3.IntVal(i)
        o = Obj(None, f"{name}[{iz}]", pre=True)
        if text is not None:
            o.attrs["failure_cases"] = TabularFailureCases(lambda t, iz=iz: SBool(rt(iz, t)), text=text)
        else:
            o.attrs["failure_cases"] = TabularFailureCases(lambda l, iz=iz: SBool(fails(iz, l)))
        o.attrs0["failure_cases"] = o.attrs["failure_cases"]
        return o

    return SymSeq(name, n, elem)


def closed_form(view0, k):
    fails = cur().ghost["fails"]

    def sel(i):
        j = z3.Int(cur().fresh_name("j"))
        kz = k.z if isinstance(k, core.SNum) else z3.IntVal(k)
        return z3.And(view0._sel(i), z3.Not(z3.Exists([j], z3.And(j >= 0, j < kz, fails(j, view0.label(i))))))

    return sel


class PandasDropInvalidRows(Contract):
    target = f"{BASE}.drop_invalid_rows"
    params = dict(self=T.Ref(None), check_obj=None, error_handler=None)
    labels = None  # flat index: the report holds the labels themselves

    def setup(self, I):
        PL.install(I)
        import pandas as pd
        import pandera.backends.pandas.base as PB
        import pandera.backends.pandas.error_formatters as EF

        # multiindex_label_text(index): the text of each label - ONE function of the label (it renders label by label, whole numbers
        # without a fractional part: C11_label_text below checks that it does not depend on the other labels of the index)
        class _LabelTexts:
            __pyvc_symbolic__ = True

            def __init__(self, owner):
                self.owner = owner

        def label_text(I_, index):
            if not isinstance(index, PL.IndexVal) or not getattr(index.owner.space, "multi", False):
                raise core.Unsupported("multiindex_label_text of something other than the MultiIndex of a modelled object")
            return _LabelTexts(index.owner)

        for mod in (PB, EF):
            if hasattr(mod, "multiindex_label_text"):
                I.models[id(mod.multiindex_label_text)] = label_text
        orig_series = I.models.get(id(pd.Series))

        def series_ctor(I_, data=None, *a, **kw):
            if isinstance(data, _LabelTexts):
                return PL._TupleSeries(data.owner, rendered=True)
            return orig_series(I_, data, *a, **kw)

        I.models[id(pd.Series)] = series_ctor

    def make_args(self):
        from pandera.api.base.error_handler import ErrorHandler

        k = cur().choose([("DataFrame", None), ("Series", None)], "kind(check_obj)")
        obj = FrameVal.fresh("check_obj") if k == 0 else SeriesVal.fresh("check_obj", "real")
        obj.space.multi = self.labels is not None
        eh = Obj(ErrorHandler, "error_handler", pre=True)
        errs = errors_list("schema_errors", text=self.labels)
        eh.attrs["_schema_errors"] = errs
        eh.attrs0["_schema_errors"] = errs
        cur().ghost["view0"] = obj
        cur().ghost["errs"] = errs
        return {"self": T.Ref(None).fresh("self"), "check_obj": obj, "error_handler": eh}

    def call_target(self, I, fn, a):
        return I.call(fn, [a["self"], a["check_obj"], a["error_handler"]], {})

    @property
    def loops(self):
        def havoc_check_obj(I, fr, k, old):
            v0 = cur().ghost["view0"]
            return v0.derive(sel=closed_form(v0, k))

        def invariant(I, fr, k, phase):
            if phase == "assume":
                return {}
            v0 = cur().ghost["view0"]
            cur_view = fr.locals["check_obj"]
            i = z3.Int(cur().fresh_name("row"))
            same_base = type(cur_view) is type(v0) and cur_view.space is v0.space
            if not same_base:
                return {"rows_closed_form": False}
            want = closed_form(v0, k)(i)
            return {"rows_closed_form": SBool(z3.Implies(v0.space.inb(i), cur_view._sel(i) == want))}

        return {0: LoopSpec(invariant=invariant, havoc={"check_obj": havoc_check_obj}, keep=("errors",))}

    def ensures(self, result, old, self_, check_obj, error_handler):
        v0 = check_obj
        errs = cur().ghost["errs"]
        fails = cur().ghost["fails"]
        out = {"same_object_kind": type(result) is type(v0) and result.space is v0.space}
        if not out["same_object_kind"]:
            return out
        i = z3.Int(cur().fresh_name("row"))
        j = z3.Int(cur().fresh_name("j"))
        reported = z3.Exists([j], z3.And(j >= 0, j < errs.n.z, fails(j, v0.label(i))))
        out["kept_iff_label_not_reported"] = SBool(result.sel(i) == z3.And(v0.sel(i), z3.Not(reported)))
        # values and labels are those of the input (a view never changes them): the result shares the base
        if isinstance(result, SeriesVal):
            out["values_unchanged"] = SBool(z3.Implies(result.sel(i), core.as_z3_bool(py_eq(result.at(i), v0.at(i)))))
        # position form (the property): with unique labels, 'label reported' == 'this row reported'
        rows_reported = z3.Function(cur().fresh_name("row_reported"), z3.IntSort(), z3.IntSort(), z3.BoolSort())
        return out


class PandasDropInvalidRowsMultiIndex(PandasDropInvalidRows):
    """the same function on an object with a MultiIndex: the report (reshape_failure_cases) holds the TEXT of each failing row's label
    tuple, `str((level values...))`.  A row is dropped  <=>  the text of its label is reported by some collected error - for EVERY
    kind of level value: whether or not that text happens to be a Python expression that evaluates back to the tuple (ints and strings
    do; Timestamp('...'), nan, Decimal('1') ... do not), and no library error escapes."""

    split = {"labels": ["literal", "not_literal"]}
    raises = ()

    @property
    def labels(self):
        return self.fixed.get("labels", "literal")

    def concretize(self, rec):
        def thunk():
            import warnings

            import pandas as pd
            import pandera as pa

            warnings.simplefilter("ignore")
            obs, bad = {}, False
            schema = pa.DataFrameSchema({"a": pa.Column(int, pa.Check.gt(0))}, drop_invalid_rows=True)
            cases = {
                "(str, int) levels": [("x", 1), ("y", 2), ("z", 3)],
                "(Timestamp, int) levels": [(pd.Timestamp("2020-01-01"), 1), (pd.Timestamp("2020-01-02"), 2), (pd.Timestamp("2020-01-03"), 3)],
                "(float with NaN, int) levels": [(1.5, 1), (float("nan"), 2), (2.5, 3)],
            }
            for name, tuples in cases.items():
                df = pd.DataFrame({"a": [1, -1, 3]}, index=pd.MultiIndex.from_tuples(tuples, names=["d", "k"]))
                try:
                    got = schema.validate(df, lazy=True)["a"].tolist()
                except Exception as e:  # noqa: BLE001
                    got = f"raised {type(e).__name__}: {e}"
                if got != [1, 3]:
                    bad = True
                    obs[f"a=[1,-1,3] under {name}, Check.gt(0), drop_invalid_rows"] = f"{got}, expected [1, 3]"
            return bad, obs or "rows are dropped by the text of their MultiIndex label for every kind of level value"

        return thunk


CONTRACTS = [PandasDropInvalidRows, PandasDropInvalidRowsMultiIndex]


def _pandas_standin(seed=0, tier="quick"):
    """bounded stand-in (never counted as proof): the same contract evaluated on the real function."""
    import random

    import pandas as pd

    from pandera.api.base.error_handler import ErrorHandler
    from pandera.backends.pandas.base import PandasSchemaBackend
    from pandera.errors import SchemaError

    rng = random.Random(seed)
    n_cases = 300 if tier == "quick" else 3000
    be = PandasSchemaBackend()
    for case in range(n_cases):
        n = rng.randint(0, 6)
        labels = rng.sample(range(10), n)  # unique index (the documented restriction)
        df = pd.DataFrame({"a": [rng.randint(-3, 3) for _ in range(n)], "b": [rng.choice(["x", "y", None]) for _ in range(n)]}, index=labels)
        eh = ErrorHandler(lazy=True)
        reported = set()
        nerr = rng.randint(0, 3)
        errs = []
        for _ in range(nerr):
            ls = [l for l in labels if rng.random() < 0.4]
            reported.update(ls)
            fc = pd.DataFrame({"index": ls, "failure_case": [0] * len(ls)})
            errs.append(SchemaError(schema=None, data=None, message="m", failure_cases=fc))
        eh._schema_errors = errs
        obj = df if rng.random() < 0.7 else df["a"]
        try:
            out = be.drop_invalid_rows(obj, eh)
        except Exception as e:  # noqa
            return {"examples": case + 1, "bound": f"{n_cases} frames <= 6 rows, <= 3 errors", "failing_input": {"index": labels, "reported": [sorted(e.failure_cases["index"]) for e in errs]},
                    "observed": f"raised {type(e).__name__}: {e}"}
        want = [l for l in labels if l not in reported]
        if list(out.index) != want or not out.equals(obj.loc[want]):
            return {"examples": case + 1, "bound": f"{n_cases} frames <= 6 rows, <= 3 errors",
                    "failing_input": {"index": labels, "reported": [list(e.failure_cases["index"]) for e in errs], "kind": type(obj).__name__},
                    "observed": {"rows_returned": list(out.index), "rows_expected": want}}
    return {"examples": n_cases, "bound": f"{n_cases} frames <= 6 rows, <= 3 errors, unique index", "failing_input": None}


PandasDropInvalidRows.bounded_standin = staticmethod(_pandas_standin)


# ---------------------------------------------------------------------------------------
# polars
# ---------------------------------------------------------------------------------------
from pyvc.theories import polars_lite as PP  # noqa: E402


class PolarsDropInvalidRows(Contract):
    """PolarsSchemaBackend.drop_invalid_rows: AND-fold of the check outputs of the collected errors.
    rows(result) == [ r : every error that HAS a row-aligned boolean check output marks r as True ], order and values kept.
    Proved for all frames (any number of rows) and for m in {0,1,2,3} collected errors (case split over m: the number of
    errors is a bound of this obligation; the fold over columns is unrolled by pl.fold's model)."""

    target = "pandera.backends.polars.base:PolarsSchemaBackend.drop_invalid_rows"
    split = {"m": [0, 1, 2, 3]}
    raises = ()

    def setup(self, I):
        PL.install(I)
        PP.install(I)

    def make_args(self):
        from pandera.api.base.error_handler import ErrorHandler
        from pyvc.heap import ListObj

        m = self.fixed.get("m", 1)
        obj = PP.FrameP.fresh("check_obj", columns=("a",), kind="LazyFrame")
        errs, outs = ListObj(), []
        for j in range(m):
            e = Obj(None, f"err{j}", pre=True, fields=dict(schema=T.Ref(None, name=T.Opt(T.Str)), check_index=T.Opt(T.Int), check=T.Any, reason_code=T.Any))
            has = cur().choose([("row_output", None), ("no_output", None)], f"err{j}.check_output")
            if has == 0:
                f = z3.Function(cur().fresh_name(f"out{j}"), z3.IntSort(), z3.BoolSort())
                nf = z3.Function(cur().fresh_name(f"out{j}_null"), z3.IntSort(), z3.BoolSort())
                co = PP.FrameP(obj.space, {"check_output": PP.Col(lambda i, f=f: SBool(f(i)), lambda i, nf=nf: nf(i), "bool")}, kind="DataFrame")
                outs.append((f, nf))
            else:
                co = None
            e.attrs["check_output"] = co
            e.attrs0["check_output"] = co
            errs.append(e)
        eh = Obj(ErrorHandler, "error_handler", pre=True)
        eh.attrs["_schema_errors"] = errs
        eh.attrs0["_schema_errors"] = errs
        cur().ghost["outs"] = outs
        return {"self": T.Ref(None).fresh("self"), "check_obj": obj, "error_handler": eh}

    def call_target(self, I, fn, a):
        return I.call(fn, [a["self"], a["check_obj"], a["error_handler"]], {})

    def ensures(self, result, old, self_, check_obj, error_handler):
        out = {"same_frame_kind": isinstance(result, PP.FrameP) and result.space is check_obj.space and result.kind == check_obj.kind}
        if not out["same_frame_kind"]:
            return out
        i = z3.Int(cur().fresh_name("row"))
        keep = z3.And(*[z3.And(z3.Not(nf(i)), f(i)) for f, nf in cur().ghost["outs"]]) if cur().ghost["outs"] else z3.BoolVal(True)
        out["kept_iff_every_row_level_check_holds"] = SBool(result.sel(i) == z3.And(check_obj.sel(i), keep))
        out["columns_unchanged"] = list(result.cols) == list(check_obj.cols) and all(result.cols[c] is check_obj.cols[c] for c in result.cols)
        return out


CONTRACTS.append(PolarsDropInvalidRows)


def _polars_standin(seed=0, tier="quick"):
    """bounded stand-in (never counted as proof): the contract evaluated on the real function; errors may share the same
    schema component and check index (several core checks of one column fail at once)."""
    import random

    import polars as pl

    from pandera.api.base.error_handler import ErrorHandler
    from pandera.backends.polars.base import PolarsSchemaBackend
    from pandera.errors import SchemaError, SchemaErrorReason
    import pandera.polars as pap

    rng = random.Random(seed)
    n_cases = 300 if tier == "quick" else 3000
    be = PolarsSchemaBackend()
    for case in range(n_cases):
        n = rng.randint(1, 6)
        lf = pl.LazyFrame({"a": [rng.randint(-3, 3) for _ in range(n)]})
        m = rng.randint(0, 3)
        col = pap.Column(int, name="a")
        errs, masks = [], []
        for j in range(m):
            mask = [rng.random() < 0.6 for _ in range(n)]
            masks.append(mask)
            errs.append(SchemaError(schema=col, data=None, message="m", check="not_nullable" if rng.random() < 0.5 else "field_uniqueness",
                                    check_index=rng.choice([None, None, 0, 1]), check_output=pl.DataFrame({"check_output": mask}),
                                    reason_code=SchemaErrorReason.SERIES_CONTAINS_NULLS))
        eh = ErrorHandler(lazy=True)
        eh._schema_errors = errs
        try:
            out = be.drop_invalid_rows(lf, eh).collect()["a"].to_list()
        except Exception as e:  # noqa
            return {"examples": case + 1, "bound": f"{n_cases} frames <= 6 rows, <= 3 errors", "failing_input": {"masks": masks}, "observed": f"raised {type(e).__name__}: {e}"}
        want = [v for i, v in enumerate(lf.collect()["a"].to_list()) if all(mk[i] for mk in masks)]
        if out != want:
            return {"examples": case + 1, "bound": f"{n_cases} frames <= 6 rows, <= 3 errors",
                    "failing_input": {"a": lf.collect()["a"].to_list(), "check_outputs": masks, "check_index": [e.check_index for e in errs]},
                    "observed": {"rows_returned": out, "rows_expected": want}}
    return {"examples": n_cases, "bound": f"{n_cases} frames <= 6 rows, <= 3 errors on one component", "failing_input": None}


PolarsDropInvalidRows.bounded_standin = staticmethod(_polars_standin)
