"""C03: contracts shared with C04 (field-level parse pipeline)."""
from contracts.C04_field_validate import ArrayValidate, IndexValidate
from contracts.C11_drop_invalid_rows import PandasDropInvalidRows, PolarsDropInvalidRows
from contracts.C03_polars_container_validate import PolarsContainerValidate
from contracts.C04_polars_column_validate import PolarsColumnValidate

CONTRACTS = [ArrayValidate, IndexValidate, PandasDropInvalidRows, PolarsDropInvalidRows, PolarsColumnValidate]  # PolarsContainerValidate: own file (C03_polars_container_validate.py)
