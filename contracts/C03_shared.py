"""C03: contracts shared with C04 (field-level parse pipeline)."""
from contracts.C04_field_validate import ArrayValidate, IndexValidate
from contracts.C11_drop_invalid_rows import PandasDropInvalidRows, PolarsDropInvalidRows

CONTRACTS = [ArrayValidate, IndexValidate, PandasDropInvalidRows, PolarsDropInvalidRows]
