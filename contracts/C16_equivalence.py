"""C16 - annotation parsing and end-to-end equivalence (BOUNDED, never counted as proof).

`DataFrameModel._collect_fields` leaves PyVC's subset at once: it is `typing.get_type_hints` + `AnnotationInfo`
(typing_inspect) over a live class object - library facts about python's typing module, not pandera logic.  The contract
below therefore carries a *bounded stand-in*: the same postcondition, plus the property's end-to-end statement
(verdict(M.validate, D) == verdict(build_schema(s).validate, D), M.to_schema() ~ build_schema(s), stability, parents
unchanged), evaluated at run time on the real code over generated class hierarchies.

Bound (quick): 24 hierarchies (thorough: 600) x {pandas, polars}, depth <= 3, <= 4 fields, field overrides, Optional fields, aliases, Field
check keywords, nullable/unique/coerce, @check methods with overrides and regex targets, @dataframe_check, Config
inheritance (strict / coerce / ordered / name / unique_column_names), both compile orders, 4 frames per class, lazy and eager.
Excluded on purpose (recorded as known findings, see known_findings_C16.json): @parser overrides, `name=` keywords of
@check/@parser.  build_schema(s) below is written from the specification `s` alone (object API), never from model code.
"""
import random
import typing
import warnings

from pyvc import core, types as T
from pyvc.core import cur
from pyvc.spec import Contract
from pyvc.theories import classmodel as CM

DM = "pandera.api.dataframe.model:DataFrameModel"


class CollectFields(Contract):
    """_collect_fields/post: one entry per public annotated attribute of the MRO, keyed by its public name (alias or
    attribute name), holding the most-derived FieldInfo; root-first order (subclass overrides keep their position)."""

    target = f"{DM}._collect_fields"

    def setup(self, I):
        from pandera.api.dataframe import model as MODEL

        CM.install(I, model_base=MODEL.DataFrameModel)

    def make_args(self):
        from pandera.api.dataframe import model as MODEL

        hier = CM.Hier("mro", min_len=3)
        return {"cls": CM.ClassObj(hier, MODEL.DataFrameModel, "cls")}

    def call_target(self, I, fn, a):
        return I.call(fn, [a["cls"]], {})

    def ensures(self, result, old, cls):
        return {"one_entry_per_public_annotated_attribute": False}  # only reached if the function ever becomes interpretable


# ---------------------------------------------------------------------------------------------------------
# generator of specifications
# ---------------------------------------------------------------------------------------------------------

ATTRS = ["a", "b", "c", "d"]
OPTS_INT = ["ge", "le", "isin", "in_range", "gt", "ne"]


def gen_field(rng, attr):
    kind = rng.choice(["int", "int", "str"])
    f = {"attr": attr, "kind": kind, "optional": rng.random() < 0.2, "alias": (attr + "_pub") if rng.random() < 0.2 else None,
         "nullable": rng.random() < 0.25, "unique": rng.random() < 0.2, "coerce": rng.random() < 0.25, "checks": {}}
    if kind == "int":
        for o in rng.sample(OPTS_INT, rng.randint(0, 2)):
            f["checks"][o] = {"ge": rng.randint(-2, 2), "gt": rng.randint(-3, 1), "le": rng.randint(3, 8), "ne": 4, "isin": [0, 1, 2, 3, 5, 7],
                              "in_range": {"min_value": -1, "max_value": rng.randint(4, 9)}}[o]
    else:
        for o in rng.sample(["isin", "str_length", "str_startswith"], rng.randint(0, 1)):
            f["checks"][o] = {"isin": ["x", "y", "zz"], "str_length": {"min_value": 1, "max_value": 2}, "str_startswith": "x"}[o]
    if rng.random() < 0.3:
        f["raise_warning"] = False
        f["ignore_na"] = rng.random() < 0.5
    return f


def public(f):
    return f["alias"] or f["attr"]


def gen_spec(rng):
    depth = rng.randint(1, 3)
    classes = []
    seen = {}
    for lvl in range(depth):
        c = {"fields": [], "checks": [], "df_checks": [], "config": None}
        pool = ATTRS[:]
        rng.shuffle(pool)
        nnew = rng.randint(1 if lvl == 0 else 0, 2)
        for attr in pool:
            if len(seen) >= 4 and attr not in seen:
                continue
            if attr in seen:
                if rng.random() < 0.25:  # override an inherited field
                    f = gen_field(rng, attr)
                    c["fields"].append(f)
                    seen[attr] = f
            elif nnew > 0:
                nnew -= 1
                f = gen_field(rng, attr)
                c["fields"].append(f)
                seen[attr] = f
        ints = [f for f in seen.values() if f["kind"] == "int"]
        if ints and rng.random() < 0.6:
            tgt = rng.choice(ints)
            name = rng.choice(["chk0", "chk1"])  # small pool => overrides across levels
            c["checks"].append({"method": name, "target": public(tgt), "regex": False, "lt": rng.randint(3, 9)})
        if ints and rng.random() < 0.2:
            c["checks"].append({"method": "chk_rx", "target": "^[ab]", "regex": True, "lt": rng.randint(4, 9)})
        if ints and rng.random() < 0.3:
            c["df_checks"].append({"method": rng.choice(["dfc0", "dfc1"]), "col": public(rng.choice(ints)), "lt": rng.randint(4, 9)})
        if rng.random() < 0.5:
            cfg = {}
            for k, vals in (("strict", [False, True, "filter"]), ("coerce", [False, True]), ("ordered", [False, True]),
                            ("name", ["N%d" % lvl]), ("unique_column_names", [False, True])):
                if rng.random() < 0.4:
                    cfg[k] = rng.choice(vals)
            c["config"] = cfg
        classes.append(c)
    return {"classes": classes}


def effective(spec, upto):
    """what the class at level `upto` means, by python's inheritance rules (root first, most derived wins)"""
    fields, checks, dfc, cfg = {}, {}, {}, {}
    for c in spec["classes"][: upto + 1]:
        for f in c["fields"]:
            fields[f["attr"]] = f
        for k in c["checks"]:
            checks[k["method"]] = k
        for k in c["df_checks"]:
            dfc[k["method"]] = k
        cfg.pop("name", None)  # the schema name is per class: its own Config.name, else the class name (documented default)
        if c["config"]:
            cfg.update(c["config"])
    # a regex / plain check whose target is not a field of THIS class is a declaration error in both APIs: drop such specs upstream
    return list(fields.values()), list(checks.values()), list(dfc.values()), cfg


# ---------------------------------------------------------------------------------------------------------
# the two translations
# ---------------------------------------------------------------------------------------------------------


class Api:
    def __init__(self, kind):
        self.kind = kind
        if kind == "pandas":
            import pandas as pd
            import pandera as pa

            self.pa, self.pd = pa, pd
        else:
            import polars as pl
            import pandera.polars as pa

            self.pa, self.pl = pa, pl

    def col_lt(self, thr):
        if self.kind == "pandas":
            return lambda s: s < thr
        pl = self.pl
        return lambda d: d.lazyframe.select(pl.col(d.key) < thr)

    def df_lt(self, col, thr):
        if self.kind == "pandas":
            return lambda df: df[col] < thr if col in df else True
        pl = self.pl
        return lambda d: d.lazyframe.select(pl.col(col) < thr)

    def frame(self, data):
        return self.pd.DataFrame(data) if self.kind == "pandas" else self.pl.DataFrame(data, strict=False)


PY = {"int": int, "str": str}
CTOR = {"ge": "greater_than_or_equal_to", "gt": "greater_than", "le": "less_than_or_equal_to", "ne": "not_equal_to", "isin": "isin",
        "in_range": "in_range", "str_length": "str_length", "str_startswith": "str_startswith"}
DISPATCH_ORDER = ["eq", "ne", "gt", "ge", "lt", "le", "in_range", "isin", "notin", "str_contains", "str_endswith", "str_matches", "str_length", "str_startswith"]


def build_models(api, spec):
    """class-based API: one class per level, each a subclass of the previous"""
    pa = api.pa
    out = []
    base = pa.DataFrameModel
    for lvl, c in enumerate(spec["classes"]):
        ns = {"__annotations__": {}, "__module__": __name__}
        for f in c["fields"]:
            ann = PY[f["kind"]]
            ns["__annotations__"][f["attr"]] = typing.Optional[ann] if f["optional"] else ann
            kw = dict(f["checks"])
            for k in ("nullable", "unique", "coerce"):
                kw[k] = f[k]
            if f["alias"]:
                kw["alias"] = f["alias"]
            for k in ("raise_warning", "ignore_na"):
                if k in f:
                    kw[k] = f[k]
            ns[f["attr"]] = pa.Field(**kw)
        for k in c["checks"]:
            fn = api.col_lt(k["lt"])
            ns[k["method"]] = pa.check(k["target"], regex=k["regex"])((lambda fn: (lambda cls, x: fn(x)))(fn))
        for k in c["df_checks"]:
            fn = api.df_lt(k["col"], k["lt"])
            ns[k["method"]] = pa.dataframe_check((lambda fn: (lambda cls, x: fn(x)))(fn))
        if c["config"] is not None:
            ns["Config"] = type("Config", (), dict(c["config"]))
        cls = type(f"M{lvl}", (base,), ns)
        out.append(cls)
        base = cls
    return out


def build_schema(api, spec, lvl):
    """object API, from the specification alone"""
    import re

    pa = api.pa
    fields, checks, dfc, cfg = effective(spec, lvl)
    names = [public(f) for f in fields]
    cols = {}
    for f in fields:
        common = {k: f[k] for k in ("raise_warning", "ignore_na") if k in f}
        cks = [getattr(pa.Check, CTOR[o])(**v, **common) if isinstance(v, dict) else getattr(pa.Check, CTOR[o])(v, **common)
               for o, v in sorted(f["checks"].items(), key=lambda kv: DISPATCH_ORDER.index(kv[0]))]
        for k in checks:
            hit = (re.match(k["target"], public(f)) is not None) if k["regex"] else (k["target"] == public(f))
            if hit:
                cks.append(pa.Check(api.col_lt(k["lt"])))
        cols[public(f)] = pa.Column(PY[f["kind"]], checks=cks, nullable=f["nullable"], unique=f["unique"], coerce=f["coerce"],
                                    required=not f["optional"], name=public(f))
    kw = dict(cfg)
    kw.setdefault("name", f"M{lvl}")  # documented: the schema name defaults to the class name
    return pa.DataFrameSchema(cols, checks=[pa.Check(api.df_lt(k["col"], k["lt"])) for k in dfc], **kw)


def well_formed(spec):
    """both APIs reject a check aimed at a missing column at declaration time; such specs are not programs of interest"""
    import re

    for lvl in range(len(spec["classes"])):
        fields, checks, dfc, cfg = effective(spec, lvl)
        names = [public(f) for f in fields]
        if len(set(names)) != len(names):
            return False
        for k in checks:
            if not k["regex"] and k["target"] not in names:
                return False
        for k in dfc:
            if k["col"] not in names:
                return False
    return True


def summary(schema):
    """schema content up to check-function identity"""
    cols = []
    for name, c in schema.columns.items():
        cols.append((name, str(c.dtype), c.nullable, c.unique, c.coerce, c.required, c.regex,
                     sorted((k.name or "", repr(sorted((k.statistics or {}).items(), key=str)), k.ignore_na, k.raise_warning) for k in c.checks if k.statistics),
                     len(c.checks)))
    return {"columns": cols, "n_df_checks": len(schema.checks), "strict": schema.strict, "coerce": schema.coerce, "ordered": schema.ordered,
            "name": schema.name, "unique_column_names": schema.unique_column_names}


def gen_frames(rng, spec, lvl):
    fields, _, _, _ = effective(spec, lvl)
    frames = []
    for _ in range(4):
        n = rng.randint(1, 4)
        data = {}
        fl = fields[:]
        if rng.random() < 0.2:
            rng.shuffle(fl)
        for f in fl:
            if rng.random() < (0.5 if f["optional"] else 0.08):
                continue
            if f["kind"] == "int":
                pool = [0, 1, 2, 3, 5, 7, 4, -1, 9] + ([None] if rng.random() < 0.2 else []) + (["3"] if rng.random() < 0.1 else [])
            else:
                pool = ["x", "y", "zz", "xq", "", "yyy"] + ([None] if rng.random() < 0.2 else [])
            data[public(f)] = [rng.choice(pool) for _ in range(n)]
        if rng.random() < 0.2:
            data["extra"] = [1] * n
        if data:
            frames.append(data)
    return frames


def verdict(api, validate, data, lazy):
    from pandera.errors import SchemaError, SchemaErrors

    try:
        out = validate(api.frame(data), lazy=lazy)
    except (SchemaError, SchemaErrors):
        return ("rejected", None)
    except Exception as e:  # noqa: BLE001 - any other exception is a verdict of its own
        return ("error:" + type(e).__name__, None)
    if api.kind == "pandas":
        return ("accepted", (list(out.columns), out.astype(object).where(out.notna(), None).values.tolist()))
    return ("accepted", (out.columns, out.rows()))


def standin(seed=0, tier="quick"):
    warnings.simplefilter("ignore")
    rng = random.Random(1000 + seed)
    n_h = 24 if tier == "quick" else 600
    bound = f"{n_h} hierarchies x (pandas, polars): depth<=3, <=4 fields, overrides, aliases, Optional, Field checks, @check(+regex, overrides), @dataframe_check, Config inheritance; 4 frames per class, eager+lazy, both compile orders"
    examples = 0
    done = 0
    while done < n_h:
        spec = gen_spec(rng)
        if not well_formed(spec):
            continue
        done += 1
        for kind in ("pandas", "polars"):
            api = Api(kind)
            for order in ("root_first", "leaf_first"):
                models = build_models(api, spec)
                levels = list(range(len(models)))
                if order == "leaf_first":
                    levels.reverse()
                snap = {}
                for lvl in levels:
                    M = models[lvl]
                    examples += 1
                    fail = lambda what, obs: {"examples": examples, "bound": bound, "failing_input": {"api": kind, "compile_order": order, "level": lvl, "spec": spec, "what": what}, "observed": obs}
                    try:
                        s1 = M.to_schema()
                    except Exception as e:  # noqa: BLE001
                        try:
                            build_schema(api, spec, lvl)
                        except Exception:  # both APIs reject the declaration
                            continue
                        return fail("model does not compile, the equivalent schema does", f"{type(e).__name__}: {e}")
                    want = build_schema(api, spec, lvl)
                    # _collect_fields/post
                    eff, _, _, _ = effective(spec, lvl)
                    got_fields = M._collect_fields()
                    if list(got_fields) != [public(f) for f in eff]:
                        return fail("_collect_fields keys", {"got": list(got_fields), "want": [public(f) for f in eff]})
                    own = {}
                    for c in models[: lvl + 1]:
                        own.update({k: v for k, v in c.__dict__.items() if k in ATTRS})
                    if any(got_fields[public(f)][1] is not own[f["attr"]] for f in eff):
                        return fail("_collect_fields does not hold the most-derived FieldInfo", None)
                    if M.to_schema() is not s1:
                        return fail("to_schema not stable", None)
                    if summary(s1) != summary(want):
                        return fail("to_schema() differs from build_schema(s)", {"model": summary(s1), "schema": summary(want)})
                    snap[lvl] = summary(s1)
                    for data in gen_frames(rng, spec, lvl):
                        for lazy in (False, True):
                            a, b = verdict(api, M.validate, data, lazy), verdict(api, want.validate, data, lazy)
                            if a != b:
                                return fail("verdicts differ", {"frame": data, "lazy": lazy, "model": a, "schema": b})
                # a subclass never alters its parents' schemas (checked after every class of the hierarchy was compiled)
                for lvl, sm in snap.items():
                    if summary(models[lvl].to_schema()) != sm or summary(models[lvl].to_schema()) != summary(build_schema(api, spec, lvl)):
                        return {"examples": examples, "bound": bound, "failing_input": {"api": kind, "compile_order": order, "level": lvl, "spec": spec, "what": "schema of a class changed after its relatives were compiled"}, "observed": None}
    return {"examples": examples, "bound": bound, "failing_input": None}


CollectFields.bounded_standin = staticmethod(standin)
CONTRACTS = [CollectFields]
