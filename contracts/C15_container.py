"""C15 (container level): the eight schema transformations of DataFrameSchema.

For each method the live body is executed symbolically on a schema whose EVERY attribute value is symbolic
(all column attributes, check/parser lists of unknown length, schema-level options, optional Index / MultiIndex),
over an enumerated family of dictionary *shapes* (columns a, b, c in this order; the request lists below).  The
proof is therefore for-all over attribute values and exhaustive over the listed shapes (shape bound stated in
notes/C15.md); the code under verification inspects column names only through dict operations.

Postconditions (from the method docstrings + the property statement; never from the code's output):
  post.returns_a_new_schema, post.columns.keys_and_order, post.columns.class,
  post.touched.<param>    the columns named by the request change as documented, keep everything not named
  post.untouched.<param>  every other column is attribute-wise equal to the receiver's
  post.schema.<param>     every schema-level constructor parameter the operation does not name is kept
  post.index...           index kept / built as documented (set_index, reset_index)
  post.name_is_key        class invariant of DataFrameSchema: column.name == its key
  post.shares_no_mutable_state_with_receiver
  frame.preexisting_objects_unchanged (receiver, its columns dict, its columns, the request objects)
  exit.only_documented_exceptions, exit.only_for_an_invalid_request ; post.request_was_valid
"""
import z3

from pandera.api.checks import Check
from pandera.dtypes import DataType
from pandera.errors import SchemaInitError
from pyvc import core, types as T
from pyvc.core import And, Implies, Not, Or, SAny, SBool, cur, py_eq
from pyvc.heap import MISSING, DictObj, ListObj, Obj
from pyvc.interp import OtherException
from pyvc.spec import Contract, Lemma, resolve_target
from pyvc.theories import schema_objs as SO
from pyvc.theories.schema_objs import ImmSeq, attr, attr0, ctor_params, value_equal
from contracts.C15_components import ArrayValidateAttributes, expected_attr, kwarg_type

DFS = "pandera.api.dataframe.container:DataFrameSchema"
LABELS = ["a", "b", "c"]


def classes(backend):
    if backend == "polars":
        from pandera.api.polars.components import Column
        from pandera.api.polars.container import DataFrameSchema

        return DataFrameSchema, Column
    from pandera.api.pandas.components import Column
    from pandera.api.pandas.container import DataFrameSchema

    return DataFrameSchema, Column


def stored(p):
    return SO.STORED_AS.get(p, p)


class ValidateColumns(Contract):
    """_validate_columns (called by DataFrameSchema.__init__): raises SchemaInitError only, writes nothing.
    (bounded stand-in: the inner filter comprehension over a symbolic groupby list is outside the subset)"""

    target = "pandera.api.dataframe.container:_validate_columns"
    raises = (SchemaInitError,)

    def setup(self, I):
        SO.install_engine_dtype(I)

    def make_args(self):
        _, Column = classes("pandas")
        d = DictObj()
        d.pre = True
        for lab in LABELS[:2]:
            d[lab] = SO.make_component(Column, f"column_dict[{lab!r}]", lab)
            cs = d[lab].attrs["checks"]
            base = cs.elem_fn

            def elem(i, base=base):
                o = base(i)
                if o.attrs["groupby"] is not None:
                    k = cur().choose([("callable", None), ("names", None)], "kind(groupby)")
                    g = T.Callback().fresh("groupby_fn") if k == 0 else ListObj([T.fresh_value(T.OneOf("a", "zz"), "groupby[0]")])
                    o.attrs["groupby"] = g
                    o.attrs0["groupby"] = g
                return o

            cs.elem_fn = elem
        return {"column_dict": d}

    def call_target(self, I, fn, a):
        return I.call(fn, [a["column_dict"]], {})

    @property
    def loops(self):
        from pyvc.spec import LoopSpec

        return {1: LoopSpec(keep=("column_dict", "column_name", "column"))}

    def ensures(self, result, old, column_dict):
        return {"returns_none": result is None}

    def on_raise(self, exc, old, column_dict):
        from contracts.C15_components import some_groupby

        cols = [c for c in column_dict.values() if isinstance(c, Obj)]
        return {"only_if_some_column_has_a_groupby_check": Or(False, *[some_groupby(attr(c, "checks")) for c in cols])}


def _validate_columns_standin(seed=0, tier="quick"):
    import random

    import pandera as pa
    from pandera.api.dataframe.container import _validate_columns

    rng = random.Random(seed)
    n = 300 if tier == "quick" else 3000
    for case in range(n):
        names = rng.sample(["a", "b", "c", "d"], rng.randint(0, 3))
        d, bad = {}, False
        for nm in names:
            checks = []
            for _ in range(rng.randint(0, 2)):
                g = rng.choice([None, lambda df: df, [rng.choice(["a", "b", "zz"])]])
                checks.append(pa.Check(lambda s: True, groupby=g))
                if isinstance(g, list) and any(x not in names for x in g):
                    bad = True
            d[nm] = pa.Column(int, checks)
        before = {k: dict(v.__dict__) for k, v in d.items()}
        try:
            r = _validate_columns(d)
            ok = (r is None) and not bad
        except SchemaInitError:
            ok = bad
        except Exception as e:  # noqa
            return {"examples": case + 1, "bound": f"{n} dicts <= 3 columns <= 2 checks", "failing_input": {"names": names}, "observed": repr(e)}
        if not ok or before != {k: dict(v.__dict__) for k, v in d.items()}:
            return {"examples": case + 1, "bound": f"{n} dicts <= 3 columns <= 2 checks", "failing_input": {"names": names, "bad": bad}, "observed": "wrong verdict or column written"}
    return {"examples": n, "bound": f"{n} dicts <= 3 columns <= 2 checks each", "failing_input": None}


ValidateColumns.bounded_standin = staticmethod(_validate_columns_standin)


# --------------------------------------------------------------------------------------------------------
# shared machinery
# --------------------------------------------------------------------------------------------------------


def make_index(kind, name="self.index"):
    from pandera.api.pandas.components import Column, Index, MultiIndex

    if kind == "none":
        return None
    if kind == "index":
        return SO.make_component(Index, name, "i", "index")
    if kind == "unnamed_index":
        return SO.make_component(Index, name, None, "index")
    if kind == "index_named_like_a_column":
        return SO.make_component(Index, name, LABELS[0], "index")
    n = int(kind[-1]) if kind[-1].isdigit() else 2
    mi = SO.make_multiindex(MultiIndex, Index, Column, name, ["i", LABELS[0]] if kind == "multi_with_a_level_named_like_a_column" else ["i", "j", "k"][:n])
    # MultiIndex(unique=...) (joint uniqueness over levels): unset here - a MultiIndex is transformed with the DataFrameSchema methods,
    # whose handling of the constraint is stated for the container (unique_spec)
    if "_unique" in mi.attrs or "_unique" in getattr(mi, "field_types", {}):
        mi.attrs["_unique"] = None
        mi.attrs0["_unique"] = None
    return mi


class SchemaOp(Contract):
    """base class: builds the receiver, states the common postconditions"""

    backend_split = ["pandas", "polars"]
    index_kinds = ["none", "index", "multi2"]
    raises = (SchemaInitError, ValueError)
    use_contracts = ("ArrayValidateAttributes", "ValidateColumns")
    labels = LABELS
    max_paths = 20000
    op_keeps_index = True
    schema_params_touched = ("columns",)

    def setup(self, I):
        SO.install_engine_dtype(I)

    # -- receiver
    def receiver(self):
        backend = self.fixed.get("backend", "pandas")
        S, C = classes(backend)
        kinds = self.index_kinds if backend == "pandas" else ["none"]
        k = cur().choose([(x, None) for x in kinds], "kind(self.index)") if len(kinds) > 1 else 0
        core.register_model_var("kind(self.index)", lambda m, k=k: kinds[k])
        return self.with_unique(SO.make_schema(S, C, "self", self.labels, make_index(kinds[k])))

    def with_unique(self, r):
        how = self.fixed.get("unique", "any")
        if how == "any":
            # (ops without a case split on it: unset, or one constraint over two columns)
            how = ["none", "a+b"][cur().choose([("none", None), ("a+b", None)], "self.unique")]
        cur().ghost["unique_case"] = how
        if how != "any":
            # the schema-level joint uniqueness constraints: none, one over two columns (unique=["a", "b"]), or several groups
            u = {"none": None, "a+b": ListObj(["a", "b"]), "a+b|c": ListObj([ListObj(["a", "b"]), ListObj(["c"])]),
                 "a+moved": ListObj(["a", "moved_to_the_index"])}[how]
            if u is not None:
                u.pre = True
                u.name = "self.unique"
            r.attrs["_unique"] = u
            r.attrs0["_unique"] = u
        return r

    def unique_spec(self, out, result, rename=None, remaining=None):
        """what `unique=["a", "b"]` becomes (C15: S accepts D => op(S) accepts op(D)): under a rename the names follow the columns; a
        constraint that names a column the result no longer declares cannot be kept as it is (the back ends would check the remaining
        columns ALONE, which D need not satisfy)"""
        how = cur().ghost.get("unique_case", "any")
        if how in ("any", "none"):
            if how == "none":
                out["schema.unique_stays_unset"] = attr(result, "_unique") is None
            return
        u = attr(result, "_unique")
        got = None if u is None else ([list(x) if isinstance(x, (list, tuple)) else x for x in list(u)])
        # "a+moved": one of the names is not (any longer) a column of the receiver - the state set_index(drop=True) leaves, and what
        # a constraint over the frame columns a regex column matches looks like: an operation on OTHER columns leaves it alone
        groups0 = {"a+b": [["a", "b"]], "a+b|c": [["a", "b"], ["c"]], "a+moved": [["a", "moved_to_the_index"]]}[how]
        nested = how == "a+b|c"
        norm = (lambda g: [] if g is None else ([list(x) for x in g] if nested else [list(g)]))
        if rename:
            out["schema.unique_follows_the_renamed_columns"] = norm(got) == [[rename.get(n, n) for n in g] for g in groups0]
        else:
            flat = [y for g in norm(got) for y in g]
            gone = [c for c in self.labels if c not in remaining]  # the receiver's columns the result does not declare
            out["schema.unique_names_only_columns_the_result_declares"] = all(y not in gone for y in flat)
            # "properties not named by the operation are equal": a constraint is dropped only because one of ITS columns goes
            out["schema.unique_constraints_whose_columns_stay_are_kept"] = all(g in norm(got) for g in groups0 if not any(c in gone for c in g))

    # -- common postconditions
    def common(self, out, result, self_, expected, index="same", rc=None):
        """expected: list of (key, source column (entry state), {param: new value}, touched?)"""
        S = self_.cls
        out["returns_a_new_schema"] = isinstance(result, Obj) and result is not self_ and result.cls is S
        if not out["returns_a_new_schema"]:
            return out
        rc = attr(result, "columns") if rc is None else rc
        want_keys = [e[0] for e in expected]
        out["columns.keys_and_order"] = isinstance(rc, dict) and list(rc.keys()) == want_keys
        if not out["columns.keys_and_order"]:
            return out
        out["columns.class"] = all(isinstance(rc[k], Obj) and rc[k].cls is src.cls for k, src, _, _ in expected)
        if not out["columns.class"]:
            return out
        C = expected[0][1].cls if expected else None
        for p in (ctor_params(C) if C else []):
            for flag, tag in ((True, "touched"), (False, "untouched")):
                conj = []
                for key, src, over, touched in expected:
                    if touched is not flag:
                        continue
                    if p in over:
                        conj.append(expected_attr(p, over[p], attr(rc[key], stored(p))))
                    elif p == "name":
                        continue
                    else:
                        conj.append(SO.attr_equal(rc[key], src, stored(p)))
                if conj:
                    out[f"{tag}.{p}"] = And(*conj)
        out["name_is_key"] = And(*[py_eq(attr(rc[k], "name"), k) for k in want_keys]) if want_keys else True
        # schema-level attributes
        for p in ctor_params(S):
            if p in self.schema_params_touched or p == "index":
                continue
            sp = SO.SCHEMA_STORED_AS.get(p, p)
            if p == "unique" and cur().ghost.get("unique_case", "any") != "any":
                # C15: the constraints follow renamed columns; one over a column the result no longer declares is dropped
                self.unique_spec(out, result, rename=getattr(self, "_renamed", None), remaining=want_keys)
                continue
            out[f"schema.{p}"] = SO.attr_equal(result, self_, sp)
        if index == "same":
            ri, si = attr(result, "index"), attr0(self_, "index")
            out["schema.index"] = (ri is None) if si is None else (isinstance(ri, Obj) and value_equal(ri, si, at_entry=True))
        shared = SO.shared_mutable(result, self_, immutable_classes=(DataType,))
        out["shares_no_mutable_state_with_receiver"] = not shared
        return out


def kept(self_, keys=None, touched=False):
    cols = attr0(self_, "columns")
    return [(k, cols[k], {}, touched) for k in (keys if keys is not None else cols.keys())]


# --------------------------------------------------------------------------------------------------------
# remove_columns / select_columns
# --------------------------------------------------------------------------------------------------------

REMOVE_REQUESTS = [[], ["a"], ["b"], ["b", "c"], ["c", "a"], ["a", "b", "c"], ["z"], ["a", "z"], ["a", "a"]]


class RemoveColumns(SchemaOp):
    """remove_columns: 'Removes columns from a DataFrameSchema and returns a new copy ... raises SchemaInitError
    if column not in schema'.  Mirrors DataFrame.drop(columns=...): the remaining columns keep order and content."""

    target = f"{DFS}.remove_columns"
    split = {"backend": SchemaOp.backend_split, "req": list(range(len(REMOVE_REQUESTS))), "unique": ["none", "a+b", "a+b|c", "a+moved"]}

    def make_args(self):
        req = ListObj(REMOVE_REQUESTS[self.arg("req", T.Any)])
        req.pre = True
        req.name = "cols_to_remove"
        return {"self": self.receiver(), "cols_to_remove": req}

    def call_target(self, I, fn, a):
        return I.call(fn, [a["self"], a["cols_to_remove"]], {})

    def valid(self, cols_to_remove):
        return all(c in self.labels for c in cols_to_remove)

    def ensures(self, result, old, self_, cols_to_remove):
        out = {"request_was_valid": self.valid(cols_to_remove)}
        return self.common(out, result, self_, kept(self_, [k for k in self.labels if k not in cols_to_remove]))

    def on_raise(self, exc, old, self_, cols_to_remove):
        if exc.cls is not SchemaInitError:
            return {}  # reported by exit.only_documented_exceptions
        return {"only_for_an_invalid_request": not self.valid(cols_to_remove)}


SELECT_REQUESTS = [[], ["a"], ["c", "a"], ["a", "b", "c"], ["c", "b", "a"], ["z"], ["b", "z"]]


class SelectColumns(SchemaOp):
    """select_columns: 'copy of original with only the selected columns, in the order specified ... raises
    SchemaInitError if column not in the schema'; 'If an index is present in the schema, it will also be included'."""

    target = f"{DFS}.select_columns"
    split = {"backend": SchemaOp.backend_split, "req": list(range(len(SELECT_REQUESTS))), "unique": ["none", "a+b", "a+b|c", "a+moved"]}

    def make_args(self):
        req = ListObj(SELECT_REQUESTS[self.arg("req", T.Any)])
        req.pre = True
        req.name = "columns"
        return {"self": self.receiver(), "columns": req}

    def call_target(self, I, fn, a):
        return I.call(fn, [a["self"], a["columns"]], {})

    def valid(self, columns):
        return all(c in self.labels for c in columns)

    def ensures(self, result, old, self_, columns):
        out = {"request_was_valid": self.valid(columns)}
        return self.common(out, result, self_, kept(self_, list(columns)))

    def on_raise(self, exc, old, self_, columns):
        return {"only_for_an_invalid_request": not self.valid(columns), "is_schema_init_error": exc.cls is SchemaInitError}


# --------------------------------------------------------------------------------------------------------
# rename_columns
# --------------------------------------------------------------------------------------------------------

RENAME_REQUESTS = [{}, {"a": "x"}, {"b": "y"}, {"a": "x", "c": "y"}, {"c": "y", "a": "x"}, {"a": "a"}, {"a": "a", "b": "x"},
                   {"z": "x"}, {"a": "b"}, {"a": "x", "b": "x"}, {"a": "b", "b": "a"}]


class RenameColumns(SchemaOp):
    """rename_columns: 'Rename columns using a dictionary of key-value pairs ... similar to the pandas DataFrame
    method ... raises SchemaInitError if column not in the schema'.  Mirrors DataFrame.rename(columns=...):
    positions and contents are kept, only the names change.  A request that maps two columns to one name, or a
    column onto an existing other column, cannot be represented by a schema: it must raise, not lose a column."""

    target = f"{DFS}.rename_columns"
    split = {"backend": SchemaOp.backend_split, "req": list(range(len(RENAME_REQUESTS))), "unique": ["none", "a+b", "a+b|c", "a+moved"]}

    def make_args(self):
        req = DictObj(RENAME_REQUESTS[self.arg("req", T.Any)])
        req.pre = True
        req.name = "rename_dict"
        return {"self": self.receiver(), "rename_dict": req}

    def call_target(self, I, fn, a):
        return I.call(fn, [a["self"], a["rename_dict"]], {})

    def valid_parts(self, rename_dict):
        new = [rename_dict.get(k, k) for k in self.labels]
        return {"old_names_exist": all(k in self.labels for k in rename_dict), "new_names_are_distinct": len(set(new)) == len(new)}

    def valid(self, rename_dict):
        return all(self.valid_parts(rename_dict).values())

    def ensures(self, result, old, self_, rename_dict):
        out = {f"request_was_valid.{k}": v for k, v in self.valid_parts(rename_dict).items()}
        cols = attr0(self_, "columns")
        exp = [(rename_dict.get(k, k), cols[k], {}, k in rename_dict and rename_dict[k] != k) for k in self.labels]
        if len(set(e[0] for e in exp)) != len(exp):
            out["no_column_lost"] = isinstance(result, Obj) and len(attr(result, "columns")) == len(self.labels)
            return out
        self._renamed = {k: v for k, v in dict(rename_dict).items() if k != v}
        return self.common(out, result, self_, exp)

    def on_raise(self, exc, old, self_, rename_dict):
        # refusing a swap (a->b, b->a) is documented: "ensure all new keys are not present in the current column names"
        swap = all(k in self.labels for k in rename_dict) and any(v in self.labels and v != k for k, v in rename_dict.items())
        return {"only_for_an_invalid_request": (not self.valid(rename_dict)) or swap, "is_schema_init_error": exc.cls is SchemaInitError}


# --------------------------------------------------------------------------------------------------------
# add_columns
# --------------------------------------------------------------------------------------------------------

ADD_REQUESTS = [[], ["x"], ["x", "y"], ["b"], ["x", "a"]]


class AddColumns(SchemaOp):
    """add_columns: 'Create a copy of the DataFrameSchema with extra columns'.  New names are appended in the order
    given (DataFrame.assign); an existing name is replaced in place; each added column is the given column under
    the key's name (DataFrameSchema.__init__: 'keys are column names'); the given columns are not written."""

    target = f"{DFS}.add_columns"
    split = {"backend": SchemaOp.backend_split, "req": list(range(len(ADD_REQUESTS)))}

    def make_args(self):
        backend = self.fixed.get("backend", "pandas")
        _, C = classes(backend)
        d = DictObj()
        d.pre = True
        d.name = "extra_schema_cols"
        for k in ADD_REQUESTS[self.arg("req", T.Any)]:
            # the given column may carry any name (or none): the schema renames it to its key
            d[k] = SO.make_component(C, f"extra[{k!r}]", T.fresh_value(T.Opt(T.Str), f"extra[{k!r}].name"))
        return {"self": self.receiver(), "extra_schema_cols": d}

    def call_target(self, I, fn, a):
        return I.call(fn, [a["self"], a["extra_schema_cols"]], {})

    def ensures(self, result, old, self_, extra_schema_cols):
        cols = attr0(self_, "columns")
        exp = [((k, extra_schema_cols[k], {}, True) if k in extra_schema_cols else (k, cols[k], {}, False)) for k in self.labels]
        exp += [(k, v, {}, True) for k, v in extra_schema_cols.items() if k not in self.labels]
        out = self.common({}, result, self_, exp)
        if isinstance(result, Obj):
            out["shares_no_mutable_state_with_the_given_columns"] = not SO.shared_mutable(result, dict(extra_schema_cols), immutable_classes=(DataType,))
        return out

    def on_raise(self, exc, old, self_, extra_schema_cols):
        # _validate_columns: a groupby check naming a column that is not among the added ones
        return {"is_schema_init_error": exc.cls is SchemaInitError}


# --------------------------------------------------------------------------------------------------------
# update_column / update_columns
# --------------------------------------------------------------------------------------------------------


def column_kwargs(C):
    return [p for p in ctor_params(C) if p != "name"]


class UpdateColumn(SchemaOp):
    """update_column(column_name, **kwargs): 'copy of a DataFrameSchema with updated column properties ... kwargs:
    key-word arguments supplied to Column ... raises SchemaInitError if column not in schema or you try to change
    the name' (the code raises ValueError; the property accepts both).  The named column gets exactly the given
    properties and KEEPS every property not given; all other columns are untouched."""

    target = f"{DFS}.update_column"
    raises = (SchemaInitError, ValueError, TypeError)
    split = {"backend": SchemaOp.backend_split, "case": list(range(8))}
    index_kinds = ["none", "index"]

    # which keyword arguments are passed: each single parameter of the live signature, some pairs, name, a missing column
    def case(self, C):
        ps = column_kwargs(C)
        third = (len(ps) + 2) // 3
        cases = [("b", ps[:third]), ("b", ps[third:2 * third]), ("b", ps[2 * third:]), ("a", []), ("c", ["nullable", "checks"]),
                 ("b", ["name"]), ("z", ["nullable"]), ("b", ["dtype", "coerce", "drop_invalid_rows"])]
        return cases[self.fixed.get("case", 0)]

    def make_args(self):
        _, C = classes(self.fixed.get("backend", "pandas"))
        col, keys = self.case(C)
        core.register_model_var("request", lambda m, r=(col, keys): repr(r))
        kw = {}
        if len(keys) > 2:
            # one keyword at a time (which one: a decision), so that every parameter is covered by itself
            k = cur().choose([(p, None) for p in keys], "kwarg")
            keys = [keys[k]]
        for p in keys:
            kw[p] = T.fresh_value(kwarg_type(p), f"kwargs[{p}]") if p != "name" else "new_name"
        return {"self": self.receiver(), "column_name": col, "kwargs": kw}

    def call_target(self, I, fn, a):
        return I.call(fn, [a["self"], a["column_name"]], dict(a["kwargs"]))

    def valid(self, column_name, kwargs):
        return column_name in self.labels and "name" not in kwargs

    def ensures(self, result, old, self_, column_name, kwargs):
        out = {"request_was_valid": self.valid(column_name, kwargs)}
        cols = attr0(self_, "columns")
        exp = [(k, cols[k], dict(kwargs) if k == column_name else {}, k == column_name) for k in self.labels]
        return self.common(out, result, self_, exp)

    def on_raise(self, exc, old, self_, column_name, kwargs):
        out = {}
        if exc.cls is TypeError:
            out["type_error_only_from_resolving_a_given_dtype"] = isinstance(kwargs.get("dtype"), SAny)
        else:
            out["only_for_an_invalid_request"] = not self.valid(column_name, kwargs)
        return out


UPDATES = [{}, {"b": ["nullable"]}, {"a": ["checks"], "c": ["dtype", "title"]}, {"b": []}, {"z": ["nullable"]}, {"b": ["name"]},
           {"a": ["drop_invalid_rows", "metadata"]}, {"c": ["parsers", "default", "report_duplicates", "description"]},
           {"b": ["unique", "coerce", "required", "regex"]}]


class UpdateColumns(SchemaOp):
    """update_columns(update_dict): same as update_column for several columns; 'raises SchemaInitError if column not
    in schema or you try to change the name'.  Columns not named in update_dict are untouched."""

    target = f"{DFS}.update_columns"
    raises = (SchemaInitError, ValueError, TypeError)
    split = {"backend": SchemaOp.backend_split, "req": list(range(len(UPDATES)))}
    index_kinds = ["none", "index"]

    def make_args(self):
        _, C = classes(self.fixed.get("backend", "pandas"))
        req = UPDATES[self.arg("req", T.Any)]
        d = DictObj()
        d.pre = True
        d.name = "update_dict"
        for col, keys in req.items():
            inner = DictObj()
            inner.pre = True
            inner.name = f"update_dict[{col!r}]"
            for p in keys:
                if p in ctor_params(C) or p == "name":
                    if p != "name":
                        inner[p] = T.fresh_value(kwarg_type(p), f"update[{col}][{p}]")
                    else:
                        # any attempt to set the name is refused - also a falsy one (0 and "" are legitimate column labels)
                        names = ["new_name", "", 0, None]
                        inner[p] = names[cur().choose([(repr(n), None) for n in names], "requested name")]
            d[col] = inner
        return {"self": self.receiver(), "update_dict": d}

    def call_target(self, I, fn, a):
        return I.call(fn, [a["self"], a["update_dict"]], {})

    def valid(self, update_dict):
        return all(k in self.labels for k in update_dict) and not any("name" in v for v in update_dict.values())

    def ensures(self, result, old, self_, update_dict):
        out = {"request_was_valid": self.valid(update_dict)}
        cols = attr0(self_, "columns")
        exp = [(k, cols[k], dict(update_dict.get(k, {})), bool(update_dict.get(k))) for k in self.labels]
        return self.common(out, result, self_, exp)

    def on_raise(self, exc, old, self_, update_dict):
        out = {}
        if exc.cls is TypeError:
            out["type_error_only_from_resolving_a_given_dtype"] = any(isinstance(v.get("dtype"), SAny) for v in update_dict.values())
        else:
            out["only_for_an_invalid_request"] = not self.valid(update_dict)
            out["is_schema_init_error"] = exc.cls is SchemaInitError
        return out


# --------------------------------------------------------------------------------------------------------
# set_index / reset_index (pandas)
# --------------------------------------------------------------------------------------------------------


def index_params():
    from pandera.api.pandas.components import Index

    return ctor_params(Index)


def level_matches(out, tag, level, src, key, carried=None):
    """`level` (an Index or a Column built from `src`) carries every attribute both classes have; name == key"""
    ps = carried if carried is not None else [p for p in index_params()]
    for p in ps:
        if p == "name":
            conj = py_eq(attr(level, "name"), key)
        else:
            conj = SO.attr_equal(level, src, stored(p))
        out[f"{tag}.{p}"] = And(out[f"{tag}.{p}"], conj) if f"{tag}.{p}" in out else conj


SET_INDEX_REQUESTS = [(["a"], True, False), (["b"], False, False), (["a", "c"], True, False), (["a"], True, True), (["c", "a"], False, True),
                      (["z"], True, False), ([], True, False), (["b"], True, True)]


class SetIndex(SchemaOp):
    """set_index(keys, drop=True, append=False): 'setting the Index of a DataFrameSchema via an existing Column or
    list of columns ... just use set_index as you would in pandas ... raises SchemaInitError if column not in the
    schema'.  Mirrors DataFrame.set_index: the named columns become index levels (appended to the existing levels
    when append=True, replacing them otherwise), keep ALL their validation properties an Index can carry, and leave
    the columns when drop=True; a column whose checks use groupby cannot become an Index (SchemaInitError)."""

    target = f"{DFS}.set_index"
    split = {"req": list(range(len(SET_INDEX_REQUESTS)))}
    schema_params_touched = ("columns", "index")

    def make_args(self):
        keys, drop, append = SET_INDEX_REQUESTS[self.arg("req", T.Any)]
        req = ListObj(keys)
        req.pre = True
        req.name = "keys"
        return {"self": self.receiver(), "keys": req, "drop": drop, "append": append}

    def call_target(self, I, fn, a):
        return I.call(fn, [a["self"], a["keys"]], dict(drop=a["drop"], append=a["append"]))

    def valid(self, keys):
        return all(k in self.labels for k in keys) and len(keys) > 0

    def ensures(self, result, old, self_, keys, drop, append):
        from pandera.api.pandas.components import Index, MultiIndex

        # DataFrame.set_index([]) raises ValueError ("Must pass non-zero number of levels")
        out = {"request_was_valid.keys_exist": all(k in self.labels for k in keys), "request_was_valid.at_least_one_key": len(keys) > 0}
        remaining = [k for k in self.labels if not (drop and k in keys)]
        out = self.common(out, result, self_, kept(self_, remaining), index="built")
        if not out.get("returns_a_new_schema"):
            return out
        cols = attr0(self_, "columns")
        old_index = attr0(self_, "index")
        levels = []  # (source component, key)
        if append and old_index is not None:
            if old_index.cls is MultiIndex:
                levels += [(lv, attr0(lv, "name")) for lv in attr0(old_index, "indexes")]
            else:
                levels.append((old_index, attr0(old_index, "name")))
        levels += [(cols[k], k) for k in keys]
        ri = attr(result, "index")
        if len(levels) == 1:
            out["index.is_a_single_index"] = isinstance(ri, Obj) and ri.cls is Index
            got = [ri] if out["index.is_a_single_index"] else None
        else:
            out["index.is_a_multiindex_of_the_levels"] = isinstance(ri, Obj) and ri.cls is MultiIndex and isinstance(attr(ri, "indexes"), list) \
                and len(attr(ri, "indexes")) == len(levels) and all(isinstance(x, Obj) and x.cls is Index for x in attr(ri, "indexes"))
            got = list(attr(ri, "indexes")) if out["index.is_a_multiindex_of_the_levels"] else None
        if got is not None:
            for lv, (src, key) in zip(got, levels):
                moved = not (append and old_index is not None and any(src is s for s, _ in levels[:len(levels) - len(keys)]))
                level_matches(out, "index.moved_level" if moved else "index.kept_level", lv, src, key)
        return out

    def on_raise(self, exc, old, self_, keys, drop, append):
        cols = attr0(self_, "columns")
        gbs = [ArrayValidateAttributes._may_raise_for_index(cols[k]) for k in keys if k in cols]
        return {"only_for_an_invalid_request": Or(not self.valid(keys), *gbs), "is_schema_init_error": exc.cls is SchemaInitError}


RESET_REQUESTS = [("none", None, False), ("index", None, False), ("index", None, True), ("index", ["i"], False), ("index", ["zz"], False), ("index", [], False),
                  ("multi2", None, False), ("multi2", ["i"], False), ("multi2", ["j"], True), ("multi2", ["zz"], False), ("multi3", ["i"], False), ("multi3", ["k"], True),
                  # a level named like an existing column: DataFrame.reset_index refuses ("cannot insert a, already exists") unless drop=True
                  # an index without a name: DataFrame.reset_index calls the new column "index"
                  ("unnamed_index", None, False),
                  ("index_named_like_a_column", None, False), ("index_named_like_a_column", None, True),
                  ("multi_with_a_level_named_like_a_column", None, False), ("multi_with_a_level_named_like_a_column", ["i"], False)]


class ResetIndex(SchemaOp):
    """reset_index(level=None, drop=False): 'Similar to the pandas reset_index method ... fully or partially reset
    indices of a schema ... This reclassifies an index (or indices) as a column (or columns) ... raises
    SchemaInitError if no index set in schema'.  The named levels leave the index; unless drop=True each becomes a
    column that keeps every validation property of the level; the remaining levels stay as they are (one remaining
    level -> Index, several -> MultiIndex of exactly those levels)."""

    target = f"{DFS}.reset_index"
    split = {"req": list(range(len(RESET_REQUESTS)))}
    schema_params_touched = ("columns", "index")

    def receiver(self):
        S, C = classes("pandas")
        kind = RESET_REQUESTS[self.fixed.get("req", 0)][0]
        return self.with_unique(SO.make_schema(S, C, "self", self.labels, make_index(kind)))

    def make_args(self):
        kind, level, drop = RESET_REQUESTS[self.arg("req", T.Any)]
        if level is not None:
            level = ListObj(level)
            level.pre = True
            level.name = "level"
        return {"self": self.receiver(), "level": level, "drop": drop}

    def call_target(self, I, fn, a):
        return I.call(fn, [a["self"]], dict(level=a["level"], drop=a["drop"]))

    def names(self, self_):
        from pandera.api.pandas.components import MultiIndex

        idx = attr0(self_, "index")
        if idx is None:
            return None
        return [attr0(lv, "name") for lv in attr0(idx, "indexes")] if idx.cls is MultiIndex else [attr0(idx, "name")]

    def valid(self, self_, level, drop=True):
        names = self.names(self_)
        if names is None or not (level is None or all(x in names for x in level)):
            return False
        # a level that would become a column named like an existing column: the frame operation is refused ("cannot insert a, already
        # exists"), and a schema that silently REPLACED the column would describe no frame reset_index can produce
        return drop or not any(n in self.labels for n in names if level is None or n in level)

    def ensures(self, result, old, self_, level, drop):
        from pandera.api.pandas.components import Column, Index, MultiIndex

        out = {"request_was_valid": self.valid(self_, level, drop)}
        if level is not None and len(level) == 0:
            # "explicit check for an empty list": nothing to reset - the schema itself is an acceptable answer
            out["empty_level_list_changes_nothing"] = result is self_ or value_equal(result, self_, at_entry=True)
            return out
        if not out["request_was_valid"]:
            return out
        idx = attr0(self_, "index")
        srcs = list(attr0(idx, "indexes")) if idx.cls is MultiIndex else [idx]
        names = self.names(self_)
        moved = [n for n in names if level is None or n in level]
        stay = [(s, n) for s, n in zip(srcs, names) if n not in moved]
        out = self.common(out, result, self_, kept(self_), index="built") if drop else self._with_new_columns(out, result, self_, srcs, names, moved)
        if not out.get("returns_a_new_schema"):
            return out
        ri = attr(result, "index")
        if not stay:
            out["index.is_removed"] = ri is None
        elif len(stay) == 1:
            out["index.is_a_single_index"] = isinstance(ri, Obj) and ri.cls is Index
            if out["index.is_a_single_index"]:
                level_matches(out, "index.kept_level", ri, stay[0][0], stay[0][1])
        else:
            ok = isinstance(ri, Obj) and ri.cls is MultiIndex and isinstance(attr(ri, "indexes"), list) and len(attr(ri, "indexes")) == len(stay)
            out["index.is_a_multiindex_of_the_remaining_levels"] = ok
            if ok:
                for lv, (s, n) in zip(attr(ri, "indexes"), stay):
                    level_matches(out, "index.kept_level", lv, s, n)
        return out

    def _with_new_columns(self, out, result, self_, srcs, names, moved):
        from pandera.api.pandas.components import Column, Index

        out["returns_a_new_schema"] = isinstance(result, Obj) and result is not self_ and result.cls is self_.cls
        if not out["returns_a_new_schema"]:
            return out
        rc = attr(result, "columns")
        keyof = lambda n: "index" if n is None else n  # noqa: E731  (DataFrame.reset_index: an unnamed index becomes the column "index")
        moved_keys = [keyof(n) for n in moved]
        out["columns.keys"] = isinstance(rc, dict) and set(rc.keys()) == set(self.labels) | set(moved_keys) and len(rc) == len(self.labels) + len(moved)
        if not out["columns.keys"]:
            return out
        # DataFrame.reset_index inserts the levels, in level order, BEFORE the existing columns
        out["columns.order_mirrors_dataframe_reset_index"] = list(rc.keys()) == moved_keys + self.labels
        # the existing columns: untouched, same relative order
        old_only = DictObj((k, rc[k]) for k in rc if k in self.labels)
        self.common(out, result, self_, kept(self_), index="built", rc=old_only)
        # the new columns: Column objects carrying the level's properties; Column-only parameters take their defaults
        carried = [p for p in index_params()]
        dflt = SO.ctor_defaults(Column)
        for s, n in zip(srcs, names):
            if n not in moved:
                continue
            col = rc[keyof(n)]
            out["new_column.is_a_column"] = And(out.get("new_column.is_a_column", True), isinstance(col, Obj) and col.cls is Column)
            if isinstance(col, Obj) and col.cls is Column:
                level_matches(out, "new_column", col, s, keyof(n), carried)
                for p in ctor_params(Column):
                    if p not in carried:
                        out[f"new_column.default_{p}"] = And(out.get(f"new_column.default_{p}", True), py_eq(attr(col, stored(p)), dflt[p]))
        return out

    def on_raise(self, exc, old, self_, level, drop):
        idx = attr0(self_, "index")
        return {"only_for_an_invalid_request": not self.valid(self_, level, drop), "is_schema_init_error": exc.cls is SchemaInitError}


def _may_raise_for_index(col):
    """a column whose check list contains a groupby check cannot be turned into an Index"""
    from contracts.C15_components import some_groupby

    return some_groupby(attr0(col, "checks"))


ArrayValidateAttributes._may_raise_for_index = staticmethod(_may_raise_for_index)


# --------------------------------------------------------------------------------------------------------
# inverse laws (programs of two operations on the live code)
# --------------------------------------------------------------------------------------------------------


def _law(name, first, doc):
    class Law(SchemaOp):
        target = f"{DFS}.{first}"
        split = {"backend": SchemaOp.backend_split if name != "reset_after_set" else ["pandas"]}
        index_kinds = ["none", "index"] if name != "reset_after_set" else ["none"]
        schema_params_touched = ("columns",) if name != "reset_after_set" else ("columns", "index")

        def make_args(self):
            _, C = classes(self.fixed.get("backend", "pandas"))
            a = {"self": self.receiver()}
            if name == "remove_after_add":
                d = DictObj()
                d.pre = True
                for k in ("x", "y"):
                    d[k] = SO.make_component(C, f"extra[{k!r}]", T.fresh_value(T.Opt(T.Str), f"extra[{k!r}].name"))
                a["extra"] = d
            return a

        def call_target(self, I, fn, a):
            S = a["self"].cls
            m = lambda n: SO_find(S, n)
            s = a["self"]
            if name == "remove_after_add":
                r1 = I.call(m("add_columns"), [s, a["extra"]], {})
                return I.call(m("remove_columns"), [r1, ListObj(["x", "y"])], {})
            if name == "rename_back":
                r1 = I.call(m("rename_columns"), [s, DictObj({"a": "x", "c": "y"})], {})
                return I.call(m("rename_columns"), [r1, DictObj({"x": "a", "y": "c"})], {})
            if name == "select_all":
                return I.call(m("select_columns"), [s, ListObj(list(attr(s, "columns").keys()))], {})
            r1 = I.call(m("set_index"), [s, ListObj(["b"])], {})
            return I.call(m("reset_index"), [r1, ListObj(["b"])], {})

        def ensures(self, result, old, self_, **a):
            exp = kept(self_)
            if name == "reset_after_set":
                exp = [e for e in exp if e[0] != "b"] + [e for e in exp if e[0] == "b"]
                exp = [(k, src, {}, k == "b") for k, src, _, _ in exp]
            out = self.common({}, result, self_, exp, index="same")
            if name == "reset_after_set":
                # (`regex`: a regex column is not a column to put into the index; `required` is part of the law: an optional column
                # that went through the index comes back required - a known finding)
                for p in ("regex",):
                    out.pop(f"touched.{p}", None)
                out.pop("columns.keys_and_order", None) if False else None
            return {f"inverse.{name}.{k}": v for k, v in out.items()}

    Law.__name__ = "Law_" + name
    Law.__doc__ = doc
    return Law


def SO_find(cls, n):
    for c in cls.__mro__:
        if n in c.__dict__:
            return c.__dict__[n]
    raise AttributeError(n)


LawRemoveAfterAdd = _law("remove_after_add", "add_columns", "remove_columns(add_columns(S, c), names(c)) == S for new names")
LawRenameBack = _law("rename_back", "rename_columns", "rename_columns(rename_columns(S, m), inverse(m)) == S")
LawSelectAll = _law("select_all", "select_columns", "select_columns(S, list(S.columns)) == S")
LawResetAfterSet = _law("reset_after_set", "set_index", "reset_index(set_index(S, k), k) == S attribute-wise (column k moves to the end of the dict, which `==` ignores)")

CONTRACTS = [LawRemoveAfterAdd, LawRenameBack, LawSelectAll, LawResetAfterSet, ValidateColumns, RemoveColumns, SelectColumns, RenameColumns, AddColumns, UpdateColumn, UpdateColumns, SetIndex, ResetIndex]
