"""C16 - model components: what a Field / @check / @parser declaration turns into.

Functions under contract (real source, symbolically executed):
  pandera.api.base.model_components:BaseCheckInfo.to_check, BaseParserInfo.to_parser
  pandera.api.dataframe.model_components:Field, FieldInfo.column_properties, FieldInfo.index_properties
  (inlined: _check_dispatch, FieldInfo._get_schema_properties, BaseFieldInfo.__init__, to_checklist, to_parserlist)

Specification sources: the property statement ("annotations, Field options, ... @check/@parser methods ... validates
exactly like the object-API schema with the same columns, checks and options"; "to_schema is stable"; "a subclass never
alters its parents' schemas"), the docstring of Field ("The keyword-only arguments from eq to str_startswith are dispatched
to the built-in Check methods", ":param ignore_na / raise_warning / n_failure_cases"), the docstrings of check /
dataframe_check / parser ("check_kwargs: Keywords arguments forwarded to Check", "The method will be converted to a
classmethod ... signature must start with cls").

Assumed (dependencies, stated): `Check(...)`, `Parser(...)` and the built-in `Check.<name>` constructors are *recorded
constructor calls* returning a fresh object (their own behaviour is C01/C19's business).
"""
import inspect

import z3

from pandera.api.base.model_components import BaseCheckInfo, BaseParserInfo
from pandera.api.checks import Check
from pandera.api.dataframe.model_components import FieldInfo
from pandera.api.parsers import Parser
from pandera.errors import SchemaInitError
from pyvc import core, types as T
from pyvc.core import And, Iff, Implies, Not, Or, SAny, SBool, SNum, SStr, cur, py_eq
from pyvc.heap import DictObj, ListObj, Obj
from pyvc.interp import OpaqueStar, OtherException
from pyvc.spec import Contract
from pyvc.values import Closure, SymCallable

BASE = "pandera.api.base.model_components"
MC = "pandera.api.dataframe.model_components"

# the documented meaning of the Field check keywords (docs: "dispatched to the built-in Check methods"; names from the
# Check API reference: eq = equal_to, ne = not_equal_to, gt = greater_than, ge = greater_than_or_equal_to, ...)
FIELD_CHECK_KEYWORDS = {
    "eq": "equal_to", "ne": "not_equal_to", "gt": "greater_than", "ge": "greater_than_or_equal_to",
    "lt": "less_than", "le": "less_than_or_equal_to", "in_range": "in_range", "isin": "isin", "notin": "notin",
    "str_contains": "str_contains", "str_endswith": "str_endswith", "str_length": "str_length",
    "str_matches": "str_matches", "str_startswith": "str_startswith",
}
KWARGS_ONLY_CHECK_KEYWORDS = {"between": "between", "unique_values_eq": "unique_values_eq"}
DICT_VALUED = ("in_range", "str_length")
COMMON = ("ignore_na", "raise_warning", "n_failure_cases")
FIELD_OPTIONS = ("nullable", "unique", "coerce", "regex", "check_name", "alias", "title", "description", "default", "dtype_kwargs", "metadata")


def install_ctor_recorders(I):
    """Check(...) / Parser(...) / Check.<builtin>(...) : recorded, fresh result (assumed contract on the callee)"""
    from pyvc.theories.classmodel import drop_transient_models

    drop_transient_models(I)
    p_calls = lambda: cur().ghost.setdefault("ctor_calls", [])

    def mk(kind, cls):
        def model(I, *args, **kw):
            o = Obj(cls, f"{kind}#{len(p_calls())}", pre=False)
            o.attrs["name"] = kw.get("name")
            p_calls().append((kind, o, tuple(args), dict(kw)))
            return o

        return model

    I.models[id(Check)] = mk("Check", Check)
    I.models[id(Parser)] = mk("Parser", Parser)
    for nm in set(FIELD_CHECK_KEYWORDS.values()) | set(KWARGS_ONLY_CHECK_KEYWORDS.values()):
        f = Check.__dict__[nm]
        fn = f.__func__ if isinstance(f, classmethod) else f
        I.models[id(fn)] = (lambda kind: (lambda I, cls_, *args, **kw: mk("Check." + kind, Check)(I, *args, **kw)))(nm)


def kwargs_dict(name, with_name, more):
    """the **check_kwargs captured by the decorator: a caller-owned (pre-existing) dict"""
    d = DictObj()
    if with_name == "str":
        d["name"] = T.fresh_value(T.Str, "check_kwargs['name']")
    elif with_name == "empty":
        d["name"] = ""
    elif with_name == "None":
        d["name"] = None
    for k in more:
        d[k] = T.fresh_value(T.Any, f"check_kwargs[{k!r}]")
    d.pre = True
    d.name = name
    return d


class _ToX(Contract):
    """to_check / to_parser: builds a NEW Check/Parser on every call (so every class of a hierarchy gets its own, bound to
    that class), named by the `name` keyword or else by the decorated function, with every other decorator keyword
    forwarded; and it leaves the shared info object as it found it (parents and children share the info objects, and
    compile order must not matter: "to_schema is stable", "a subclass never alters its parents' schemas")."""

    info_cls = BaseCheckInfo
    fn_attr, kw_attr, ctor = "check_fn", "check_kwargs", "Check"
    adapter_kwargs = True
    split = {"with_name": ["str", "empty", "None", "absent"]}
    raises = ()

    def setup(self, I):
        install_ctor_recorders(I)
        self.I = I

    def make_args(self):
        wn = self.fixed.get("with_name", "absent")
        core.register_model_var("name keyword", lambda m: wn)
        kw = kwargs_dict(self.kw_attr, wn, ["element_wise", "description", "custom_option"])
        fn = SymCallable("user_method", T.Any)
        info = Obj(self.info_cls, "info", pre=True)
        for k, v in ((self.fn_attr, fn), (self.kw_attr, kw)):
            info.attrs[k] = v
            info.attrs0[k] = v
        cur().ghost["kw0"] = dict(kw)
        return {"self": info, "model_cls": Obj(None, "model_cls", pre=True)}

    def call_target(self, I, fn, a):
        return I.call(fn, [a["self"], a["model_cls"]], {})

    def ensures(self, result, old, self_, model_cls):
        calls = [c for c in cur().ghost.get("ctor_calls", []) if c[0] == self.ctor]
        kw0 = cur().ghost["kw0"]
        fn = self_.attrs0[self.fn_attr]
        out = {"builds_exactly_one_new_object": len(calls) == 1 and result is calls[0][1] and not result.pre}
        if len(calls) != 1:
            return out
        _, _, pargs, kw = calls[0]
        given = kw0.get("name")
        if given is None or given == "":
            out["name_defaults_to_method_name"] = kw.get("name") == fn.__name__
        else:
            # a non-empty name keyword wins; an empty one falls back to the method name
            got = kw.get("name")
            want_fn = isinstance(got, str) and got == fn.__name__
            out["name_keyword_wins"] = Implies(given.slen() > 0, got is given)
            out["empty_name_falls_back"] = Implies(given.slen() == 0, want_fn)
        out["other_keywords_forwarded_unchanged"] = all(kw.get(k) is v for k, v in kw0.items() if k != "name") and set(kw) == (set(kw0) | {"name"})
        # the adapter: adapter(arg, **kw) == user_method(model_cls, arg, **kw) for THIS model class
        adapter = pargs[0] if len(pargs) == 1 else None
        out["one_positional_adapter"] = isinstance(adapter, Closure)
        if isinstance(adapter, Closure):
            x = SAny(name="data")
            fn.raises = False
            n0 = len(fn.calls)
            extra = {"groupby_arg": SAny(name="extra")} if self.adapter_kwargs else {}
            r = self.I.call(adapter, [x], dict(extra))
            ok = len(fn.calls) == n0 + 1
            out["adapter_calls_the_method_once"] = ok
            if ok:
                (cargs, ckw) = fn.calls[-1]
                out["adapter_binds_this_model_class"] = len(cargs) == 2 and cargs[0] is model_cls and cargs[1] is x
                out["adapter_forwards_keywords"] = set(ckw) == set(extra) and all(ckw[k] is extra[k] for k in extra)
                out["adapter_returns_the_methods_result"] = isinstance(r, SAny) and any(e[0] == "callback" and e[2] == n0 for e in cur().events)
        return out


class ToCheck(_ToX):
    target = f"{BASE}:BaseCheckInfo.to_check"


class ToParser(_ToX):
    target = f"{BASE}:BaseParserInfo.to_parser"
    info_cls = BaseParserInfo
    fn_attr, kw_attr, ctor = "parser_fn", "parser_kwargs", "Parser"
    adapter_kwargs = False


# ---------------------------------------------------------------------------------------------------------
# Field
# ---------------------------------------------------------------------------------------------------------

_NUMERIC = ("eq", "ne", "gt", "ge", "lt", "le")
_STRS = ("str_contains", "str_endswith", "str_matches", "str_startswith")
_SPLIT = ("eq", "ne", "gt", "ge")


class FieldCtor(Contract):
    """Field(**options): exactly one check per non-None check keyword, built by the documented constructor from the
    keyword's value (a dict value is spread as keyword arguments) plus the three common options; every other option
    reaches the FieldInfo unchanged.  Value domains as documented: comparison operands are values (ints here, S-int),
    in_range / str_length take dicts, isin / notin take collections, str_* take strings."""

    target = f"{MC}:Field"
    raises = ()
    max_paths = 6000
    split = {k: [False, True] for k in _SPLIT}

    def setup(self, I):
        install_ctor_recorders(I)

    def make_args(self):
        a = {}
        for k in FIELD_CHECK_KEYWORDS:
            if k in self.fixed:
                present = self.fixed[k]
                core.register_model_var(k + " given", lambda m, v=present: str(v))
            else:
                present = cur().choose([("None", None), ("given", None)], f"{k} is") == 1
            if not present:
                a[k] = None
            elif k in _NUMERIC:
                a[k] = T.fresh_value(T.Int, k)
            elif k in _STRS:
                a[k] = T.fresh_value(T.Str, k)
            elif k == "in_range":
                a[k] = DictObj(min_value=T.fresh_value(T.Int, "min_value"), max_value=T.fresh_value(T.Int, "max_value"))
            elif k == "str_length":
                a[k] = DictObj(min_value=T.fresh_value(T.Int, "len_min"))
            else:
                a[k] = ListObj([T.fresh_value(T.Any, k + "[0]")])
        for k in ("nullable", "unique", "coerce", "regex", "ignore_na", "raise_warning"):
            a[k] = T.fresh_value(T.Bool, k)
        for k in ("n_failure_cases", "alias", "check_name", "dtype_kwargs", "title", "description", "default", "metadata"):
            a[k] = T.fresh_value(T.Any, k)
        return a

    def ensures(self, result, old, **a):
        calls = cur().ghost.get("ctor_calls", [])
        given = [k for k in FIELD_CHECK_KEYWORDS if a[k] is not None]
        out = {"returns_fieldinfo": isinstance(result, Obj) and result.cls is FieldInfo}
        if not out["returns_fieldinfo"]:
            return out
        checks = result.attrs["checks"]
        out["one_check_per_given_keyword"] = len(calls) == len(given) and len(checks) == len(given) and all(c is call[1] for c, call in zip(checks, calls))
        by_kind = {}
        for kind, o, pargs, kw in calls:
            by_kind.setdefault(kind, []).append((pargs, kw))
        ok_ctor, ok_val, ok_common = True, True, True
        for k in given:
            got = by_kind.get("Check." + FIELD_CHECK_KEYWORDS[k], [])
            if len(got) != 1:
                ok_ctor = False
                continue
            pargs, kw = got[0]
            if k in DICT_VALUED:
                ok_val = ok_val and pargs == () and all(kw.get(n) is v for n, v in a[k].items()) and set(kw) == set(a[k]) | set(COMMON)
            else:
                ok_val = ok_val and len(pargs) == 1 and pargs[0] is a[k] and set(kw) == set(COMMON)
            ok_common = ok_common and all(kw.get(c) is a[c] for c in COMMON)
        out["built_by_the_documented_constructor"] = ok_ctor
        out["from_the_keywords_value"] = ok_val
        out["common_options_reach_every_check"] = ok_common
        out["options_reach_the_fieldinfo"] = all(result.attrs[o] is a[o] for o in FIELD_OPTIONS)
        return out


class FieldRejectsUnknownCheck(Contract):
    """a keyword that is neither an option nor a (registered) check is rejected (docs: 'custom check ... is not available')
    and the kwargs-only built-ins (`between`, `unique_values_eq`) are dispatched like the others"""

    target = f"{MC}:Field"
    raises = (SchemaInitError,)
    split = {"extra": ["between", "unique_values_eq", "no_such_check"]}

    def setup(self, I):
        install_ctor_recorders(I)

    def make_args(self):
        ex = self.fixed["extra"]
        core.register_model_var("extra keyword", lambda m: ex)
        v = DictObj(min_value=T.fresh_value(T.Int, "lo"), max_value=T.fresh_value(T.Int, "hi")) if ex == "between" else ListObj([T.fresh_value(T.Any, "v0")])
        cur().ghost["extra"] = (ex, v)
        return {ex: v, "raise_warning": T.fresh_value(T.Bool, "raise_warning")}

    def ensures(self, result, old, **a):
        ex, v = cur().ghost["extra"]
        calls = cur().ghost.get("ctor_calls", [])
        out = {"unknown_keyword_is_rejected": ex in KWARGS_ONLY_CHECK_KEYWORDS}
        if ex in KWARGS_ONLY_CHECK_KEYWORDS:
            ok = len(calls) == 1 and calls[0][0] == "Check." + KWARGS_ONLY_CHECK_KEYWORDS[ex] and result.attrs["checks"][0] is calls[0][1]
            out["kwargs_only_builtin_dispatched"] = ok
            if ok:
                _, _, pargs, kw = calls[0]
                out["common_options_reach_it"] = kw.get("raise_warning") is a["raise_warning"] and kw.get("ignore_na") is True and kw.get("n_failure_cases") is None
                out["from_the_keywords_value"] = (pargs == () and kw.get("min_value") is v["min_value"] and kw.get("max_value") is v["max_value"]) if ex == "between" else (pargs == (v,))
        return out

    def on_raise(self, exc, old, **a):
        return {"only_unknown_keywords_are_rejected": cur().ghost["extra"][0] not in KWARGS_ONLY_CHECK_KEYWORDS and cur().ghost.get("ctor_calls", []) == []}


# ---------------------------------------------------------------------------------------------------------
# FieldInfo -> Column / Index keyword arguments
# ---------------------------------------------------------------------------------------------------------


def field_obj(dtype_kwargs):
    f = Obj(FieldInfo, "field", pre=True, fields={k: T.Any for k in ("nullable", "unique", "coerce", "regex", "title", "description", "default", "metadata", "alias", "check_name")})
    own_checks = ListObj([Obj(Check, "field_check0", pre=True), Obj(Check, "field_check1", pre=True)])
    own_checks.pre, own_checks.name = True, "field.checks"
    own_parsers = ListObj([Obj(Parser, "field_parser0", pre=True)])
    own_parsers.pre, own_parsers.name = True, "field.parses"
    for k, v in (("checks", own_checks), ("parses", own_parsers), ("dtype_kwargs", dtype_kwargs)):
        f.attrs[k] = v
        f.attrs0[k] = v
    return f


def _extra(kind, cls, how):
    if how == "none":
        return None
    if how == "one":
        return Obj(cls, f"method_{kind}", pre=True)
    lst = ListObj([Obj(cls, f"method_{kind}0", pre=True), Obj(cls, f"method_{kind}1", pre=True)])
    lst.pre, lst.name = True, f"cls.__{kind}s__[field]"
    return lst


def _as_list(x):
    return [] if x is None else ([x] if isinstance(x, Obj) else list(x))


class ColumnProperties(Contract):
    """every Field attribute reaches the Column keyword of the same name; checks/parsers are the Field's own followed by the
    model's @check/@parser methods for that field, in NEW lists (the FieldInfo is shared by every class that inherits the
    field, so nothing of it may be written: "a subclass never alters its parents' schemas")."""

    target = f"{MC}:FieldInfo.column_properties"
    split = {"checks": ["none", "one", "list"], "parsers": ["none", "list"], "dtype_kwargs": [False, True]}
    raises = (OtherException,)
    COLUMN_KEYS = ("nullable", "unique", "coerce", "regex", "title", "description", "default", "metadata")
    with_parsers = True

    def make_args(self):
        for k, v in self.fixed.items():
            core.register_model_var(k, lambda m, v=v: str(v))
        dk = DictObj(arg0=T.fresh_value(T.Any, "dtype_kwargs['arg0']")) if self.fixed.get("dtype_kwargs") else None
        a = {"self": field_obj(dk), "dtype": SymCallable("dtype", T.Any), "checks": _extra("check", Check, self.fixed.get("checks", "none")),
             "name": T.fresh_value(T.Any, "name")}
        if self.with_parsers:
            a["parsers"] = _extra("parser", Parser, self.fixed.get("parsers", "none"))
            a["required"] = T.fresh_value(T.Bool, "required")
        return a

    def call_target(self, I, fn, a):
        kw = {k: v for k, v in a.items() if k not in ("self", "dtype")}
        return I.call(fn, [a["self"], a["dtype"]], kw)

    def ensures(self, result, old, self_, dtype, checks, name, parsers=None, required=None):
        f = self_
        keys = set(self.COLUMN_KEYS) | {"dtype", "checks", "parsers", "name"} | ({"required"} if self.with_parsers else set())
        out = {"exactly_the_component_keywords": isinstance(result, (dict, DictObj)) and set(result) == keys}
        if not out["exactly_the_component_keywords"]:
            return out
        out["field_options_reach_the_component"] = all(result[k] is f.attrs0.get(k, f.attrs.get(k)) for k in self.COLUMN_KEYS)
        out["name_is_the_given_name"] = result["name"] is name
        if self.with_parsers:
            out["required_forwarded"] = result["required"] is required
        want = list(f.attrs0["checks"]) + _as_list(checks)
        out["checks_are_field_checks_then_method_checks"] = len(result["checks"]) == len(want) and all(x is y for x, y in zip(result["checks"], want))
        wantp = list(f.attrs0["parses"]) + _as_list(parsers)
        out["parsers_are_field_parsers_then_method_parsers"] = len(result["parsers"]) == len(wantp) and all(x is y for x, y in zip(result["parsers"], wantp))
        out["new_lists"] = result["checks"] is not f.attrs0["checks"] and result["parsers"] is not f.attrs0["parses"] and \
            (not isinstance(checks, list) or result["checks"] is not checks)
        if f.attrs0["dtype_kwargs"] is None:
            out["dtype_is_the_annotated_dtype"] = result["dtype"] is dtype and dtype.calls == []
        else:
            dk = f.attrs0["dtype_kwargs"]
            out["dtype_is_built_from_dtype_kwargs"] = len(dtype.calls) == 1 and dtype.calls[0][0] == () and set(dtype.calls[0][1]) == set(dk) and \
                all(dtype.calls[0][1][k] is v for k, v in dk.items()) and isinstance(result["dtype"], SAny)
        return out

    def on_raise(self, exc, old, **a):
        return {"only_the_dtype_constructor_raises": exc.attrs.get("__from_callback__") is not None}


class IndexProperties(ColumnProperties):
    target = f"{MC}:FieldInfo.index_properties"
    split = {"checks": ["none", "one", "list"], "dtype_kwargs": [False, True]}
    COLUMN_KEYS = ("nullable", "unique", "coerce", "title", "description", "default")
    with_parsers = False


class ConvertExtras(Contract):
    """_convert_extras_to_checks (docstring, GH#383): every Config attribute that is not a Config option names a Check
    constructor; a tuple value is its positional arguments, a dict value its keyword arguments, `...` means no argument,
    anything else is the only argument.  One check per entry, in declaration order."""

    target = "pandera.api.dataframe.model:_convert_extras_to_checks"
    raises = ()

    def setup(self, I):
        install_ctor_recorders(I)

    def make_args(self):
        ex = DictObj()
        ex["in_range"] = (T.fresh_value(T.Int, "lo"), T.fresh_value(T.Int, "hi"))
        ex["str_length"] = DictObj(min_value=T.fresh_value(T.Int, "len_min"))
        ex["unique_values_eq"] = Ellipsis
        ex["greater_than"] = T.fresh_value(T.Int, "bound")
        ex["isin"] = ListObj([T.fresh_value(T.Any, "allowed0")])
        ex.pre, ex.name = True, "extras"
        return {"extras": ex}

    def ensures(self, result, old, extras):
        calls = cur().ghost.get("ctor_calls", [])
        out = {"one_check_per_entry_in_order": len(calls) == len(extras) and len(result) == len(extras) and all(r is c[1] for r, c in zip(result, calls))
               and [c[0] for c in calls] == ["Check." + k for k in extras]}
        if not out["one_check_per_entry_in_order"]:
            return out
        by = {c[0][6:]: (c[2], c[3]) for c in calls}
        out["tuple_is_positional_arguments"] = by["in_range"] == (extras["in_range"], {}) or (by["in_range"][0] == tuple(extras["in_range"]) and by["in_range"][1] == {})
        out["dict_is_keyword_arguments"] = by["str_length"][0] == () and set(by["str_length"][1]) == {"min_value"} and by["str_length"][1]["min_value"] is extras["str_length"]["min_value"]
        out["ellipsis_is_no_argument"] = by["unique_values_eq"] == ((), {})
        out["other_value_is_the_only_argument"] = len(by["greater_than"][0]) == 1 and by["greater_than"][0][0] is extras["greater_than"] and by["greater_than"][1] == {} \
            and len(by["isin"][0]) == 1 and by["isin"][0][0] is extras["isin"] and by["isin"][1] == {}
        return out


CONTRACTS = [ToCheck, ToParser, FieldCtor, FieldRejectsUnknownCheck, ColumnProperties, IndexProperties, ConvertExtras]


# ---------------------------------------------------------------------------------------------------------
# structural obligations (decided by exhaustive enumeration over live program structure)
# ---------------------------------------------------------------------------------------------------------


def dispatch_table_matches_documentation():
    """_check_dispatch(): every documented Field check keyword maps to the Check constructor of the documented name, the
    table has no other built-in entry, and every check keyword of Field's signature is in the table."""
    from pandera.api.dataframe.model_components import Field, _check_dispatch

    table = _check_dispatch()
    want = {**FIELD_CHECK_KEYWORDS, **KWARGS_ONLY_CHECK_KEYWORDS}
    recs = []
    oid = f"{MC}:_check_dispatch/struct.keyword_maps_to_documented_constructor"
    for k, ctor in sorted(want.items()):
        got = table.get(k)
        ok = got is not None and getattr(got, "__func__", None) is Check.__dict__[ctor].__func__ and getattr(got, "__self__", None) is Check
        recs.append({"oid": oid, "ok": ok, "note": f"{k} -> Check.{ctor}", "witness": {"keyword": k, "maps_to": getattr(got, "__qualname__", repr(got))}})
    extra = sorted(set(table) - set(want) - set(Check.REGISTERED_CUSTOM_CHECKS))
    recs.append({"oid": f"{MC}:_check_dispatch/struct.no_undocumented_builtin_entry", "ok": not extra, "note": "table keys == documented keywords + registered custom checks", "witness": {"extra": extra}})
    params = inspect.signature(Field).parameters
    non_check = set(FIELD_OPTIONS) | set(COMMON)
    sig_checks = sorted(k for k, p in params.items() if p.kind is p.KEYWORD_ONLY and k not in non_check)
    recs.append({"oid": f"{MC}:Field/struct.signature_check_keywords_are_dispatched", "ok": sig_checks == sorted(FIELD_CHECK_KEYWORDS) and all(k in table for k in sig_checks),
                 "note": "keyword-only check parameters of Field == documented check keywords, all in the dispatch table", "witness": {"signature": sig_checks}})
    recs.append({"oid": f"{MC}:Field/struct.options_are_fieldinfo_attributes", "ok": all(o in FieldInfo.__slots__ or o in getattr(FieldInfo.__mro__[1], "__slots__", ()) for o in FIELD_OPTIONS),
                 "note": "every non-check option of Field is a slot of FieldInfo", "witness": None})
    return recs


STRUCTURAL = [dispatch_table_matches_documentation]
