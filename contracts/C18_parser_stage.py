"""C18 (depth only removes checks): the PARSER stage of the pandas container validation.

Property: under SCHEMA_ONLY / DATA_ONLY the verdict equals that of the schema restricted to its schema-level / data-level
constraints.  The core checks obey this through validate_scope (ScopeWrapper_*, C18_scopes).  Errors that arise BEFORE the core
checks - in add_missing_columns / strict_filter_columns / set_defaults / coerce_dtype - are offered to the error handler by
DataFrameSchemaBackend.validate itself, so the obligation sits at that call site:

    pre@collect_error.error_scope_is_enabled_at_this_depth
        every SchemaError offered to ErrorHandler.collect_error has a reason code whose declared scope
        (VALIDATION_DEPTH_ERROR_CODE_MAP) is not switched off by the validation depth in force.

The reason codes a parser can raise are read from the live source of the parser (and of _coerce_dtype_helper for coerce_dtype):
the `reason_code=SchemaErrorReason.<X>` keywords in its body.
"""
from pandera.config import ValidationDepth, ValidationScope
from pandera.errors import SchemaError, SchemaErrorReason, SchemaErrors
from pandera.validation_depth import VALIDATION_DEPTH_ERROR_CODE_MAP
from pyvc import core, types as T
from pyvc.core import PyExc, cur
from pyvc.spec import resolve_target
from contracts.C03_container_validate import DF, PARSERS, ContainerValidate, derive, IN_PLACE
from contracts.C18_scopes import _literal_reason_codes
from contracts.util import fld, fld0


def parser_reason_codes(name):
    from pandera.backends.pandas.container import DataFrameSchemaBackend as B

    codes = set(_literal_reason_codes(getattr(B, name)))
    if name == "coerce_dtype":
        codes |= set(_literal_reason_codes(B._coerce_dtype_helper))
    return sorted(codes)


def scope_enabled(scope, depth):
    if depth is None or depth is ValidationDepth.SCHEMA_AND_DATA:
        return True
    return (scope is ValidationScope.SCHEMA) == (depth is ValidationDepth.SCHEMA_ONLY)


class ParserStageRespectsDepth(ContainerValidate):
    """only the call-site obligation of collect_error; the lineage / ownership / channel posts are ContainerValidate's"""

    split = {"lazy": [True, False]}
    check_frame = False

    def setup(self, I):
        super().setup(I)
        from pandera.api.base.error_handler import ErrorHandler as EH
        from pandera.backends.pandas.container import DataFrameSchemaBackend as B

        def parser_model(name, codes):
            def m(I, self_obj, check_obj, *args, **kw):
                p = cur()
                opts = [("returns", None)] + [(c, None) for c in codes]
                k = p.choose(opts, name)
                if k > 0:
                    e = I.make_exc(SchemaError)
                    e.attrs["reason_code"] = SchemaErrorReason[codes[k - 1]]
                    core.register_model_var(f"{name} raises SchemaError with reason_code", lambda mm, c=codes[k - 1]: c)
                    raise PyExc(e)
                r = derive(check_obj, name, name in IN_PLACE)
                p.ghost["current"] = r
                return r

            return m

        for name in PARSERS:
            I.models[id(getattr(B, name))] = parser_model(name, parser_reason_codes(name))

        def collect_error(I, h, error_type, reason_code, schema_error, original_exc=None):
            p = cur()
            ctx = p.globals_state.get(("pandera.config", "_CONTEXT_CONFIG"))
            if ctx is None:
                from pyvc.interp import LOADER
                from pandera import config as pc

                ctx = I.lookup_global("_CONTEXT_CONFIG", LOADER.closure_of(pc.get_config_context))
            depth = fld(ctx, "validation_depth")
            core.register_model_var("validation_depth", lambda mm, d=depth: getattr(d, "name", "None (= SCHEMA_AND_DATA)"))
            if isinstance(reason_code, SchemaErrorReason):
                p.check(scope_enabled(VALIDATION_DEPTH_ERROR_CODE_MAP[reason_code], depth),
                        f"{DF}.validate/pre@collect_error.error_scope_is_enabled_at_this_depth",
                        note=f"{reason_code.name} ({VALIDATION_DEPTH_ERROR_CODE_MAP[reason_code].name}-level) offered under depth {getattr(depth, 'name', None)}")
            if not I.truth(fld(h, "_lazy")):
                raise PyExc(schema_error)
            fld(h, "_collected_errors").append(schema_error)
            fld(h, "_schema_errors").append(schema_error)
            return None

        I.models[id(EH.collect_error)] = collect_error

    def make_args(self):
        self.fixed = dict(self.fixed, inplace=False, drop=False)
        return super().make_args()

    def ensures(self, result, old, **a):
        return {}

    def on_raise(self, exc, old, **a):
        return {}

    def concretize(self, rec):
        note = rec.get("note") or ""

        def thunk():
            import pandas as pd
            import pandera as pa
            from pandera.config import config_context

            def verdict(schema, df, depth):
                with config_context(validation_depth=depth):
                    try:
                        schema.validate(df)
                        return "accept"
                    except (pa.errors.SchemaError, pa.errors.SchemaErrors) as e:
                        return "reject"

            obs = {}
            bad = False
            if "COLUMN_NOT_IN_SCHEMA" in note or "COLUMN_NOT_ORDERED" in note:
                df = pd.DataFrame({"a": [1.0], "b": [1]})
                strict = pa.DataFrameSchema({"a": pa.Column(float)}, strict=True)
                data_part = pa.DataFrameSchema({"a": pa.Column(float)})
                obs = {"strict=True, extra column, DATA_ONLY": verdict(strict, df, ValidationDepth.DATA_ONLY),
                       "data-level part of the schema alone": verdict(data_part, df, ValidationDepth.SCHEMA_AND_DATA)}
            elif "DATATYPE_COERCION" in note or "ADD_MISSING" in note:
                df = pd.DataFrame({"a": ["x"]})
                full = pa.DataFrameSchema({"a": pa.Column(str, pa.Check(lambda s: True), coerce=False), "b": pa.Column(int, required=False)})
                coerce = pa.DataFrameSchema({"a": pa.Column(int, coerce=True)})
                schema_part = pa.DataFrameSchema({"a": pa.Column(required=True)})
                obs = {"Column(int, coerce=True) on ['x'], SCHEMA_ONLY": verdict(coerce, df, ValidationDepth.SCHEMA_ONLY) + " (by the coercion error, DATA-level)",
                       "names-only part of the schema": verdict(schema_part, df, ValidationDepth.SCHEMA_AND_DATA)}
            vals = list(obs.values())
            bad = len(vals) == 2 and vals[0].split()[0] != vals[1].split()[0]
            return bad, obs

        return thunk


CONTRACTS = [ParserStageRespectsDepth]
