"""C13 (element level) - every value a built-in check strategy can emit satisfies the check it belongs to.

For each of the 14 `*_strategy` functions of pandera/strategies/pandas_strategies.py (k = check kind, stats = check.statistics):

    post.base    strategy is None   =>  support(result) <= dom(dtype) & {x | k_spec(x, stats)}       (statistics are values of the dtype)
    post.base_any_statistic          same without the premise on the statistics (property: an unsatisfiable schema must be reported,
                                     not answered with a value that violates the check)
    post.chain   strategy given     =>  support(result) <= support(strategy) & {x | k_spec(x, stats)}
    post.draw_total                  drawing from the result does not raise (a strategy that cannot be drawn from is not a report of
                                     unsatisfiability at strategy-construction time; it fails every example of a satisfiable schema)
    exit.*                           the only exception is hypothesis.errors.InvalidArgument for a bound that the integer dtype cannot hold

k_spec is the C01 oracle (contracts/specs.py, and the C01 regular-expression relations), so synthesis and validation are tied to
the same meaning.  Then `field_element_strategy` (the chaining loop) is verified against those contracts with the loop invariant
`support(elements) <= dom & AND_{j<k, check j contributes} accepts_j`.
"""
import z3

from contracts import specs
from pyvc import core, types as T
from pyvc.core import And, Iff, Implies, Not, Or, PyExc, SAny, SBool, SNum, SStr, cur, ite, py_eq
from pyvc.heap import DictObj, ListObj, Obj
from pyvc.spec import Contract, Lemma, LoopSpec, resolve_target
from pyvc.theories import hypothesis_lite as H
from pyvc.theories import pandas_lite as PL
from pyvc.theories.hypothesis_lite import StratVal
from pyvc.values import SymSeq

MOD = "pandera.strategies.pandas_strategies"

KIND = {"int": "i", "float": "f", "str": "U"}
SORT = {"int": "num", "float": "num", "str": "str"}


def pandera_dtype(tag):
    from pandera.engines import pandas_engine

    return pandas_engine.Engine.dtype({"int": "int64", "float": "float64", "str": str}[tag])


def invalid_argument():
    from hypothesis.errors import InvalidArgument

    return InvalidArgument


def install_common(I):
    """theories + concrete evaluation of pandera's dtype plumbing (the live functions run natively on concrete dtypes)"""
    PL.install(I)
    H.install(I)
    import pandera.dtypes as D
    from pandera.engines import pandas_engine

    for fn in (D.is_float, D.is_category, D.is_complex, D.is_datetime, D.is_timedelta, D.is_subdtype):
        I.models[id(fn)] = (lambda f: (lambda I, *a, **k: f(*a, **k)))(fn)
    import numpy as np

    I.models[id(np.dtype)] = lambda I, *a, **k: np.dtype(*a, **k)  # numpy's constructor on concrete arguments
    import builtins

    orig_str = I.models[id(builtins.str)]

    def _str(I, v=""):
        # str() of a concrete live dtype object (pandera DataType / numpy dtype / pandas extension dtype): the real __str__
        if isinstance(v, (D.DataType, np.dtype)) or type(v).__module__.split(".")[0] in ("pandas", "numpy"):
            return str(v)
        return orig_str(I, v)

    I.models[id(builtins.str)] = _str
    eng = pandas_engine.Engine.numpy_dtype
    I.models[id(eng.__func__)] = lambda I, cls, dt: pandas_engine.Engine.numpy_dtype(dt)


def value_type(sort, name):
    return core.sym_real(name) if sort == "num" else core.sym_str(name)


def in_dtype(tag, v):
    """the statistic v is a value of the dtype"""
    return H.dom(KIND[tag], v)


def fresh_set(name, sort):
    s = PL.SymSet.fresh(name, "real" if sort == "num" else "str")
    s.sort = sort
    return s


def set_in_dtype(tag, s):
    if tag != "int":
        return True
    y = z3.Real(cur().fresh_name("member"))
    return SBool(z3.ForAll([y], z3.Implies(core.as_z3_bool(s.member(SNum(y))), z3.IsInt(y))))


class _Leaf(Contract):
    """shared machinery of the 14 leaf contracts"""

    check_frame = True
    fn_name = ""
    dtypes = ("int", "float", "str")
    stats = {}  # name -> ("value" | "set" | "optint" | "bool" | "str")
    raises = ()
    timeout_ms = 20_000

    @property
    def split(self):
        return {"dtype": list(self.dtypes), "chained": [False, True]}

    @split.setter
    def split(self, v):
        pass

    def setup(self, I):
        install_common(I)

    def make_args(self):
        tag, chained = self.fixed.get("dtype", self.dtypes[0]), self.fixed.get("chained", False)
        p = cur()
        p.labels.append(f"dtype={tag}")
        p.labels.append("strategy=given" if chained else "strategy=None")
        core.register_model_var("dtype", lambda m, t=tag: t)
        sort = SORT[tag]
        a = {"pandera_dtype": pandera_dtype(tag), "strategy": StratVal.parameter("strategy", sort) if chained else None}
        for name, k in self.stats.items():
            if k == "value":
                a[name] = T.fresh_value(T.Real if sort == "num" else T.Str, name)
            elif k == "set":
                a[name] = fresh_set(name, sort)
            elif k == "optint":
                a[name] = T.fresh_value(T.Opt(T.Int), name)
            elif k == "bool":
                a[name] = T.fresh_value(T.Bool, name)
            elif k == "str":
                a[name] = T.fresh_value(T.Str, name)
        p.ghost["c13_tag"] = tag
        return a

    def call_target(self, I, fn, a):
        kw = {k: v for k, v in a.items() if k not in ("pandera_dtype", "strategy")}
        return I.call(fn, [a["pandera_dtype"], a["strategy"]], kw)

    # -- to override
    def spec(self, x, **stats):
        raise NotImplementedError

    def stats_in_dtype(self, tag, **stats):
        return True

    def extra(self, out, tag, v, c, strategy, **stats):
        pass

    def ensures(self, result, old, pandera_dtype, strategy, **stats):
        tag = cur().ghost["c13_tag"]
        out = {"returns_a_strategy": isinstance(result, StratVal)}
        if not out["returns_a_strategy"]:
            return out
        try:
            v, c = result.draw()
        except PyExc as e:
            out["draw_total"] = False
            cur().labels.append(f"draw raised {e.obj.cls.__name__}")
            return out
        out["draw_total"] = True
        spec = self.spec(v, **stats)
        premise = self.stats_in_dtype(tag, **stats)
        if strategy is None:
            good = And(H.dom(KIND[tag], v), spec)
            out["base"] = Implies(And(c, premise), good)
            if premise is not True:
                out["base_any_statistic"] = Implies(c, good)
        else:
            good = And(strategy.member(v), spec)
            out["chain"] = Implies(And(c, premise), good)
            if premise is not True:
                out["chain_any_statistic"] = Implies(c, good)
        self.extra(out, tag, v, c, strategy, **stats)
        return out

    def on_raise(self, exc, old, pandera_dtype, strategy, **stats):
        return {"no_documented_reason_to_raise": False}


def _mk(fn_name, spec, stats, dtypes, stats_in_dtype=None, bound_names=(), cls_name=None):
    class L(_Leaf):
        target = f"{MOD}:{fn_name}"

        def spec(self, x, **st):
            return spec(x, **st)

        def stats_in_dtype(self, tag, **st):
            return stats_in_dtype(tag, **st) if stats_in_dtype else True

        def on_raise(self, exc, old, pandera_dtype, strategy, **st):
            tag = cur().ghost["c13_tag"]
            if not bound_names:
                return {"no_documented_reason_to_raise": False}
            unrepresentable = Or(*[Not(in_dtype(tag, st[b])) for b in bound_names]) if tag == "int" else False
            return {"reports_only_a_bound_the_dtype_cannot_hold": And(exc.cls is invalid_argument(), strategy is None, unrepresentable)}

    L.stats = stats
    L.dtypes = dtypes
    L.fn_name = fn_name
    L.raises = (invalid_argument(),) if bound_names else ()
    L.__name__ = cls_name or ("Strategy_" + fn_name.replace("_strategy", ""))
    return L


NUM = ("int", "float")
ALL = ("int", "float", "str")

Eq = _mk("eq_strategy", lambda x, value: specs.equal_to(x, value), {"value": "value"}, ALL, lambda tag, value: in_dtype(tag, value))
Ne = _mk("ne_strategy", lambda x, value: specs.not_equal_to(x, value), {"value": "value"}, ALL)
Gt = _mk("gt_strategy", lambda x, min_value: specs.greater_than(x, min_value), {"min_value": "value"}, NUM, bound_names=("min_value",))
Ge = _mk("ge_strategy", lambda x, min_value: specs.greater_than_or_equal_to(x, min_value), {"min_value": "value"}, NUM, bound_names=("min_value",))
Lt = _mk("lt_strategy", lambda x, max_value: specs.less_than(x, max_value), {"max_value": "value"}, NUM, bound_names=("max_value",))
Le = _mk("le_strategy", lambda x, max_value: specs.less_than_or_equal_to(x, max_value), {"max_value": "value"}, NUM, bound_names=("max_value",))
IsIn = _mk("isin_strategy", lambda x, allowed_values: specs.isin(x, allowed_values), {"allowed_values": "set"}, ALL,
           lambda tag, allowed_values: set_in_dtype(tag, allowed_values))
NotIn = _mk("notin_strategy", lambda x, forbidden_values: specs.notin(x, forbidden_values), {"forbidden_values": "set"}, ALL)


class InRange(_Leaf):
    target = f"{MOD}:in_range_strategy"
    dtypes = NUM
    stats = {"min_value": "value", "max_value": "value", "include_min": "bool", "include_max": "bool"}
    raises = (invalid_argument(),)

    def spec(self, x, min_value, max_value, include_min, include_max):
        return specs.in_range(x, min_value, max_value, include_min, include_max)

    def extra(self, out, tag, v, c, strategy, min_value, max_value, include_min, include_max):
        if strategy is None:
            # residual of the known finding (exclusive bounds on integer dtypes): the documented default, inclusive bounds
            out["base_inclusive_bounds"] = Implies(And(c, include_min, include_max), And(H.dom(KIND[tag], v), self.spec(v, min_value, max_value, True, True)))

    def on_raise(self, exc, old, pandera_dtype, strategy, min_value, max_value, **st):
        tag = cur().ghost["c13_tag"]
        unrepresentable = Or(Not(in_dtype(tag, min_value)), Not(in_dtype(tag, max_value))) if tag == "int" else False
        return {"reports_only_a_bound_the_dtype_cannot_hold": And(exc.cls is invalid_argument(), strategy is None, unrepresentable)}


InRange.__name__ = "Strategy_in_range"


def _str_leaf(fn_name, spec, argname, literal_premise=False):
    L = _mk(fn_name, lambda x, **st: spec(x, st[argname]), {argname: "str"}, ("str",),
            (lambda tag, **st: SBool(H.RX_LITERAL(st[argname].z))) if literal_premise else None)
    return L


StrMatches = _str_leaf("str_matches_strategy", lambda x, p: PL.rx("match", p, x), "pattern")
StrContains = _str_leaf("str_contains_strategy", lambda x, p: PL.rx("search", p, x), "pattern")
StartsWith = _str_leaf("str_startswith_strategy", lambda x, s: x.startswith(s), "string", literal_premise=True)
EndsWith = _str_leaf("str_endswith_strategy", lambda x, s: x.endswith(s), "string", literal_premise=True)


class StrLength(_Leaf):
    """Check.str_length(min_value=None, max_value=None): either bound may be left at None (not both: the constructor
    rejects that)."""

    target = f"{MOD}:str_length_strategy"
    dtypes = ("str",)
    stats = {"min_value": "optint", "max_value": "optint"}
    raises = ()

    def requires(self, pandera_dtype, strategy, min_value, max_value):
        conj = [not (min_value is None and max_value is None)]
        if min_value is not None:
            conj.append(min_value >= 0)
        if max_value is not None:
            conj.append(max_value >= 0)
        if min_value is not None and max_value is not None:
            conj.append(min_value <= max_value)
        return And(*conj)

    def spec(self, x, min_value, max_value):
        return specs.str_length(x.slen(), min_value, max_value)

    def on_raise(self, exc, old, **a):
        return {}


StrLength.__name__ = "Strategy_str_length"

LEAVES = [Eq, Ne, Gt, Ge, Lt, Le, InRange, IsIn, NotIn, StrMatches, StrContains, StartsWith, EndsWith, StrLength]

CONTRACTS = list(LEAVES)


# ---------------------------------------------------------------------------------------
# field_element_strategy: the chaining loop
# ---------------------------------------------------------------------------------------
#
# verified against the INTERFACE contract of check strategy functions (pandera docs, "Defining Custom Strategies":
# `strategy(pandera_dtype, strategy=None, **statistics)`: base when strategy is None, otherwise chained onto it):
#     support(fn_j(dtype, None, **stats))  <= dom(dtype) & accepts_j          support(fn_j(dtype, s, **stats)) <= support(s) & accepts_j
# The 14 built-in implementations of that interface are the leaf contracts above (with their recorded findings);
# the registry wiring name -> implementation is the structural obligation below.


class AcceptFn:
    """accepts_j : the meaning of check j on one element (for an element-wise check: its check function)"""

    def __init__(self, acc, j):
        self.acc, self.j = acc, j
        self.calls = []

    def __call__(self, x):
        self.calls.append(x)
        return SBool(self.acc(self.j, PL._term(x) if not (isinstance(x, SNum) and x.is_int) else z3.ToReal(x.z)))


class AbstractStrategyFn:
    """a strategy function that satisfies the base-or-chain interface contract for check j (nothing else is known)"""

    def __init__(self, accept, kind, sort, label):
        self.accept, self.kind, self.sort, self.label = accept, kind, sort, label
        self.calls = []
        self.__name__ = label

    def __call__(self, pandera_dtype, strategy=None, **statistics):
        self.calls.append((pandera_dtype, strategy, statistics))
        accept, kind = self.accept, self.kind
        if strategy is None:
            return StratVal.with_post(self.label, self.sort, lambda v: And(H.dom(kind, v), accept(v)))
        if not isinstance(strategy, StratVal):
            return StratVal.with_post(self.label, self.sort, lambda v: False)

        def d():
            v, c = strategy.draw()
            return v, And(c, accept(v))

        return StratVal(d, self.label, op="filter", base=strategy, arg=accept)


class CheckName:
    __pyvc_symbolic__ = True

    def __init__(self, registered_fn):
        self.registered_fn = registered_fn  # the implementation the dispatcher holds for (this name, pd.Series), or None

    def __hash__(self):
        return id(self)


class DispatcherModel:
    """STRATEGY_DISPATCHER seen through .get((check.name, data type), default)"""

    __pyvc_symbolic__ = True

    def __init__(self):
        self.lookups = []

    def get(self, key, default=None):
        import pandas as pd

        self.lookups.append(key)
        name, dt = key
        if isinstance(name, CheckName) and dt is pd.Series and name.registered_fn is not None:
            return name.registered_fn
        return default


CHECK_KINDS = ["own_strategy", "dispatched", "element_wise_without_strategy", "vectorised_without_strategy"]


def symbolic_checks(tag, name="checks"):
    """a sequence of unknown length of checks of the four kinds field_element_strategy distinguishes"""
    from pyvc.interp import OpaqueStar

    sort, kind = SORT[tag], KIND[tag]
    zs = z3.RealSort() if sort == "num" else z3.StringSort()
    acc = z3.Function(cur().fresh_name("accepts"), z3.IntSort(), zs, z3.BoolSort())
    contrib = z3.Function(cur().fresh_name("contributes"), z3.IntSort(), z3.BoolSort())
    n = core.sym_int(f"len({name})")
    cur().assume(n >= 0)
    core.register_model_var(f"len({name})", n.z)

    def elem(i):
        p = cur()
        iz = i.z if isinstance(i, SNum) else z3.IntVal(i)
        k = p.choose([(c, None) for c in CHECK_KINDS], f"kind({name}[{iz}])")
        o = Obj(None, f"{name}[{iz}]", pre=True)
        accept = AcceptFn(acc, iz)
        fn = AbstractStrategyFn(accept, kind, sort, f"strategy_of_{name}[{iz}]")
        stats = DictObj()
        stats.opaque_rest = OpaqueStar(f"{name}[{iz}].statistics", "kwargs")
        o.attrs.update(strategy=fn if k == 0 else None, name=CheckName(fn if k == 1 else None), statistics=stats,
                       element_wise=(core.sym_bool("element_wise") if k in (0, 1) else k == 2), _check_fn=accept)
        o.attrs0.update(o.attrs)
        o.c13 = dict(kind=CHECK_KINDS[k], fn=fn, accept=accept, stats=stats)
        p.assume(SBool(contrib(iz) == z3.BoolVal(k != 3)))
        return o

    seq = SymSeq(name, n, elem)
    seq.acc, seq.contrib, seq.sort, seq.kind = acc, contrib, sort, kind
    return seq


def all_contributing_accept(seq, upto, v):
    """for an arbitrary j < upto: check j contributes an element constraint => accepts_j(v)   (j is a fresh constant)"""
    j = z3.Int(cur().fresh_name("j"))
    vz = PL._term(v) if not (isinstance(v, SNum) and v.is_int) else z3.ToReal(v.z)
    up = upto.z if isinstance(upto, SNum) else z3.IntVal(upto)
    return SBool(z3.Implies(z3.And(j >= 0, j < up, seq.contrib(j)), seq.acc(j, vz)))


def all_contributing_accept_forall(seq, upto, v):
    j = z3.Int(cur().fresh_name("jq"))
    vz = PL._term(v) if not (isinstance(v, SNum) and v.is_int) else z3.ToReal(v.z)
    up = upto.z if isinstance(upto, SNum) else z3.IntVal(upto)
    return SBool(z3.ForAll([j], z3.Implies(z3.And(j >= 0, j < up, seq.contrib(j)), seq.acc(j, vz))))


def base_strategy_only_error():
    from pandera.errors import BaseStrategyOnlyError

    return BaseStrategyOnlyError


class FieldElementStrategy(Contract):
    """support(field_element_strategy(dtype, checks=cs)) <= dom(dtype) & AND_{j : check j has a strategy or is element-wise} accepts_j.

    Loop invariant (closed form in k):  elements is None and no check before k contributed, or
    support(elements) <= dom(dtype) & AND_{j<k contributing} accepts_j."""

    target = f"{MOD}:field_element_strategy"
    raises = (base_strategy_only_error(),)
    sym_globals = {f"{MOD}:STRATEGY_DISPATCHER": T.Lazy(lambda n: DispatcherModel())}
    split = {"dtype": ["int", "float", "str"], "chained": [False, True], "checks": ["None", "some"]}

    def setup(self, I):
        install_common(I)

    def make_args(self):
        tag = self.fixed.get("dtype", "int")
        p = cur()
        p.labels.append(f"dtype={tag}")
        p.ghost["c13_tag"] = tag
        a = {"pandera_dtype": pandera_dtype(tag),
             "strategy": StratVal.parameter("strategy", SORT[tag]) if self.fixed.get("chained") else None,
             "checks": symbolic_checks(tag) if self.fixed.get("checks", "some") == "some" else None}
        p.ghost["c13_checks"] = a["checks"]
        return a

    def call_target(self, I, fn, a):
        return I.call(fn, [a["pandera_dtype"], a["strategy"]], {"checks": a["checks"]})

    @property
    def loops(self):
        def havoc_elements(I, fr, k, old):
            p = cur()
            seq = p.ghost["c13_checks"]
            b = p.choose([("elements=None", None), ("elements=strategy", None)], "elements before check k")
            p.ghost["c13_elements_before"] = None
            if b == 0:
                j = z3.Int(p.fresh_name("jq"))
                p.assume(SBool(z3.ForAll([j], z3.Implies(z3.And(j >= 0, j < k.z), z3.Not(seq.contrib(j))))))
                return None
            e = StratVal.with_post("elements_before_check_k", seq.sort, lambda v: And(H.dom(seq.kind, v), all_contributing_accept_forall(seq, k, v)))
            p.ghost["c13_elements_before"] = e
            return e

        def invariant(I, fr, k, phase):
            p = cur()
            seq = p.ghost["c13_checks"]
            e = fr.locals["elements"]
            if phase == "init":
                return {"starts_without_elements": e is None}
            if phase == "assume":
                return {}
            # keep: k is (index of the check just processed) + 1
            check = fr.locals["check"]
            info = check.c13
            before = p.ghost["c13_elements_before"]
            out = {}
            fn = info["fn"]
            if info["kind"] in ("own_strategy", "dispatched"):
                out["strategy_function_called_once_with_dtype_previous_elements_and_statistics"] = (
                    len(fn.calls) == 1 and fn.calls[0][0] is fr.locals["pandera_dtype"] and fn.calls[0][1] is before
                    and set(fn.calls[0][2]) == {"**opaque"} and fn.calls[0][2]["**opaque"] is info["stats"].opaque_rest)
            else:
                out["strategy_function_not_called"] = len(fn.calls) == 0
            if info["kind"] == "vectorised_without_strategy":
                out["vectorised_check_without_strategy_left_to_the_container"] = e is before
                return out
            out["contributing_check_yields_elements"] = isinstance(e, StratVal)
            if not isinstance(e, StratVal):
                return out
            try:
                v, c = e.draw()
            except PyExc:
                out["draw_total"] = False
                return out
            out["within_dtype"] = Implies(c, H.dom(seq.kind, v))
            out["accepted_by_every_contributing_check_so_far"] = Implies(c, all_contributing_accept(seq, k, v))
            return out

        return {0: LoopSpec(invariant=invariant, havoc={"elements": havoc_elements})}

    def ensures(self, result, old, pandera_dtype, strategy, checks):
        tag = cur().ghost["c13_tag"]
        out = {"base_strategy_only": strategy is None, "returns_a_strategy": isinstance(result, StratVal)}
        if not isinstance(result, StratVal):
            return out
        v, c = result.draw()
        out["within_dtype"] = Implies(c, H.dom(KIND[tag], v))
        if checks is not None:
            out["accepted_by_every_check_with_a_strategy_or_element_wise"] = Implies(c, all_contributing_accept(checks, checks.n, v))
        return out

    def on_raise(self, exc, old, pandera_dtype, strategy, checks):
        return {"only_a_chained_call_is_rejected": exc.cls is base_strategy_only_error() and strategy is not None}


CONTRACTS.append(FieldElementStrategy)
