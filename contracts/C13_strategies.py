"""C13 (element level) - every value a built-in check strategy can emit satisfies the check it belongs to.

For each of the 14 `*_strategy` functions of pandera/strategies/pandas_strategies.py (k = check kind, stats = check.statistics):

    post.base    strategy is None   =>  support(result) <= dom(dtype) & {x | k_spec(x, stats)}       (statistics are values of the dtype)
    post.base_any_statistic          same without the premise on the statistics (property: an unsatisfiable schema must be reported,
                                     not answered with a value that violates the check)
    post.chain   strategy given     =>  support(result) <= support(strategy) & {x | k_spec(x, stats)}
    post.draw_total                  drawing from the result does not raise (a strategy that cannot be drawn from is not a report of
                                     unsatisfiability at strategy-construction time; it fails every example of a satisfiable schema)
    exit.*                           the only exception is hypothesis.errors.InvalidArgument for a bound that the integer dtype cannot hold

k_spec is the C01 oracle (contracts/specs.py, and the C01 regular-expression relations), so synthesis and validation are tied to
the same meaning.  Then `field_element_strategy` (the chaining loop) is verified against those contracts with the loop invariant
`support(elements) <= dom & AND_{j<k, check j contributes} accepts_j`.
"""
import z3

from contracts import specs
from pyvc import core, types as T
from pyvc.core import And, Iff, Implies, Not, Or, PyExc, SAny, SBool, SNum, SStr, cur, ite, py_eq
from pyvc.heap import DictObj, ListObj, Obj
from pyvc.spec import Contract, Lemma, LoopSpec, resolve_target
from pyvc.theories import hypothesis_lite as H
from pyvc.theories import pandas_lite as PL
from pyvc.theories.hypothesis_lite import StratVal
from pyvc.values import SymSeq

MOD = "pandera.strategies.pandas_strategies"

KIND = {"int": "i", "float": "f", "str": "U"}
SORT = {"int": "num", "float": "num", "str": "str"}


def pandera_dtype(tag):
    from pandera.engines import pandas_engine

    return pandas_engine.Engine.dtype({"int": "int64", "float": "float64", "str": str}[tag])


def invalid_argument():
    from hypothesis.errors import InvalidArgument

    return InvalidArgument


def install_common(I):
    """theories + concrete evaluation of pandera's dtype plumbing (the live functions run natively on concrete dtypes)"""
    PL.install(I)
    H.install(I)
    import pandera.dtypes as D
    from pandera.engines import pandas_engine

    for fn in (D.is_float, D.is_category, D.is_complex, D.is_datetime, D.is_timedelta, D.is_subdtype):
        I.models[id(fn)] = (lambda f: (lambda I, *a, **k: f(*a, **k)))(fn)
    import numpy as np

    I.models[id(np.dtype)] = lambda I, *a, **k: np.dtype(*a, **k)  # numpy's constructor on concrete arguments
    import builtins

    orig_str = I.models[id(builtins.str)]

    def _str(I, v=""):
        # str() of a concrete live dtype object (pandera DataType / numpy dtype / pandas extension dtype): the real __str__
        if isinstance(v, (D.DataType, np.dtype)) or type(v).__module__.split(".")[0] in ("pandas", "numpy"):
            return str(v)
        return orig_str(I, v)

    I.models[id(builtins.str)] = _str
    eng = pandas_engine.Engine.numpy_dtype
    I.models[id(eng.__func__)] = lambda I, cls, dt: pandas_engine.Engine.numpy_dtype(dt)


def value_type(sort, name):
    return core.sym_real(name) if sort == "num" else core.sym_str(name)


def in_dtype(tag, v):
    """the statistic v is a value of the dtype"""
    return H.dom(KIND[tag], v)


def fresh_set(name, sort):
    s = PL.SymSet.fresh(name, "real" if sort == "num" else "str")
    s.sort = sort
    return s


def set_in_dtype(tag, s):
    if tag != "int":
        return True
    y = z3.Real(cur().fresh_name("member"))
    return SBool(z3.ForAll([y], z3.Implies(core.as_z3_bool(s.member(SNum(y))), z3.IsInt(y))))


class _Leaf(Contract):
    """shared machinery of the 14 leaf contracts"""

    check_frame = True
    fn_name = ""
    dtypes = ("int", "float", "str")
    stats = {}  # name -> ("value" | "set" | "optint" | "bool" | "str")
    raises = ()
    timeout_ms = 20_000

    @property
    def split(self):
        return {"dtype": list(self.dtypes), "chained": [False, True]}

    @split.setter
    def split(self, v):
        pass

    def setup(self, I):
        install_common(I)

    def make_args(self):
        tag, chained = self.fixed.get("dtype", self.dtypes[0]), self.fixed.get("chained", False)
        p = cur()
        p.labels.append(f"dtype={tag}")
        p.labels.append("strategy=given" if chained else "strategy=None")
        core.register_model_var("dtype", lambda m, t=tag: t)
        sort = SORT[tag]
        a = {"pandera_dtype": pandera_dtype(tag), "strategy": StratVal.parameter("strategy", sort) if chained else None}
        for name, k in self.stats.items():
            if k == "value":
                a[name] = T.fresh_value(T.Real if sort == "num" else T.Str, name)
            elif k == "set":
                a[name] = fresh_set(name, sort)
            elif k == "optint":
                a[name] = T.fresh_value(T.Opt(T.Int), name)
            elif k == "bool":
                a[name] = T.fresh_value(T.Bool, name)
            elif k == "str":
                a[name] = T.fresh_value(T.Str, name)
        p.ghost["c13_tag"] = tag
        return a

    def call_target(self, I, fn, a):
        kw = {k: v for k, v in a.items() if k not in ("pandera_dtype", "strategy")}
        return I.call(fn, [a["pandera_dtype"], a["strategy"]], kw)

    # -- to override
    def spec(self, x, **stats):
        raise NotImplementedError

    def stats_in_dtype(self, tag, **stats):
        return True

    def extra(self, out, tag, v, c, strategy, **stats):
        pass

    def ensures(self, result, old, pandera_dtype, strategy, **stats):
        tag = cur().ghost["c13_tag"]
        out = {"returns_a_strategy": isinstance(result, StratVal)}
        if not out["returns_a_strategy"]:
            return out
        try:
            v, c = result.draw()
        except PyExc as e:
            out["draw_total"] = False
            cur().labels.append(f"draw raised {e.obj.cls.__name__}")
            return out
        out["draw_total"] = True
        spec = self.spec(v, **stats)
        premise = self.stats_in_dtype(tag, **stats)
        if strategy is None:
            good = And(H.dom(KIND[tag], v), spec)
            out["base"] = Implies(And(c, premise), good)
            if premise is not True:
                out["base_any_statistic"] = Implies(c, good)
        else:
            good = And(strategy.member(v), spec)
            out["chain"] = Implies(And(c, premise), good)
            if premise is not True:
                out["chain_any_statistic"] = Implies(c, good)
        self.extra(out, tag, v, c, strategy, **stats)
        return out

    def on_raise(self, exc, old, pandera_dtype, strategy, **stats):
        return {"no_documented_reason_to_raise": False}


def _mk(fn_name, spec, stats, dtypes, stats_in_dtype=None, bound_names=(), cls_name=None):
    class L(_Leaf):
        target = f"{MOD}:{fn_name}"

        def spec(self, x, **st):
            return spec(x, **st)

        def stats_in_dtype(self, tag, **st):
            return stats_in_dtype(tag, **st) if stats_in_dtype else True

        def on_raise(self, exc, old, pandera_dtype, strategy, **st):
            tag = cur().ghost["c13_tag"]
            if not bound_names:
                return {"no_documented_reason_to_raise": False}
            unrepresentable = Or(*[Not(in_dtype(tag, st[b])) for b in bound_names]) if tag == "int" else False
            return {"reports_only_a_bound_the_dtype_cannot_hold": And(exc.cls is invalid_argument(), strategy is None, unrepresentable)}

    L.stats = stats
    L.dtypes = dtypes
    L.fn_name = fn_name
    L.raises = (invalid_argument(),) if bound_names else ()
    L.__name__ = cls_name or ("Strategy_" + fn_name.replace("_strategy", ""))
    return L


NUM = ("int", "float")
ALL = ("int", "float", "str")

Eq = _mk("eq_strategy", lambda x, value: specs.equal_to(x, value), {"value": "value"}, ALL, lambda tag, value: in_dtype(tag, value))
Ne = _mk("ne_strategy", lambda x, value: specs.not_equal_to(x, value), {"value": "value"}, ALL)
Gt = _mk("gt_strategy", lambda x, min_value: specs.greater_than(x, min_value), {"min_value": "value"}, NUM, bound_names=("min_value",))
Ge = _mk("ge_strategy", lambda x, min_value: specs.greater_than_or_equal_to(x, min_value), {"min_value": "value"}, NUM, bound_names=("min_value",))
Lt = _mk("lt_strategy", lambda x, max_value: specs.less_than(x, max_value), {"max_value": "value"}, NUM, bound_names=("max_value",))
Le = _mk("le_strategy", lambda x, max_value: specs.less_than_or_equal_to(x, max_value), {"max_value": "value"}, NUM, bound_names=("max_value",))
IsIn = _mk("isin_strategy", lambda x, allowed_values: specs.isin(x, allowed_values), {"allowed_values": "set"}, ALL,
           lambda tag, allowed_values: set_in_dtype(tag, allowed_values))
NotIn = _mk("notin_strategy", lambda x, forbidden_values: specs.notin(x, forbidden_values), {"forbidden_values": "set"}, ALL)


class InRange(_Leaf):
    target = f"{MOD}:in_range_strategy"
    dtypes = NUM
    stats = {"min_value": "value", "max_value": "value", "include_min": "bool", "include_max": "bool"}
    raises = (invalid_argument(),)

    def spec(self, x, min_value, max_value, include_min, include_max):
        return specs.in_range(x, min_value, max_value, include_min, include_max)

    def extra(self, out, tag, v, c, strategy, min_value, max_value, include_min, include_max):
        if strategy is None:
            # residual of the known finding (exclusive bounds on integer dtypes): the documented default, inclusive bounds
            out["base_inclusive_bounds"] = Implies(And(c, include_min, include_max), And(H.dom(KIND[tag], v), self.spec(v, min_value, max_value, True, True)))

    def on_raise(self, exc, old, pandera_dtype, strategy, min_value, max_value, **st):
        tag = cur().ghost["c13_tag"]
        unrepresentable = Or(Not(in_dtype(tag, min_value)), Not(in_dtype(tag, max_value))) if tag == "int" else False
        return {"reports_only_a_bound_the_dtype_cannot_hold": And(exc.cls is invalid_argument(), strategy is None, unrepresentable)}


InRange.__name__ = "Strategy_in_range"


def _str_leaf(fn_name, spec, argname, literal_premise=False):
    L = _mk(fn_name, lambda x, **st: spec(x, st[argname]), {argname: "str"}, ("str",),
            (lambda tag, **st: SBool(H.RX_LITERAL(st[argname].z))) if literal_premise else None)
    return L


StrMatches = _str_leaf("str_matches_strategy", lambda x, p: PL.rx("match", p, x), "pattern")
StrContains = _str_leaf("str_contains_strategy", lambda x, p: PL.rx("search", p, x), "pattern")
StartsWith = _str_leaf("str_startswith_strategy", lambda x, s: x.startswith(s), "string", literal_premise=True)
EndsWith = _str_leaf("str_endswith_strategy", lambda x, s: x.endswith(s), "string", literal_premise=True)


class StrLength(_Leaf):
    """Check.str_length(min_value=None, max_value=None): either bound may be left at None (not both: the constructor
    rejects that)."""

    target = f"{MOD}:str_length_strategy"
    dtypes = ("str",)
    stats = {"min_value": "optint", "max_value": "optint"}
    raises = ()

    def requires(self, pandera_dtype, strategy, min_value, max_value):
        conj = [not (min_value is None and max_value is None)]
        if min_value is not None:
            conj.append(min_value >= 0)
        if max_value is not None:
            conj.append(max_value >= 0)
        if min_value is not None and max_value is not None:
            conj.append(min_value <= max_value)
        return And(*conj)

    def spec(self, x, min_value, max_value):
        return specs.str_length(x.slen(), min_value, max_value)

    def on_raise(self, exc, old, **a):
        return {}


StrLength.__name__ = "Strategy_str_length"

LEAVES = [Eq, Ne, Gt, Ge, Lt, Le, InRange, IsIn, NotIn, StrMatches, StrContains, StartsWith, EndsWith, StrLength]

CONTRACTS = list(LEAVES)
