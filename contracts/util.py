"""helpers shared by contract files"""
from pyvc import heap
from pyvc.heap import MISSING, Obj


def fld(o: Obj, name):
    """current value of attribute `name` (materialising the symbolic initial value if never touched)"""
    if name in o.attrs:
        return o.attrs[name]
    return heap.materialise(o, name)


def fld0(o: Obj, name):
    """value of attribute `name` at entry"""
    if name in o.attrs0:
        return o.attrs0[name]
    if name in o.attrs and name not in o.writes:
        return o.attrs[name]
    return heap.materialise(o, name)
