"""C01 (field level): the per-field core checks of ArraySchemaBackend against their declared meaning.

check_name      passes  <=> schema.name is None or series.name == schema.name
check_nullable  passes  <=> schema.nullable or no element is null
check_unique    passes  <=> not schema.unique or the elements are pairwise distinct
                failure cases = rows selected by duplicated(keep=convert_uniquesettings(report_duplicates))
convert_uniquesettings : total table  exclude_first->'first', exclude_last->'last', all->False, else ValueError
"""
import z3

from pandera.backends.base import CoreCheckResult
from pandera.errors import SchemaErrorReason
from pyvc import core, types as T
from pyvc.core import And, Iff, Implies, Not, Or, SBool, cur, ite, py_eq
from pyvc.heap import Obj
from pyvc.spec import Contract
from pyvc.theories import pandas_lite as PL
from pyvc.theories.pandas_lite import SeriesVal

ARR = "pandera.backends.pandas.array:ArraySchemaBackend"
RESHAPE = "pandera.backends.pandas.error_formatters:reshape_failure_cases"


def Series(kind="real", named=True):
    def mk(name):
        s = SeriesVal.fresh(name, kind)
        if named:
            s.name = T.fresh_value(T.Opt(T.Label), name + ".name")
        return s

    return T.Lazy(mk)


def field_schema(**extra):
    f = dict(name=T.Opt(T.Label), nullable=T.Bool, unique=T.Bool,
             report_duplicates=T.OneOf("exclude_first", "exclude_last", "all"), dtype=T.Opt(T.Ref(None)))
    f.update(extra)
    return T.Ref(None, **f)


def backend():
    import pandera.backends.pandas.array as A

    return T.Ref(A.ArraySchemaBackend)


class ConvertUniqueSettings(Contract):
    target = "pandera.backends.utils:convert_uniquesettings"
    params = dict(unique=T.OneOf("exclude_first", "exclude_last", "all", T.Str))
    raises = (ValueError,)
    check_frame = False
    TABLE = {"exclude_first": "first", "exclude_last": "last", "all": False}

    def ensures(self, result, old, unique):
        if isinstance(unique, str):
            return {"table": result == self.TABLE[unique] and type(result) is type(self.TABLE[unique])}
        # symbolic other string: reached the normal exit only if it equals one of the three names
        return {"table": Or(*[And(unique == k, result == v if isinstance(v, str) else result is v) for k, v in self.TABLE.items()])}

    def on_raise(self, exc, old, unique):
        if isinstance(unique, str):
            return {"raises_only_for_unknown_setting": False}
        return {"raises_only_for_unknown_setting": And(*[Not(unique == k) for k in self.TABLE])}


class _Core(Contract):
    opaque = (RESHAPE,)
    check_frame = True

    def setup(self, I):
        PL.install(I)

    def call_target(self, I, fn, args):
        return I.call(fn, [args["self"], args["check_obj"], args["schema"]], {})

    def is_result(self, result):
        return isinstance(result, Obj) and result.cls is CoreCheckResult


class CheckName(_Core):
    target = f"{ARR}.check_name.__wrapped__"
    params = dict(self=backend(), check_obj=Series(), schema=field_schema())

    def ensures(self, result, old, self_, check_obj, schema):
        sname = schema.attrs["name"]
        want = True if sname is None else py_eq(check_obj.name, sname)
        if sname is not None and check_obj.name is None:
            want = False
        return {"verdict": self.is_result(result) and Iff(result.attrs["passed"], want),
                "reason": result.attrs["reason_code"] is SchemaErrorReason.WRONG_FIELD_NAME}


class CheckNullable(_Core):
    target = f"{ARR}.check_nullable.__wrapped__"
    params = dict(self=backend(), check_obj=Series(), schema=field_schema())

    def ensures(self, result, old, self_, check_obj, schema):
        nullable = schema.attrs["nullable"]
        no_null = check_obj.forall(lambda i: z3.Not(check_obj.null(i)))
        passed = result.attrs["passed"]
        out = {"verdict": self.is_result(result) and Iff(passed, Or(nullable, no_null))}
        if passed is not True:
            out["reason"] = result.attrs["reason_code"] is SchemaErrorReason.SERIES_CONTAINS_NULLS
        return out


class CheckUnique(_Core):
    target = f"{ARR}.check_unique.__wrapped__"
    params = dict(self=backend(), check_obj=Series(), schema=field_schema())
    use_contracts = ()

    def setup(self, I):
        super().setup(I)
        # record which rows are handed to reshape_failure_cases (the reported duplicates)
        from pyvc.spec import resolve_target

        def reshape(I, failure_cases, ignore_na=True):
            cur().ghost["reported"] = failure_cases
            return core.SAny(name="failure_cases")

        I.models[id(resolve_target(RESHAPE))] = reshape

    def ensures(self, result, old, self_, check_obj, schema):
        unique = schema.attrs["unique"]
        passed = result.attrs["passed"]
        out = {"verdict": self.is_result(result) and Iff(passed, Or(Not(unique), check_obj.is_unique)),
               "reason": result.attrs["reason_code"] is SchemaErrorReason.SERIES_CONTAINS_DUPLICATES}
        rep = cur().ghost.get("reported")
        if rep is not None:
            keep = {"exclude_first": "first", "exclude_last": "last", "all": False}[schema.attrs["report_duplicates"]]
            dup = check_obj.duplicated(keep=keep)
            i = z3.Int(cur().fresh_name("row"))
            out["reported_rows_are_the_duplicates"] = SBool(rep.sel(i) == z3.And(check_obj.sel(i), core.as_z3_bool(dup.at(i))))
            out["failure_cases_only_when_failed"] = Not(passed)
        else:
            out["no_report_means_passed"] = py_eq(passed, True)
        return out


CONTRACTS = [ConvertUniqueSettings, CheckName, CheckNullable, CheckUnique]
