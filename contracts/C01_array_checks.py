"""C01 (field level): the per-field core checks of ArraySchemaBackend against their declared meaning.

check_name      passes  <=> schema.name is None or series.name == schema.name
check_nullable  passes  <=> schema.nullable or no element is null
check_unique    passes  <=> not schema.unique or the elements are pairwise distinct
                failure cases = rows selected by duplicated(keep=convert_uniquesettings(report_duplicates))
convert_uniquesettings : total table  exclude_first->'first', exclude_last->'last', all->False, else ValueError
"""
import z3

from pandera.backends.base import CoreCheckResult
from pandera.errors import SchemaErrorReason
from pyvc import core, types as T
from pyvc.core import And, Iff, Implies, Not, Or, SBool, cur, ite, py_eq
from pyvc.heap import Obj
from pyvc.spec import Contract
from pyvc.theories import pandas_lite as PL
from pyvc.theories.pandas_lite import SeriesVal

ARR = "pandera.backends.pandas.array:ArraySchemaBackend"
RESHAPE = "pandera.backends.pandas.error_formatters:reshape_failure_cases"


def Series(kind="real", named=True):
    def mk(name):
        s = SeriesVal.fresh(name, kind)
        if named:
            s.name = T.fresh_value(T.Opt(T.Label), name + ".name")
        return s

    return T.Lazy(mk)


def field_schema(**extra):
    f = dict(name=T.Opt(T.Label), nullable=T.Bool, unique=T.Bool,
             report_duplicates=T.OneOf("exclude_first", "exclude_last", "all"), dtype=T.Opt(T.Ref(None)))
    f.update(extra)
    return T.Ref(None, **f)


def backend():
    import pandera.backends.pandas.array as A

    return T.Ref(A.ArraySchemaBackend)


class ConvertUniqueSettings(Contract):
    target = "pandera.backends.utils:convert_uniquesettings"
    params = dict(unique=T.OneOf("exclude_first", "exclude_last", "all", T.Str))
    raises = (ValueError,)
    check_frame = False
    TABLE = {"exclude_first": "first", "exclude_last": "last", "all": False}

    def ensures(self, result, old, unique):
        if isinstance(unique, str):
            return {"table": result == self.TABLE[unique] and type(result) is type(self.TABLE[unique])}
        # symbolic other string: reached the normal exit only if it equals one of the three names
        return {"table": Or(*[And(unique == k, result == v if isinstance(v, str) else result is v) for k, v in self.TABLE.items()])}

    def on_raise(self, exc, old, unique):
        if isinstance(unique, str):
            return {"raises_only_for_unknown_setting": False}
        return {"raises_only_for_unknown_setting": And(*[Not(unique == k) for k in self.TABLE])}


class _Core(Contract):
    opaque = (RESHAPE,)
    check_frame = True

    def setup(self, I):
        PL.install(I)

    def call_target(self, I, fn, args):
        return I.call(fn, [args["self"], args["check_obj"], args["schema"]], {})

    def is_result(self, result):
        return isinstance(result, Obj) and result.cls is CoreCheckResult


class CheckName(_Core):
    target = f"{ARR}.check_name.__wrapped__"
    params = dict(self=backend(), check_obj=Series(), schema=field_schema())

    def ensures(self, result, old, self_, check_obj, schema):
        sname = schema.attrs["name"]
        want = True if sname is None else py_eq(check_obj.name, sname)
        if sname is not None and check_obj.name is None:
            want = False
        return {"verdict": self.is_result(result) and Iff(result.attrs["passed"], want),
                "reason": result.attrs["reason_code"] is SchemaErrorReason.WRONG_FIELD_NAME}


class CheckNullable(_Core):
    target = f"{ARR}.check_nullable.__wrapped__"
    params = dict(self=backend(), check_obj=Series(), schema=field_schema())

    def ensures(self, result, old, self_, check_obj, schema):
        nullable = schema.attrs["nullable"]
        no_null = check_obj.forall(lambda i: z3.Not(check_obj.null(i)))
        passed = result.attrs["passed"]
        out = {"verdict": self.is_result(result) and Iff(passed, Or(nullable, no_null))}
        if passed is not True:
            out["reason"] = result.attrs["reason_code"] is SchemaErrorReason.SERIES_CONTAINS_NULLS
        return out


class CheckUnique(_Core):
    target = f"{ARR}.check_unique.__wrapped__"
    params = dict(self=backend(), check_obj=Series(), schema=field_schema())
    use_contracts = ()

    def setup(self, I):
        super().setup(I)
        # record which rows are handed to reshape_failure_cases (the reported duplicates)
        from pyvc.spec import resolve_target

        def reshape(I, failure_cases, ignore_na=True):
            cur().ghost["reported"] = failure_cases
            cur().ghost["reported_ignoring_nulls"] = ignore_na
            return core.SAny(name="failure_cases")

        I.models[id(resolve_target(RESHAPE))] = reshape

    def ensures(self, result, old, self_, check_obj, schema):
        unique = schema.attrs["unique"]
        passed = result.attrs["passed"]
        out = {"verdict": self.is_result(result) and Iff(passed, Or(Not(unique), check_obj.is_unique)),
               "reason": result.attrs["reason_code"] is SchemaErrorReason.SERIES_CONTAINS_DUPLICATES}
        rep = cur().ghost.get("reported")
        if rep is not None:
            keep = {"exclude_first": "first", "exclude_last": "last", "all": False}[schema.attrs["report_duplicates"]]
            dup = check_obj.duplicated(keep=keep)
            i = z3.Int(cur().fresh_name("row"))
            out["reported_rows_are_the_duplicates"] = SBool(rep.sel(i) == z3.And(check_obj.sel(i), core.as_z3_bool(dup.at(i))))
            # a repeated null is a duplicate like any other (pandas `duplicated` counts it, the verdict counts it): it is reported too
            # (reshape_failure_cases(ignore_na=True) drops failure cases whose value is null: its own contract, C02_reshape)
            out["duplicated_nulls_are_reported_as_well"] = cur().ghost.get("reported_ignoring_nulls") is False
            out["failure_cases_only_when_failed"] = Not(passed)
        else:
            out["no_report_means_passed"] = py_eq(passed, True)
        return out


class DeclaredDtype:
    """schema.dtype as check_dtype sees it: `check(engine_dtype, data)` answers with a bool (type-level verdict) or a boolean
    Series (per-element verdict of a data-dependent dtype); what `check` means is C09's business"""

    __pyvc_symbolic__ = True

    def __init__(self, verdict):
        self.verdict = verdict
        self.calls = []

    def check(self, *a, **kw):
        self.calls.append((a, kw))
        return self.verdict


class CheckDtype(_Core):
    """check_dtype passes <=> the schema declares no dtype, or the declared dtype recognises the engine data type OF THE OBJECT
    (`schema.dtype.check(Engine.dtype(obj.dtype), obj)`; C09 proves what `check` and `Engine.dtype` mean).  A data-dependent
    `check` (boolean per element) passes iff every element passes, and the reported failure cases are the elements that do not."""

    target = f"{ARR}.check_dtype.__wrapped__"
    split = {"dtype": ["none", "type_level", "per_element"]}

    def setup(self, I):
        super().setup(I)
        from pandera.engines.pandas_engine import Engine
        from pyvc.spec import resolve_target

        def engine_dtype(I, cls, data_type):
            r = core.SAny(name="engine_dtype_of_object")
            cur().ghost["resolved"] = (data_type, r)
            return r

        I.models[id(Engine.dtype.__func__)] = engine_dtype

        def reshape(I, failure_cases, ignore_na=True):
            cur().ghost["reported"] = (failure_cases, ignore_na)
            return core.SAny(name="failure_cases")

        I.models[id(resolve_target(RESHAPE))] = reshape

    def make_args(self):
        import pandera.backends.pandas.array as A

        obj = SeriesVal.fresh("check_obj", "real")
        obj.name = T.fresh_value(T.Opt(T.Label), "check_obj.name")
        case = self.fixed.get("dtype", "type_level")
        if case == "none":
            dt = None
        elif case == "type_level":
            dt = DeclaredDtype(T.fresh_value(T.Bool, "dtype_check_verdict"))
        else:
            dt = DeclaredDtype(SeriesVal.fresh("dtype_check_output", "bool", nullable=False, space=obj.space))
        schema = T.Ref(None, name=T.Opt(T.Label)).fresh("schema")
        schema.attrs["dtype"] = dt
        schema.attrs0["dtype"] = dt
        return {"self": T.Ref(A.ArraySchemaBackend).fresh("self"), "check_obj": obj, "schema": schema}

    def ensures(self, result, old, self_, check_obj, schema):
        p = cur()
        passed = result.attrs["passed"]
        out = {"is_a_result": self.is_result(result), "reason": result.attrs["reason_code"] is SchemaErrorReason.WRONG_DATATYPE}
        dt = schema.attrs["dtype"]
        if dt is None:
            out["no_declared_dtype_passes"] = passed is True
            return out
        out["declared_dtype_consulted_once"] = len(dt.calls) == 1
        if len(dt.calls) != 1:
            return out
        args, kw = dt.calls[0]
        res = p.ghost.get("resolved")
        out["asked_about_the_engine_dtype_of_the_object"] = res is not None and len(args) >= 1 and args[0] is res[1] and isinstance(res[0], PL.DTypeVal)
        out["object_handed_to_data_dependent_dtypes"] = len(args) >= 2 and args[1] is check_obj
        v = dt.verdict
        if isinstance(v, SeriesVal):
            all_ok = v.forall(lambda i: core.as_z3_bool(v.at(i)))
            out["passes_iff_every_element_is_recognised"] = Iff(passed, all_ok)
            rep = p.ghost.get("reported")
            out["failure_cases_reported"] = rep is not None
            if rep is not None:
                rows, ign = rep
                i = z3.Int(p.fresh_name("row"))
                out["reported_rows_are_the_unrecognised_elements"] = SBool(rows.sel(i) == z3.And(check_obj.sel(i), z3.Not(core.as_z3_bool(v.at(i)))))
                out["nulls_are_not_dropped_from_the_report"] = ign is False
        else:
            out["passes_iff_the_declared_dtype_recognises_it"] = Iff(passed, v)
        return out

    def concretize(self, rec):
        def thunk():
            import pandas as pd
            import pandera as pa

            obs, bad = {}, False
            for data, dtype, want in (([1, 2], int, True), ([1.0, 2.0], int, False), (["a"], str, True), ([1, 2], None, True), ([True], int, False)):
                try:
                    pa.SeriesSchema(dtype).validate(pd.Series(data))
                    got = True
                except pa.errors.SchemaError:
                    got = False
                if got != want:
                    bad = True
                    obs[f"SeriesSchema({getattr(dtype, '__name__', None)}) on {data}"] = f"accepted={got}, expected {want}"
            return bad, obs or "dtype verdicts as declared on the probe series"

        return thunk


CONTRACTS = [ConvertUniqueSettings, CheckName, CheckNullable, CheckUnique, CheckDtype]
