"""C12 - structural obligations: finite, exhaustive, decided checks over live program structure.

  * the assumed contracts of pyvc.theories.serial / text replayed on the real libraries (an axiom that fails is reported)
  * the script templates: each is ONE constructor call whose keywords are `kw={kw}` slots; every serialisable constructor
    argument (the attribute list of the property statement) has a slot of its own name
  * the statistics records built by schema_statistics name every serialisable attribute
  * constructors store each serialisable argument under the attribute of the same name (justifies the cut points)
  * built-in check constructors: statistics are keyed by the constructor's parameter names and hold JSON-domain values
  * the per-check options parse_checks carries vs the JSON-representable keyword options of Check.__init__
"""
import ast
import inspect
import string
import warnings

IO = "pandera.io.pandas_io"
STATS = "pandera.schema_statistics.pandas"

# the attribute list of the property statement, per constructor
SERIALISABLE = {
    "DataFrameSchema": ["columns", "checks", "index", "dtype", "coerce", "strict", "name", "ordered", "unique", "report_duplicates",
                        "unique_column_names", "add_missing_columns", "title", "description"],
    "Column": ["dtype", "checks", "nullable", "unique", "coerce", "required", "regex", "title", "description"],
    "Index": ["dtype", "checks", "nullable", "unique", "coerce", "name", "title", "description"],
    "MultiIndex": ["indexes"],
}
TEMPLATES = {"SCRIPT_TEMPLATE": "DataFrameSchema", "COLUMN_TEMPLATE": "Column", "INDEX_TEMPLATE": "Index", "MULTIINDEX_TEMPLATE": "MultiIndex"}
CONTAINER_SLOTS = {("DataFrameSchema", "columns"): ast.Set, ("MultiIndex", "indexes"): ast.List}  # `{<slot>}` / `[<slot>]` display bodies


def rec(oid, ok, note="", witness=None):
    return {"oid": oid, "ok": bool(ok), "note": note, "witness": witness}


def theory_axioms_hold_natively():
    from pyvc.theories import serial, text

    out = []
    for mod, res in (("serial", serial.selftest()), ("text", text.selftest())):
        by = {}
        for name, ok, detail in res:
            by.setdefault(name, []).append((ok, detail))
        for name, rows in by.items():
            bad = [d for ok, d in rows if not ok]
            out.append(rec(f"pyvc.theories.{mod}/axiom.{name}", not bad, f"{len(rows)} instances replayed on the real library", bad[:3] or None))
    return out


def script_templates_are_constructor_calls_with_a_slot_per_argument():
    import pandera.io.pandas_io as m

    out = []
    for tname, ctor in TEMPLATES.items():
        tpl = getattr(m, tname)
        slots = [f for _, f, _, _ in string.Formatter().parse(tpl) if f is not None]
        filled = tpl.format(**{s: f"__slot_{s}__" for s in slots})
        tree = ast.parse(filled.strip())
        calls = [n for n in ast.walk(tree) if isinstance(n, ast.Call)]
        ok_shape = len(calls) == 1 and isinstance(calls[0].func, ast.Name) and calls[0].func.id == ctor and not calls[0].args
        out.append(rec(f"{IO}:{tname}/struct.is_one_call_of_{ctor}_with_keywords_only", ok_shape, filled.strip()[:80]))
        if not ok_shape:
            continue
        kws = {k.arg: k.value for k in calls[0].keywords}
        wrong = []
        for k, v in kws.items():
            disp = CONTAINER_SLOTS.get((ctor, k))
            if disp is not None:
                good = isinstance(v, disp) and len(v.elts) == 1 and isinstance(v.elts[0], ast.Name) and v.elts[0].id == f"__slot_{k}__"
            else:
                good = isinstance(v, ast.Name) and v.id == f"__slot_{k}__"
            if not good:
                wrong.append(k)
        out.append(rec(f"{IO}:{tname}/struct.each_keyword_is_filled_by_the_slot_of_its_own_name", not wrong, f"keywords {sorted(kws)}", wrong or None))
        missing = [a for a in SERIALISABLE[ctor] if a not in kws]
        out.append(rec(f"{IO}:{tname}/struct.every_serialisable_argument_has_a_slot", not missing,
                       "missing: " + ",".join(missing) if missing else "all of " + ",".join(SERIALISABLE[ctor]), missing or None))
        sig = inspect.signature(getattr(__import__("pandera"), ctor).__init__)
        unknown = [k for k in kws if k not in sig.parameters]
        out.append(rec(f"{IO}:{tname}/struct.every_keyword_is_a_constructor_parameter", not unknown, "", unknown or None))
    return out


def _dict_keys_in(fn):
    src = inspect.getsource(fn)
    import textwrap

    tree = ast.parse(textwrap.dedent(src))
    keys = set()
    for n in ast.walk(tree):
        if isinstance(n, ast.Dict):
            keys |= {k.value for k in n.keys if isinstance(k, ast.Constant) and isinstance(k.value, str)}
    return keys


def statistics_records_name_every_serialisable_attribute():
    import pandera.schema_statistics.pandas as s

    out = []
    col = _dict_keys_in(s.get_dataframe_schema_statistics)
    miss = [a for a in SERIALISABLE["Column"] if a not in col]
    out.append(rec(f"{STATS}:get_dataframe_schema_statistics/struct.column_record_names_every_serialisable_attribute", not miss, str(sorted(col)), miss or None))
    idx = _dict_keys_in(s._get_series_base_schema_statistics)
    miss = [a for a in SERIALISABLE["Index"] if a not in idx]
    out.append(rec(f"{STATS}:_get_series_base_schema_statistics/struct.index_record_names_every_serialisable_attribute", not miss, str(sorted(idx)), miss or None))
    import pandera.io.pandas_io as m

    ser = _dict_keys_in(m.serialize_schema)
    miss = [a for a in SERIALISABLE["DataFrameSchema"] if a not in ser]
    out.append(rec(f"{IO}:serialize_schema/struct.names_every_serialisable_schema_attribute", not miss, str(sorted(ser)), miss or None))
    # deserialize_schema passes every one of them to the constructor under its own name, read from the key of the same name
    import textwrap

    tree = ast.parse(textwrap.dedent(inspect.getsource(m.deserialize_schema)))
    call = [n for n in ast.walk(tree) if isinstance(n, ast.Call) and isinstance(n.func, ast.Name) and n.func.id == "DataFrameSchema"]
    ok, wrong = len(call) == 1, []
    if ok:
        kws = {k.arg: k.value for k in call[0].keywords}
        for a in SERIALISABLE["DataFrameSchema"]:
            v = kws.get(a)
            if a in ("columns", "checks", "index"):
                good = isinstance(v, ast.Name) and v.id == a
            else:
                good = isinstance(v, ast.Call) and isinstance(v.func, ast.Attribute) and v.func.attr == "get" and v.args and \
                    isinstance(v.args[0], ast.Constant) and v.args[0].value == a
            if not good:
                wrong.append(a)
    out.append(rec(f"{IO}:deserialize_schema/struct.each_constructor_keyword_reads_the_key_of_its_own_name", ok and not wrong, "", wrong or None))
    # defaults used for absent keys are the constructor's own defaults
    if ok:
        import pandera

        sig = inspect.signature(pandera.DataFrameSchema.__init__)
        bad = []
        for a in SERIALISABLE["DataFrameSchema"]:
            v = kws.get(a)
            if isinstance(v, ast.Call) and len(v.args) == 2:
                try:
                    d = ast.literal_eval(v.args[1])
                except Exception:
                    bad.append(a)
                    continue
                if d != sig.parameters[a].default:
                    bad.append(a)
        out.append(rec(f"{IO}:deserialize_schema/struct.absent_keys_default_to_the_constructor_defaults", not bad, "", bad or None))
    return out


def constructors_store_serialisable_arguments():
    """the cut points of the round-trip contracts: Column / Index / MultiIndex / DataFrameSchema keep each serialisable keyword
    under the attribute of the same name (one distinctive value per keyword, the two values of each flag)"""
    import pandera as pa
    from pandera.engines import pandas_engine

    out = []
    chk = [pa.Check.in_range(1, 5, ignore_na=False)]

    def samples(ctor, kw):
        if kw == "dtype":
            return ["int64", "datetime64[ns]", None]
        if kw == "checks":
            return [chk, None]
        if kw in ("title", "description"):
            return ["some text", None]
        if kw == "name":
            return ["nm", None]
        if kw == "strict":
            return [True, False, "filter"]
        if kw == "unique" and ctor == "DataFrameSchema":
            return [["a"], None]
        if kw == "report_duplicates":
            return ["all", "exclude_first", "exclude_last"]
        if kw == "columns":
            return [{"a": pa.Column(int)}]
        if kw == "index":
            return [pa.Index(int, name="i"), None]
        if kw == "indexes":
            return [[pa.Index(int, name="x"), pa.Index(str, name="y")]]
        return [True, False]

    for ctor, kws in SERIALISABLE.items():
        cls = getattr(pa, ctor)
        bad = []
        for kw in kws:
            for v in samples(ctor, kw):
                base = {"indexes": [pa.Index(int, name="x")]} if ctor == "MultiIndex" else ({"columns": {"a": pa.Column(int)}} if ctor == "DataFrameSchema" and kw == "unique" else {})
                try:
                    with warnings.catch_warnings():
                        warnings.simplefilter("ignore")
                        o = cls(**{**base, kw: v})
                    got = getattr(o, kw)
                except Exception as e:  # noqa
                    bad.append((kw, repr(v), f"{type(e).__name__}: {e}"[:80]))
                    continue
                if kw == "dtype":
                    want = None if v is None else pandas_engine.Engine.dtype(v)
                elif kw == "checks":
                    want = v or []
                else:
                    want = v
                if kw == "columns":
                    # the container names its columns after their keys: same keys in order, same objects otherwise
                    if not (list(got) == list(v) and all(got[k].dtype == v[k].dtype for k in v)):
                        bad.append((kw, repr(v), repr(got)[:60]))
                    continue
                if not (got == want):
                    bad.append((kw, repr(v), repr(got)[:60]))
        out.append(rec(f"pandera:{ctor}/struct.stores_each_serialisable_argument_under_its_own_name", not bad, ",".join(kws), bad or None))
    return out


def builtin_check_statistics_are_keyed_by_parameter_names_and_json_valued():
    import pandas as pd

    import pandera as pa
    from contracts.C12_roundtrip import SHAPES
    from pyvc.theories.serial import json_kind

    sample = {"value": 3, "min_value": 1, "max_value": 5, "include_min": False, "include_max": True, "allowed_values": [1, 2], "forbidden_values": [3],
              "pattern": "^a", "string": "ab", "values": [1, 2]}
    out, badkeys, badvals = [], [], []
    for name, params in SHAPES.items():
        c = getattr(pa.Check, name)(**{p: sample[p] for p in params})
        if list(c.statistics) != params:
            badkeys.append((name, list(c.statistics)))
        for k, v in c.statistics.items():
            if json_kind(v) is None:
                badvals.append((name, k, type(v).__name__))
        # the statistics rebuild the check: Check.<name>(**statistics) is accepted
    out.append(rec("pandera.api.checks:Check/struct.statistics_keyed_by_constructor_parameter_names", not badkeys, f"{len(SHAPES)} built-in checks", badkeys or None))
    out.append(rec("pandera.api.checks:Check/struct.statistics_values_in_the_json_domain", not badvals,
                   "not representable: " + ", ".join(f"{n}.{k}: {t}" for n, k, t in badvals) if badvals else "all JSON", badvals or None))
    return out


def parse_checks_carries_every_json_option_of_check():
    import textwrap

    import pandera as pa
    import pandera.schema_statistics.pandas as s

    tree = ast.parse(textwrap.dedent(inspect.getsource(s.parse_checks)))
    carried = set()
    for n in ast.walk(tree):
        if isinstance(n, ast.Assign) and isinstance(n.targets[0], ast.Name) and n.targets[0].id == "check_options" and isinstance(n.value, ast.Dict):
            carried |= {k.value for k in n.value.keys if isinstance(k, ast.Constant)}
    sig = inspect.signature(pa.Check.__init__)
    json_options = [p for p in sig.parameters if p in ("ignore_na", "raise_warning", "n_failure_cases", "title", "description", "error", "name", "element_wise")]
    missing = [p for p in json_options if p not in carried and p != "name"]  # the name is the record key
    return [
        rec(f"{STATS}:parse_checks/struct.carries_the_three_documented_options", {"ignore_na", "raise_warning", "n_failure_cases"} <= carried, str(sorted(carried))),
        rec(f"{STATS}:parse_checks/struct.carries_every_json_valued_check_option", not missing,
            "not carried: " + ",".join(missing) if missing else "all", missing or None),
    ]


STRUCTURAL = [theory_axioms_hold_natively, script_templates_are_constructor_calls_with_a_slot_per_argument,
              statistics_records_name_every_serialisable_attribute, constructors_store_serialisable_arguments,
              builtin_check_statistics_are_keyed_by_parameter_names_and_json_valued, parse_checks_carries_every_json_option_of_check]
