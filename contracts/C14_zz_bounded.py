"""C14 - bounded end-to-end leg (never counted as proof).

What the deductive contracts leave to assumptions is exercised here on the REAL code over generated frames:
  * A-compare / A-float / A-minmax / A-cat (pandas and numpy semantics), A-ctor (Column / Index / MultiIndex /
    DataFrameSchema / SeriesSchema accept and store the inferred arguments), coerce=True to the inferred dtype keeps the
    values, the value-level adequacy of _get_array_type (pd.api.types.infer_dtype on object columns), A-yaml and the
    text level of to_yaml / from_yaml.
Run-time contract (the property itself): infer_schema(D) does not raise; validate(D) succeeds and returns equal values;
for every ordered column the minimum and maximum meet the inferred bounds with equality; from_yaml(to_yaml(schema))
gives the same verdict.  Bound: frames of <= 6 rows x <= 4 columns, see `_frames`.
Inputs that fall in the class of an OPEN known finding (`bounded_tag` in known_findings.json) are left to that
finding's replay script.
"""
import json
import os

from pyvc.core import Unsupported
from pyvc.spec import Contract

HERE = os.path.dirname(os.path.dirname(os.path.abspath(__file__)))


def _open_tags():
    try:
        fs = json.load(open(os.path.join(HERE, "known_findings.json")))["findings"]
    except Exception:
        return set()
    return {f["bounded_tag"] for f in fs if f.get("property") == "C14" and f.get("status", "open") == "open" and f.get("bounded_tag")}


def _column(rng, n, kind):
    """-> (pandas array-like of length n, set of tags)"""
    import numpy as np
    import pandas as pd

    tags = set()
    null = lambda: rng.random() < 0.25
    if kind == "int64":
        pool = [0, 1, -1, 7, 2**53 + 1, 2**53 + 3, -(2**53) - 1, 2**63 - 1, -(2**63)]
        return pd.Series([rng.choice(pool) for _ in range(n)], dtype="int64"), tags
    if kind == "uint8":
        return pd.Series([rng.choice([0, 1, 255, 17]) for _ in range(n)], dtype="uint8"), tags
    if kind == "Int64":
        return pd.Series([None if null() else rng.choice([0, -5, 2**53 + 1, 2**62]) for _ in range(n)], dtype="Int64"), tags
    if kind == "float64":
        pool = [0.0, -0.0, 1.5, -2.25, 0.1 + 0.2, 1e308, -1e308, 5e-324, float("inf"), float("-inf")]
        return pd.Series([np.nan if null() else rng.choice(pool) for _ in range(n)], dtype="float64"), tags
    if kind == "float32":
        return pd.Series([np.nan if null() else rng.choice([0.1, 0.2, -3.5, 1e30]) for _ in range(n)], dtype="float32"), tags
    if kind == "float128":
        ld = np.longdouble
        tags.add("float128")
        return pd.Series(np.array([rng.choice([ld(3) - 4 * np.finfo(ld).epsneg, ld(3) + 4 * np.finfo(ld).eps, ld(1)]) for _ in range(n)], dtype=ld)), tags
    if kind == "complex":
        tags.add("complex")
        return pd.Series([rng.choice([1 + 2j, 3j, 2 + 0j]) for _ in range(n)], dtype="complex128"), tags
    if kind == "bool":
        return pd.Series([rng.random() < 0.5 for _ in range(n)], dtype="bool"), tags
    if kind == "boolean":
        return pd.Series([None if null() else rng.random() < 0.5 for _ in range(n)], dtype="boolean"), tags
    if kind == "str":
        s = pd.Series([None if null() else rng.choice(["a", "b", "", "zz"]) for _ in range(n)], dtype=object)
        if n == 0:
            tags.add("empty-object-array")
        return s, tags
    if kind == "string":
        return pd.Series([None if null() else rng.choice(["a", "b", ""]) for _ in range(n)], dtype="string"), tags
    if kind == "category":
        vals = [None if null() else rng.choice(["x", "y", "z"]) for _ in range(n)]
        return pd.Series(pd.Categorical(vals, categories=["x", "y", "z", "unused"])), tags
    if kind in ("datetime", "datetime-subsecond", "datetime-tz"):
        pool = ["2020-01-01 00:00:00", "1999-12-31 23:59:59", "2262-04-11 23:47:16", "1677-09-22 00:12:44"]
        if kind == "datetime-subsecond":
            pool = pool + ["2020-01-01 00:00:00.250", "2021-06-01 12:00:01.500000001"]
        s = pd.Series(pd.to_datetime([None if null() else rng.choice(pool) for _ in range(n)], format="mixed"), dtype="datetime64[ns]")
        if kind == "datetime-tz":
            s = s.dt.tz_localize("UTC")
            tags.add("tz-aware-datetime")
        if s.notna().any() and s.max().value % 1_000_000_000:
            tags.add("subsecond-datetime-max")
        return s, tags
    if kind == "timedelta":
        return pd.Series(pd.to_timedelta([None if null() else rng.choice(["1D", "2h", "-3s"]) for _ in range(n)])), tags
    if kind == "all-null-float":
        return pd.Series([np.nan] * n, dtype="float64"), tags
    if kind == "all-none-object":
        s = pd.Series([None] * n, dtype=object)
        if n == 0:
            tags.add("empty-object-array")
        return s, tags
    raise ValueError(kind)


KINDS = ["int64", "uint8", "Int64", "float64", "float32", "float128", "complex", "bool", "boolean", "str", "string", "category", "datetime",
         "datetime-subsecond", "datetime-tz", "timedelta", "all-null-float", "all-none-object"]
RARE_KINDS = ["float128", "complex", "datetime-subsecond", "datetime-tz"]  # classes of open findings: kept, but rare
INDEX_KINDS = ["range", "int64", "str", "float64", "datetime", "datetime-subsecond", "category", "multi"]


def _frames(rng, n_cases):
    import pandas as pd

    for case in range(n_cases):
        n = rng.choice([0, 1, 1, 2, 2, 3, 3, 4, 6, 6])
        ncols = rng.choice([0] + [1, 2, 3, 4] * 4)
        tags = set()
        cols = {}
        for c in range(ncols):
            kind = rng.choice(RARE_KINDS) if rng.random() < 0.06 else rng.choice([k for k in KINDS if k not in RARE_KINDS])
            s, t = _column(rng, n, kind)
            cols[f"c{c}_{kind}"] = s
            tags |= t
        ik = rng.choice(INDEX_KINDS)
        if ik == "datetime-subsecond" and rng.random() < 0.8:
            ik = "datetime"
        if ik == "range":
            idx = pd.RangeIndex(n)
        elif ik == "multi":
            a, t1 = _column(rng, n, rng.choice(["int64", "float64", "str", "datetime"]))
            b, t2 = _column(rng, n, rng.choice(["str", "int64", "category"]))
            tags |= t1 | t2
            idx = pd.MultiIndex.from_arrays([a, b], names=rng.choice([["k1", "k2"], [None, None]]))
        else:
            s, t = _column(rng, n, ik)
            tags |= t
            idx = pd.Index(s, name=rng.choice([None, "idx"]))
        df = pd.DataFrame({k: v.to_numpy() if False else v.values for k, v in cols.items()}, index=idx)
        if ncols == 0:
            tags.add("frame-without-columns")
        yield df, tags
        if ncols and rng.random() < 0.3:  # the Series leg
            name = rng.choice(list(cols))
            yield df[name], tags


def _equal_values(a, b):
    import pandas as pd

    if isinstance(a, pd.Series):
        a, b = a.to_frame("s"), b.to_frame("s")
    if list(a.columns) != list(b.columns) or len(a) != len(b) or not a.index.equals(b.index):
        return False
    for c in a.columns:
        x, y = a[c], b[c]
        if not (x.isna() == y.isna()).all():
            return False
        m = x.notna()
        if not (x[m].astype(object).reset_index(drop=True) == y[m].astype(object).reset_index(drop=True)).all():
            return False
    return True


def _violation(obj):
    """None when the C14 run-time contract holds for obj, else a description"""
    import warnings

    import pandas as pd

    import pandera as pa
    from pandera.io import from_yaml, to_yaml

    warnings.filterwarnings("ignore")
    try:
        schema = pa.infer_schema(obj)
    except Exception as e:
        return f"infer_schema raised {type(e).__name__}: {str(e)[:120]}"
    try:
        out = schema.validate(obj.copy())
    except Exception as e:
        return f"inferred schema rejects its data: {type(e).__name__}: {str(e).splitlines()[0][:160]}"
    if not _equal_values(obj, out):
        return "validate returned different values"
    comps = {None: schema} if isinstance(obj, pd.Series) else dict(schema.columns)
    for name, comp in comps.items():
        col = obj if name is None else obj[name]
        stats = {c.name: c.statistics for c in (comp.checks or [])}
        if "greater_than_or_equal_to" in stats:
            lo, hi = stats["greater_than_or_equal_to"]["min_value"], stats["less_than_or_equal_to"]["max_value"]
            if not ((col == lo).any() and (col == hi).any()):
                return f"bounds of {name!r} are not tight: [{lo}, {hi}] vs data [{col.min()}, {col.max()}]"
    if isinstance(obj, pd.DataFrame):
        try:
            back = from_yaml(to_yaml(schema))
        except Exception as e:
            return f"inferred schema does not survive serialisation: {type(e).__name__}: {str(e)[:140]}"
        try:
            out2 = back.validate(obj.copy())
        except Exception as e:
            return f"schema after yaml round trip rejects the data: {type(e).__name__}: {str(e).splitlines()[0][:160]}"
        if not _equal_values(obj, out2):
            return "validate after the yaml round trip returned different values"
    return None


def end_to_end_standin(seed=0, tier="quick"):
    import random

    rng = random.Random(seed)
    n_cases = 250 if tier == "quick" else 4000
    bound = f"{n_cases} generated frames (+ Series) of <= 6 rows x <= 4 columns over {len(KINDS)} column kinds and {len(INDEX_KINDS)} index kinds, extreme values included"
    skip = _open_tags()
    examples = left_to_replays = 0
    for obj, tags in _frames(rng, n_cases):
        if tags & skip:
            left_to_replays += 1
            continue
        examples += 1
        v = _violation(obj)
        if v is not None:
            desc = {"kind": type(obj).__name__, "dtypes": {str(k): str(t) for k, t in (obj.dtypes.items() if hasattr(obj.dtypes, "items") else [(obj.name, obj.dtype)])},
                    "index": type(obj.index).__name__, "data": obj.to_string()[:1500], "python": repr(obj.to_dict())[:3000]}
            return {"examples": examples, "bound": bound, "failing_input": desc, "observed": v, "inputs_left_to_known_finding_replays": left_to_replays}
    return {"examples": examples, "bound": bound, "failing_input": None, "inputs_left_to_known_finding_replays": left_to_replays, "open_finding_classes_skipped": sorted(skip)}


class EndToEnd(Contract):
    """infer_schema -> validate -> to_yaml -> from_yaml -> validate on the real code.  The text level of YAML, the live
    schema classes and the validation machinery are outside PyVC's subset (they are C12 / C01-C06's own subjects), so this
    contract is checked at run time only (bounded)."""

    target = "pandera.io.pandas_io:to_yaml"
    params = dict(dataframe_schema=None, stream=None)

    def setup(self, I):
        raise Unsupported("text-level YAML, live schema construction and validate are outside the subset: end-to-end leg is bounded")

    bounded_standin = staticmethod(end_to_end_standin)


CONTRACTS = [EndToEnd]
