"""C01 / C19 / C11 (pandas check back end): from `check(check_obj, column)` to the CheckResult - every step between the schema back
end's `run_check` (RunCheck: "the verdict is the check's verdict") and the field contracts (PreprocessField / ApplyField /
PostprocessField) is under contract, so that "accepted" implies "the check FUNCTION was evaluated on the data and returned true
everywhere (nulls aside, under ignore_na)".

Check.__call__                       post.backend_of_the_objects_type_called_once_with_object_and_column / result is the backend's result
PandasCheckBackend.__call__          post.pipeline: preprocess(check_obj, key) -> apply(preprocessed) -> postprocess(preprocessed, output),
                                     each exactly once, the result of the last returned
PandasCheckBackend.preprocess        dispatch: Series -> preprocess_field(obj);  table, key None -> preprocess_table(obj);
                                     table, key -> preprocess_table_with_key(obj, key);  anything else NotImplementedError
PandasCheckBackend.apply             dispatch: dict -> apply_dict;  Series -> apply_field;  table -> apply_table;  else NotImplementedError
PandasCheckBackend.postprocess       dispatch over (kind(check_obj), kind(check_output)) - the 3 x 3 matrix, incl. the NotImplementedError cells
apply_dict / apply_table             the check function is called exactly once on the object (vectorised) / handed to DataFrame.apply(axis=1)
                                     (element-wise): no verdict without calling it
preprocess_table / _with_key         without groupby: the object itself / its column `key`, nulls dropped iff ignore_na (rows, values, order)
postprocess_table_with_field_output  reported output[i] = output[i] or (ignore_na and every column of row i is null); verdict = all(reported);
                                     failure cases are rows whose output is False
postprocess_dict_with_field_output / postprocess_bool     verdict = all(output) / the bool itself
postprocess_table (table output)     aligned output: contracts/C01_table_output.py (deductive).  Unaligned output / repeated labels: bounded stand-in, run-time contract on the
                                     real method, 3x2 frames over {1,-1,nan}: verdict == all((output | isna) cells), reported failure cases
                                     == the false cells
"""
import z3

from pandera.api.base.checks import CheckResult
from pyvc import core, types as T
from pyvc.core import And, Iff, Implies, Not, Or, PyExc, SAny, SBool, cur, py_eq
from pyvc.heap import DictObj, Obj
from pyvc.interp import OtherException
from pyvc.spec import Contract
from pyvc.theories import pandas_lite as PL
from pyvc.theories.pandas_lite import FrameVal, SeriesVal
from contracts.util import fld, fld0
from contracts.C19_check_options import backend, check_ref, install_groupby_head

CB = "pandera.backends.pandas.checks:PandasCheckBackend"
CHECK = "pandera.api.checks:Check"


def _recorder(I, names, ghost_key="step_calls"):
    """replace the named methods of PandasCheckBackend by recorders returning opaque tokens (their own contracts are separate)"""
    import pandera.backends.pandas.checks as C

    for nm in names:
        def m(I, self_obj, *args, _nm=nm, **kw):
            p = cur()
            tok = SAny(name=f"{_nm}.result")
            p.ghost.setdefault(ghost_key, []).append((_nm, self_obj, args, kw, tok))
            return tok

        I.models[id(getattr(C.PandasCheckBackend, nm))] = m


def _data(kind, name="check_obj"):
    if kind == "Series":
        return SeriesVal.fresh(name, "real")
    if kind == "DataFrame":
        return FrameVal.fresh(name)
    if kind == "dict":
        d = DictObj()
        d.name = name
        return d
    if kind == "bool":
        return T.fresh_value(T.Bool, name)
    return 5  # something that is neither a pandas object, a dict nor a bool


class BackendCall(Contract):
    target = f"{CB}.__call__"

    def setup(self, I):
        PL.install(I)
        _recorder(I, ["preprocess", "apply", "postprocess"])

    def make_args(self):
        return {"self": backend().fresh("self"), "check_obj": SAny(name="check_obj"), "key": T.fresh_value(T.Opt(T.Label), "key")}

    def call_target(self, I, fn, a):
        return I.call(fn, [a["self"], a["check_obj"], a["key"]], {})

    def ensures(self, result, old, self_, check_obj, key):
        calls = cur().ghost.get("step_calls", [])
        out = {"three_steps_in_order_each_once": [c[0] for c in calls] == ["preprocess", "apply", "postprocess"]}
        if not out["three_steps_in_order_each_once"]:
            return out
        pre, app, post = calls
        out["preprocess_gets_the_object_and_the_key"] = len(pre[2]) == 2 and pre[2][0] is check_obj and pre[2][1] is key and not pre[3]
        out["check_function_applied_to_the_preprocessed_object"] = len(app[2]) == 1 and app[2][0] is pre[4]
        out["postprocess_gets_the_preprocessed_object_and_the_output"] = len(post[2]) == 2 and post[2][0] is pre[4] and post[2][1] is app[4]
        out["returns_the_postprocessed_result"] = result is post[4]
        return out


class PreprocessDispatch(Contract):
    target = f"{CB}.preprocess"
    raises = (NotImplementedError,)
    split = {"kind": ["Series", "DataFrame", "other"], "key": ["none", "given"]}

    def setup(self, I):
        PL.install(I)
        _recorder(I, ["preprocess_field", "preprocess_table", "preprocess_table_with_key"])

    def make_args(self):
        key = None if self.fixed.get("key", "none") == "none" else T.fresh_value(T.Label, "key")
        return {"self": backend().fresh("self"), "check_obj": _data(self.fixed.get("kind", "Series")), "key": key}

    def call_target(self, I, fn, a):
        return I.call(fn, [a["self"], a["check_obj"], a["key"]], {})

    def ensures(self, result, old, self_, check_obj, key):
        calls = cur().ghost.get("step_calls", [])
        kind = self.fixed.get("kind", "Series")
        want = {"Series": ("preprocess_field", (check_obj,)), "DataFrame": ("preprocess_table", (check_obj,)) if key is None else ("preprocess_table_with_key", (check_obj, key))}.get(kind)
        out = {"unknown_objects_are_refused": want is not None}
        if want is None:
            return out
        out["exactly_the_preprocessor_of_the_objects_kind"] = len(calls) == 1 and calls[0][0] == want[0]
        if len(calls) == 1:
            got = tuple(calls[0][2]) + tuple(calls[0][3].get(k) for k in ("key",) if k in calls[0][3])
            out["with_the_object_and_key_given"] = len(got) == len(want[1]) and all(g is w for g, w in zip(got, want[1]))
            out["its_result_returned"] = result is calls[0][4]
        return out

    def on_raise(self, exc, old, self_, check_obj, key):
        if exc.cls is not NotImplementedError:
            return {}
        return {"not_implemented_only_for_unknown_objects": self.fixed.get("kind") == "other" and not cur().ghost.get("step_calls")}


class ApplyDispatch(Contract):
    target = f"{CB}.apply"
    raises = (NotImplementedError,)
    split = {"kind": ["Series", "DataFrame", "dict", "other"]}

    def setup(self, I):
        PL.install(I)
        _recorder(I, ["apply_dict", "apply_field", "apply_table"])

    def make_args(self):
        return {"self": backend().fresh("self"), "check_obj": _data(self.fixed.get("kind", "Series"))}

    def call_target(self, I, fn, a):
        return I.call(fn, [a["self"], a["check_obj"]], {})

    def ensures(self, result, old, self_, check_obj):
        calls = cur().ghost.get("step_calls", [])
        want = {"Series": "apply_field", "DataFrame": "apply_table", "dict": "apply_dict"}.get(self.fixed.get("kind", "Series"))
        out = {"unknown_objects_are_refused": want is not None}
        if want is None:
            return out
        out["exactly_the_applier_of_the_objects_kind"] = len(calls) == 1 and calls[0][0] == want
        if len(calls) == 1:
            out["on_the_object_given"] = len(calls[0][2]) == 1 and calls[0][2][0] is check_obj and not calls[0][3]
            out["its_output_returned"] = result is calls[0][4]
        return out

    def on_raise(self, exc, old, self_, check_obj):
        if exc.cls is not NotImplementedError:
            return {}
        return {"not_implemented_only_for_unknown_objects": self.fixed.get("kind") == "other" and not cur().ghost.get("step_calls")}


POST_MATRIX = {
    ("Series", "Series"): "postprocess_field", ("DataFrame", "DataFrame"): "postprocess_table", ("DataFrame", "Series"): "postprocess_table_with_field_output",
    ("Series", "bool"): "postprocess_table_or_field_with_bool_output", ("DataFrame", "bool"): "postprocess_table_or_field_with_bool_output",
    ("dict", "Series"): "postprocess_dict_with_field_output", ("dict", "bool"): "postprocess_bool",
    ("Series", "DataFrame"): None, ("dict", "DataFrame"): None, ("Series", "other"): None, ("DataFrame", "other"): None, ("dict", "other"): None,
}


class PostprocessDispatch(Contract):
    target = f"{CB}.postprocess"
    raises = (NotImplementedError,)
    split = {"obj": ["Series", "DataFrame", "dict"], "out": ["Series", "DataFrame", "bool", "other"]}

    def setup(self, I):
        PL.install(I)
        _recorder(I, sorted({v for v in POST_MATRIX.values() if v}))

    def make_args(self):
        return {"self": backend().fresh("self"), "check_obj": _data(self.fixed.get("obj", "Series")), "check_output": _data(self.fixed.get("out", "Series"), "check_output")}

    def call_target(self, I, fn, a):
        return I.call(fn, [a["self"], a["check_obj"], a["check_output"]], {})

    def ensures(self, result, old, self_, check_obj, check_output):
        calls = cur().ghost.get("step_calls", [])
        want = POST_MATRIX[(self.fixed.get("obj", "Series"), self.fixed.get("out", "Series"))]
        out = {"unsupported_output_kinds_are_refused": want is not None}
        if want is None:
            return out
        out["exactly_the_postprocessor_of_the_object_and_output_kinds"] = len(calls) == 1 and calls[0][0] == want
        if len(calls) == 1:
            out["on_the_object_and_output_given"] = len(calls[0][2]) == 2 and calls[0][2][0] is check_obj and calls[0][2][1] is check_output and not calls[0][3]
            out["its_result_returned"] = result is calls[0][4]
        return out

    def on_raise(self, exc, old, self_, check_obj, check_output):
        if exc.cls is not NotImplementedError:
            return {}
        return {"not_implemented_only_for_unsupported_kinds": POST_MATRIX[(self.fixed.get("obj"), self.fixed.get("out"))] is None and not cur().ghost.get("step_calls")}


class ApplyTable(Contract):
    """no verdict without calling the check function: vectorised -> f(table) once; element-wise -> table.apply(f, axis=1)"""

    target = f"{CB}.apply_table"
    raises = (OtherException,)
    split = {"kind": ["DataFrame"]}

    def setup(self, I):
        PL.install(I)

    def make_args(self):
        import pandera.backends.pandas.checks as C

        be = T.Ref(C.PandasCheckBackend, check=check_ref(), check_fn=T.Callback(T.Any)).fresh("self")
        return {"self": be, "check_obj": _data(self.fixed.get("kind", "DataFrame"))}

    def call_target(self, I, fn, a):
        return I.call(fn, [a["self"], a["check_obj"]], {})

    def ensures(self, result, old, self_, check_obj):
        ew = fld0(fld0(self_, "check"), "element_wise")
        cb = fld0(self_, "check_fn")
        if cur().ghost["interp"].truth(ew):
            rm = getattr(result, "row_map", None)
            return {"rows_mapped_through_the_check_function": rm is not None and rm[0] is check_obj and rm[1] is cb and rm[2] in (1, "columns"),
                    "not_called_on_the_whole_table": len(cb.calls) == 0}
        return {"vectorised_call_on_the_object": len(cb.calls) == 1 and len(cb.calls[0][0]) == 1 and cb.calls[0][0][0] is check_obj and not cb.calls[0][1],
                "its_output_returned": any(e[0] == "callback" for e in cur().events) and isinstance(result, SAny)}

    def on_raise(self, exc, old, self_, check_obj):
        return {"only_the_check_function_raises": exc.attrs.get("__from_callback__") is not None}


class ApplyDict(ApplyTable):
    target = f"{CB}.apply_dict"
    split = {"kind": ["dict"]}

    def ensures(self, result, old, self_, check_obj):
        cb = fld0(self_, "check_fn")
        return {"called_once_on_the_groups": len(cb.calls) == 1 and len(cb.calls[0][0]) == 1 and cb.calls[0][0][0] is check_obj and not cb.calls[0][1],
                "its_output_returned": isinstance(result, SAny)}


class PreprocessTable(Contract):
    target = f"{CB}.preprocess_table"

    def setup(self, I):
        PL.install(I)

    def make_args(self):
        return {"self": backend().fresh("self"), "check_obj": FrameVal.fresh("check_obj")}

    def call_target(self, I, fn, a):
        return I.call(fn, [a["self"], a["check_obj"]], {})

    def ensures(self, result, old, self_, check_obj):
        return {"whole_table_checked_without_groupby": result is check_obj}


class PreprocessTableWithKey(Contract):
    """the column `key` of the table; ignore_na: nulls dropped (other rows kept unchanged, in order)"""

    target = f"{CB}.preprocess_table_with_key"

    def setup(self, I):
        PL.install(I)

    def make_args(self):
        return {"self": backend().fresh("self"), "check_obj": FrameVal.fresh("check_obj"), "key": T.fresh_value(T.Label, "key")}

    def requires(self, self_, check_obj, key):
        return check_obj.has_col(key)  # call sites: ColumnBackend checks are run on frames that hold the column

    def call_target(self, I, fn, a):
        return I.call(fn, [a["self"], a["check_obj"], a["key"]], {})

    def ensures(self, result, old, self_, check_obj, key):
        ign = fld0(fld0(self_, "check"), "ignore_na")
        col = check_obj.col_fn(key)
        i = z3.Int(cur().fresh_name("row"))
        out = {"is_a_view_of_the_tables_rows": isinstance(result, SeriesVal) and result.space is check_obj.space}
        if not out["is_a_view_of_the_tables_rows"]:
            return out
        keep = z3.If(core.as_z3_bool(ign), z3.And(check_obj.sel(i), z3.Not(col.null(i))), check_obj.sel(i))
        out["rows"] = SBool(result.sel(i) == keep)
        out["values_are_the_key_columns"] = SBool(z3.Implies(result.sel(i), z3.And(core.as_z3_bool(py_eq(result.at(i), col.at(i))), result.null(i) == col.null(i))))
        out["no_null_shown_when_ignore_na"] = SBool(z3.Implies(z3.And(core.as_z3_bool(ign), result.sel(i)), z3.Not(result.null(i))))
        return out


class PostprocessTableWithFieldOutput(Contract):
    target = f"{CB}.postprocess_table_with_field_output"
    split = {"index": ["same", "other"]}

    def setup(self, I):
        PL.install(I)
        install_groupby_head(I)

    def make_args(self):
        obj = FrameVal.fresh("check_obj")
        if self.fixed.get("index", "same") == "same":
            out = SeriesVal.fresh("check_output", "bool", nullable=False, space=obj.space).derive(sel=obj._sel)
        else:
            out = SeriesVal.fresh("check_output", "bool", nullable=False)
            out.foreign_index = True  # (equal indexes are the 'same' case)
        out.dtype_ = bool
        return {"self": backend().fresh("self"), "check_obj": obj, "check_output": out}

    def call_target(self, I, fn, a):
        return I.call(fn, [a["self"], a["check_obj"], a["check_output"]], {})

    def ensures(self, result, old, self_, check_obj, check_output):
        ign = core.as_z3_bool(fld0(fld0(self_, "check"), "ignore_na"))
        nfc = fld0(fld0(self_, "check"), "n_failure_cases")
        out = {"is_check_result": isinstance(result, Obj) and result.cls is CheckResult}
        rep = result.attrs["check_output"]
        passed = result.attrs["check_passed"]
        out["checked_object_is_the_table"] = result.attrs["checked_object"] is check_obj
        out["reports_a_series"] = isinstance(rep, SeriesVal)
        if not isinstance(rep, SeriesVal):
            return out
        i = z3.Int(cur().fresh_name("row"))
        core.register_model_var("row", i)
        raw = core.as_z3_bool(check_output.at(i))
        if self.fixed.get("index", "same") == "same":
            # Check(ignore_na=True): "For dataframes, ignores rows with any null value" (the documentation of the option)
            out["rows_with_a_null_value_are_ignored_under_ignore_na"] = SBool(z3.Implies(check_obj.sel(i), core.as_z3_bool(rep.at(i)) == z3.Or(raw, z3.And(ign, check_obj.row_any_null(i)))))
            out["reported_over_the_tables_rows"] = SBool(rep.sel(i) == check_obj.sel(i))
            fc = result.attrs["failure_cases"]
            failing = z3.And(check_obj.sel(i), z3.Not(core.as_z3_bool(rep.at(i))))
            if fc is None:
                out["no_failure_cases_only_when_passed"] = Iff(passed, True)
            else:
                out["failure_cases_are_failing_rows"] = SBool(z3.Implies(fc.sel(i), failing))
                if nfc is None:
                    out["all_failing_rows_reported_without_truncation"] = SBool(z3.Implies(failing, fc.sel(i)))
        else:
            out["output_over_other_rows_reported_as_is"] = rep is check_output or SBool(z3.Implies(check_output.sel(i), core.as_z3_bool(rep.at(i)) == raw))
        out["verdict_is_all_of_the_reported_output"] = Iff(passed, rep.all())
        return out


class PostprocessDictWithFieldOutput(Contract):
    target = f"{CB}.postprocess_dict_with_field_output"

    def setup(self, I):
        PL.install(I)

    def make_args(self):
        out = SeriesVal.fresh("check_output", "bool", nullable=False)
        return {"self": backend().fresh("self"), "check_obj": _data("dict"), "check_output": out}

    def call_target(self, I, fn, a):
        return I.call(fn, [a["self"], a["check_obj"], a["check_output"]], {})

    def ensures(self, result, old, self_, check_obj, check_output):
        return {"verdict_is_all_of_output": Iff(result.attrs["check_passed"], check_output.all()), "output_reported_as_is": result.attrs["check_output"] is check_output,
                "checked_object_is_the_groups": result.attrs["checked_object"] is check_obj, "no_failure_cases": result.attrs["failure_cases"] is None}


class PostprocessPlainBool(Contract):
    target = f"{CB}.postprocess_bool"

    def setup(self, I):
        PL.install(I)

    def make_args(self):
        return {"self": backend().fresh("self"), "check_obj": _data("dict"), "check_output": T.fresh_value(T.Bool, "check_output")}

    def call_target(self, I, fn, a):
        return I.call(fn, [a["self"], a["check_obj"], a["check_output"]], {})

    def ensures(self, result, old, self_, check_obj, check_output):
        return {"verdict_is_the_bool": Iff(result.attrs["check_passed"], check_output), "checked_object_is_the_groups": result.attrs["checked_object"] is check_obj,
                "no_failure_cases": result.attrs["failure_cases"] is None}


class CheckCall(Contract):
    """Check.__call__(check_obj, column): the back end registered for the object's type, built on THIS check, called once with the
    object and the column; its result returned.  The check FUNCTION is the user's own function, whatever the check is called
    (`name` only names: C19) - only the dispatcher of a built-in check may be refreshed from the registry, by the entry of its name."""

    target = f"{CHECK}.__call__"
    raises = (KeyError,)
    split = {"fn": ["user_function", "builtin_dispatcher"], "name": ["none", "given"]}

    def setup(self, I):
        PL.install(I)

    def make_args(self):
        from pandera.api.function_dispatch import Dispatcher

        be_result = T.Lazy(lambda n: SAny(name=n))
        be_cls = T.Callback(T.Callback(be_result, raises=False), raises=False)  # get_backend(obj) -> class; class(check) -> backend; backend(obj, col) -> result
        user = self.fixed.get("fn", "user_function") == "user_function"
        fn0 = T.Callback(T.Any).fresh("user_check_fn") if user else Obj(Dispatcher, "dispatcher_at_entry", pre=True)
        registry_entry = Obj(Dispatcher, "registry_entry", pre=True)
        for d in ([] if user else [fn0]) + [registry_entry]:
            # the built-in check whose implementations the dispatcher holds (Dispatcher.register: the name of the registered function)
            d.attrs["_name"] = "isin"
            d.attrs0["_name"] = "isin"
        name = None if self.fixed.get("name", "none") == "none" else T.fresh_value(T.Str, "name")
        chk = T.Ref(None, get_backend=T.Callback(be_cls, raises=True), is_builtin_check=T.Callback(T.Bool, raises=False),
                    get_builtin_check_fn=T.Callback(T.Lazy(lambda n: registry_entry), raises=False)).fresh("check")
        for a, v in (("name", name), ("_check_fn", fn0)):
            chk.attrs[a] = v
            chk.attrs0[a] = v
        cur().ghost.update(fn0=fn0, registry_entry=registry_entry)
        return {"self": chk, "check_obj": SAny(name="check_obj"), "column": T.fresh_value(T.Opt(T.Label), "column")}

    def modifies(self, self_, check_obj, column):
        return [(self_, "_check_fn")]  # (what it may become is the post below)

    def call_target(self, I, fn, a):
        I.callback_raise_classes = [KeyError]
        return I.call(fn, [a["self"], a["check_obj"], a["column"]], {})

    def _fn_posts(self, self_):
        g = cur().ghost
        now = fld(self_, "_check_fn")
        if self.fixed.get("fn", "user_function") == "user_function":
            return {"a_user_function_is_never_replaced_whatever_the_name": now is g["fn0"]}
        asked = fld0(self_, "get_builtin_check_fn").calls
        # the registry is keyed by the name of the BUILT-IN CHECK; what the user called this Check (`name=`) only names it - a check
        # `Check.isin([...], name="equal_to")` keeps checking membership
        return {"a_dispatcher_is_refreshed_only_by_the_registry_entry_of_the_builtin_it_implements":
                now is g["fn0"] or (now is g["registry_entry"] and len(asked) == 1 and core.as_z3_bool(py_eq(asked[0][0][0], "isin")) is not None
                                    and bool(z3.is_true(z3.simplify(core.as_z3_bool(py_eq(asked[0][0][0], "isin")))) if not isinstance(asked[0][0][0], str) else asked[0][0][0] == "isin"))}

    def ensures(self, result, old, self_, check_obj, column):
        gb = fld0(self_, "get_backend")
        ev = [e for e in cur().events if e[0] == "callback" and e[1].split(".")[-1].split("#")[0] not in ("is_builtin_check", "get_builtin_check_fn")]
        names = [e[1] for e in ev]
        out = {"backend_looked_up_once_for_the_object": len(gb.calls) == 1 and len(gb.calls[0][0]) == 1 and gb.calls[0][0][0] is check_obj}
        out["three_calls_in_a_chain"] = len(ev) == 3
        if len(ev) == 3:
            out["backend_built_on_this_check"] = len(ev[1][3]) == 1 and ev[1][3][0] is self_
            out["backend_called_with_the_object_and_the_column"] = len(ev[2][3]) == 2 and ev[2][3][0] is check_obj and ev[2][3][1] is column
            out["chained"] = names[1].startswith(names[0]) and names[2].startswith(names[1])
        out["returns_the_backends_result"] = isinstance(result, SAny)
        out.update(self._fn_posts(self_))
        return out

    def on_raise(self, exc, old, self_, check_obj, column):
        out = {"only_the_backend_lookup_raises": exc.attrs.get("__from_callback__") is not None}
        out.update(self._fn_posts(self_))
        return out


# ---- bounded stand-in for postprocess_table (table-shaped output) -----------------------------------------------
def _postprocess_table_standin(seed=0, tier="quick"):
    import itertools
    import warnings

    import numpy as np
    import pandas as pd
    import pandera as pa
    from pandera.backends.pandas.checks import PandasCheckBackend

    warnings.simplefilter("ignore")
    vals = [1.0, -1.0, np.nan]
    bound = "3x2 float frames over {1,-1,nan}; ignore_na in {True,False}; n_failure_cases in {None,1}; default and repeated row labels"
    n = 0
    for cells in itertools.product(vals, repeat=6):
        for idx in ([0, 1, 2], [0, 0, 1]):
            df = pd.DataFrame({"a": cells[:3], "b": cells[3:]}, index=idx)
            for ign in (True, False):
                for nfc in (None, 1):
                    n += 1
                    be = PandasCheckBackend(pa.Check(lambda d: d > 0, ignore_na=ign, n_failure_cases=nfc))
                    raw = df > 0
                    try:
                        res = be.postprocess_table(df, raw)
                    except Exception as e:  # noqa: BLE001
                        if len(set(idx)) < 3:
                            continue  # repeated labels: the groupby("index") re-shaping is not defined; not part of this contract
                        return {"examples": n, "bound": bound, "failing_input": {"a": list(cells[:3]), "b": list(cells[3:]), "index": idx, "ignore_na": ign},
                                "observed": f"{type(e).__name__}: {e}"[:200]}
                    want_out = (raw | df.isna()) if ign else raw
                    want = bool(want_out.all(axis=None))
                    if bool(res.check_passed) != want or not res.check_output.equals(want_out):
                        return {"examples": n, "bound": bound, "failing_input": {"a": list(cells[:3]), "b": list(cells[3:]), "index": idx, "ignore_na": ign, "n_failure_cases": nfc},
                                "observed": {"check_passed": bool(res.check_passed), "expected": want}}
                    if nfc is None and len(set(idx)) == 3:
                        # every non-null false cell is reported
                        want_cells = sorted((r, c) for c in ("a", "b") for r in idx if not want_out.loc[r, c] and not pd.isna(df.loc[r, c]))
                        got_cells = sorted((r, c) for r, row in res.failure_cases.iterrows() for c in (row["failure_case"] or {})) if len(res.failure_cases) else []
                        if want_cells != got_cells:
                            return {"examples": n, "bound": bound, "failing_input": {"a": list(cells[:3]), "b": list(cells[3:]), "index": idx, "ignore_na": ign},
                                    "observed": {"failure cells": got_cells, "expected": want_cells}}
    return {"examples": n, "bound": bound, "failing_input": None}


class PostprocessTable(Contract):
    """table-shaped output NOT aligned with the table (or repeated labels): decided by the bounded stand-in only; the aligned case is
    contracts/C01_table_output.py"""

    target = f"{CB}.postprocess_table"

    def setup(self, I):
        PL.install(I)

    def make_args(self):
        obj = FrameVal.fresh("check_obj")
        return {"self": backend().fresh("self"), "check_obj": obj, "check_output": FrameVal.fresh("check_output")}

    def call_target(self, I, fn, a):
        self.ensures(None, None, None, None, None)

    def ensures(self, result, old, self_, check_obj, check_output):
        raise core.Unsupported("table-shaped check output over OTHER rows than the table's, or under repeated row labels: bounded stand-in only "
                               "(an output aligned with the table is decided by C01_table_output.PostprocessTableCells)")

    bounded_standin = staticmethod(_postprocess_table_standin)


CONTRACTS = [CheckCall, BackendCall, PreprocessDispatch, ApplyDispatch, PostprocessDispatch, ApplyTable, ApplyDict, PreprocessTable, PreprocessTableWithKey,
             PostprocessTableWithFieldOutput, PostprocessDictWithFieldOutput, PostprocessPlainBool, PostprocessTable]
