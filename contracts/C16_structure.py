"""C16 - structural obligations: finite, exhaustive, decided checks over live program structure (class lattice,
constructor signatures, AST shape of the option table in to_schema, validate forwarding)."""
import ast
import inspect
import textwrap

DM = "pandera.api.dataframe.model:DataFrameModel"


def _backends():
    import pandera.api.pandas.container as ppc
    import pandera.api.pandas.model as ppm
    import pandera.api.polars.container as plc
    import pandera.api.polars.model as plm

    return {"pandas": (ppm.DataFrameModel, ppc.DataFrameSchema), "polars": (plm.DataFrameModel, plc.DataFrameSchema)}


def _option_table():
    """{keyword: source text of its value} of the `kwargs = {...}` dict literal in to_schema"""
    from pandera.api.dataframe.model import DataFrameModel

    tree = ast.parse(textwrap.dedent(inspect.getsource(DataFrameModel.to_schema.__func__)))
    tables = [n for n in ast.walk(tree) if isinstance(n, ast.Assign) and isinstance(n.value, ast.Dict) and n.value.keys
              and any(isinstance(t, ast.Name) and t.id == "kwargs" for t in n.targets)]
    assert len(tables) == 1, "to_schema no longer has exactly one option table"
    d = tables[0].value
    return {k.value: ast.unparse(v) for k, v in zip(d.keys, d.values)}


def config_options_reach_the_schema():
    """For both back ends: every public Config option that the object API offers under the same name (a parameter of
    DataFrameSchema.__init__) is forwarded by to_schema, from the config attribute of the same name; and nothing is forwarded
    that the schema constructor does not accept.  ("Config options ... validate exactly like the object-API schema with the
    same ... options"; M.to_schema() == build_schema(s).)"""
    from pandera.api.dataframe.model import _CONFIG_OPTIONS
    from pandera.api.dataframe.model_config import BaseConfig

    table = _option_table()
    recs = []
    for be, (model, schema) in sorted(_backends().items()):
        params = set(inspect.signature(schema.__init__).parameters) - {"self", "columns", "checks", "parsers", "index"}
        cfg = model.Config
        public = [o for o in vars(BaseConfig) if not o.startswith("_")]
        recs.append({"oid": f"{DM}.to_schema/struct.config_option_list_is_the_public_config_api", "ok": sorted(public) == sorted(_CONFIG_OPTIONS), "note": f"{be}: _CONFIG_OPTIONS == public attributes of BaseConfig",
                     "witness": {"missing": sorted(set(public) - set(_CONFIG_OPTIONS))}})
        for opt in sorted(set(public) & params):
            src = table.get(opt)
            ok = src is not None and (src == f"cls.__config__.{opt}" or (opt == "description" and src == "cls.__config__.description or cls.__doc__"))
            recs.append({"oid": f"{DM}.to_schema/struct.shared_option_is_forwarded", "ok": ok, "note": f"{be}: Config.{opt} -> DataFrameSchema({opt}=...)",
                         "witness": {"backend": be, "option": opt, "forwarded_as": src}})
        for opt in sorted(table):
            recs.append({"oid": f"{DM}.to_schema/struct.forwarded_option_is_accepted_by_the_schema", "ok": opt in params and hasattr(cfg, opt), "note": f"{be}: {opt}", "witness": {"backend": be, "option": opt}})
    return recs


def backends_share_the_compiler():
    """The contracts are stated on the base class; they cover pandas and polars because neither back end overrides the
    compiler stages, both define build_schema_, and both `validate` overrides forward all six options, in order, to
    to_schema().validate."""
    from pandera.api.dataframe.model import DataFrameModel as Base

    stages = ["to_schema", "_collect_fields", "_get_model_attrs", "_collect_config_and_extras", "_extract_config_options_and_extras",
              "_collect_check_infos", "_collect_parser_infos", "_extract_checks", "_extract_df_checks", "_extract_parsers", "_extract_df_parsers",
              "__init_subclass__"]
    recs = []
    for be, (model, schema) in sorted(_backends().items()):
        over = [s for s in stages if s in vars(model)]
        recs.append({"oid": f"{DM}/struct.backend_does_not_override_compiler_stages", "ok": not over and issubclass(model, Base), "note": be, "witness": {"overrides": over}})
        recs.append({"oid": f"{DM}/struct.backend_defines_build_schema", "ok": "build_schema_" in vars(model), "note": be, "witness": None})
        fn = vars(model)["validate"].__func__
        tree = ast.parse(textwrap.dedent(inspect.getsource(fn)))
        calls = [n for n in ast.walk(tree) if isinstance(n, ast.Call) and isinstance(n.func, ast.Attribute) and n.func.attr == "validate"
                 and ast.unparse(n.func.value) == "cls.to_schema()"]
        want = ["check_obj", "head", "tail", "sample", "random_state", "lazy", "inplace"]
        ok = len(calls) == 1 and [ast.unparse(a) for a in calls[0].args] == want and not calls[0].keywords
        recs.append({"oid": f"{DM}.validate/struct.forwards_all_options_to_the_compiled_schema", "ok": ok, "note": be,
                     "witness": {"args": [ast.unparse(a) for a in calls[0].args] if calls else None}})
        # build_schema_ hands the compiled parts to the object-API constructor
        btree = ast.parse(textwrap.dedent(inspect.getsource(vars(model)["build_schema_"].__func__)))
        ctor = [n for n in ast.walk(btree) if isinstance(n, ast.Call) and isinstance(n.func, ast.Name) and n.func.id == "DataFrameSchema"]
        kws = {k.arg: ast.unparse(k.value) for k in ctor[0].keywords} if len(ctor) == 1 else {}
        ok = len(ctor) == 1 and kws.get("checks") == "cls.__root_checks__" and None in kws and kws[None] == "kwargs"
        if be == "pandas":  # the polars object API does not run user parsers, so only pandas has to hand them over
            ok = ok and kws.get("parsers") == "cls.__root_parsers__" and kws.get("index") == "index"
        recs.append({"oid": f"{DM}.build_schema_/struct.compiled_parts_reach_the_schema_constructor", "ok": ok, "note": be, "witness": {"keywords": kws}})
    return recs


STRUCTURAL = [config_options_reach_the_schema, backends_share_the_compiler]
