"""C15 (component level): the attribute flow that every schema transformation relies on.

The container methods rebuild columns as  `Column(**{**column.properties, **kwargs})`  and move columns to / from the
index through the `Index` / `Column` constructors.  "Keeps every untouched property" therefore needs

  Column.__init__ / Index.__init__ : every constructor parameter reaches the attribute it documents   (post.<param>)
  Column.properties                : every constructor parameter is a key and maps to that attribute  (post.complete.<param>)
  Column.set_name                  : changes the name and nothing else, returns the receiver
  ComponentSchema.update_checks    : new object, new checks, every other attribute kept, receiver untouched
  ArraySchema._validate_attributes : raises SchemaInitError only, writes nothing (used as a contract at call sites)

Oracle: the parameter documentation of `Column` / `Index` / `ComponentSchema` ("param x: ..."), the docstrings of
`properties` ("Get column properties"), `set_name`, `update_checks` ("a new SeriesSchema with a new set of checks"),
and the property statement.  The attribute lists are read from the live constructor signatures.
"""
import ast
import inspect
import textwrap

import z3

from pandera.api.checks import Check
from pandera.api.parsers import Parser
from pandera.dtypes import DataType
from pandera.errors import SchemaInitError
from pyvc import core, types as T
from pyvc.core import And, Implies, Not, Or, SAny, SBool, cur, py_eq
from pyvc.heap import MISSING, DictObj, ListObj, Obj
from pyvc.spec import Contract, Lemma, resolve_target
from pyvc.theories import schema_objs as SO
from pyvc.theories.schema_objs import ImmSeq, attr, attr0, ctor_params, value_equal

PD = "pandera.api.pandas.components"
PL_ = "pandera.api.polars.components"


def _cls(path):
    mod, name = path.split(":")
    return getattr(__import__(mod, fromlist=["x"]), name)


def kwarg_type(p):
    """type of an arbitrary caller-supplied value for constructor parameter `p`"""
    if p == "dtype":
        return T.Opt(T.OneOf(SO.dtype_ref(), T.Any))
    if p in ("checks", "parsers"):
        c = Check if p == "checks" else Parser
        return T.Opt(T.OneOf(T.Lazy(lambda n, c=c: ImmSeq.fresh(n, c)), T.Ref(c, groupby=T.Opt(T.Any))))
    if p in ("nullable", "unique", "coerce", "required", "regex", "drop_invalid_rows"):
        return T.Bool
    if p == "name":
        return T.Opt(T.Str)
    return T.Any


def expected_attr(p, v, stored):
    """documented value of the attribute that stores constructor parameter `p` given the argument `v`"""
    if p in ("checks", "parsers"):
        if v is None:
            return isinstance(stored, (list, ListObj)) and not isinstance(stored, ImmSeq) and len(stored) == 0
        if isinstance(v, Obj):  # a single Check / Parser is wrapped in a list
            return isinstance(stored, (list, ListObj)) and len(stored) == 1 and stored[0] is v
        return stored is v
    if p == "dtype":
        if v is None:
            return stored is None
        if isinstance(v, Obj):  # a DataType is kept as it is
            return stored is v
        # any other value: resolved by the engine (C09) when truthy, None when falsy
        return Or(And(Not(v.truth()), stored is None), And(v.truth(), isinstance(stored, Obj) and issubclass(stored.cls, DataType)))
    if stored is MISSING:
        return False
    return value_equal(stored, v)


def some_groupby(checks):
    """some check of the list has a groupby"""
    if isinstance(checks, ImmSeq):
        j = z3.Int(cur().fresh_name("j"))
        r = SBool(z3.Exists([j], z3.And(j >= 0, j < checks.n.z, SO.gb(checks.eq, j))))
        for x in checks.appended:
            r = Or(r, attr(x, "groupby") is not None)
        return r
    if isinstance(checks, (list, ListObj)):
        return Or(False, *[(attr(x, "groupby") is not None) if isinstance(x, Obj) else True for x in checks])
    return True


class ArrayValidateAttributes(Contract):
    """ArraySchema._validate_attributes: raises SchemaInitError only - and only for a groupby check on a component
    that does not allow groupby, or a PydanticModel dtype -, writes nothing."""

    target = "pandera.api.pandas.array:ArraySchema._validate_attributes"
    raises = (SchemaInitError,)
    split = {"cls": ["Column", "Index"]}

    def setup(self, I):
        SO.install_engine_dtype(I)

    def make_args(self):
        from pandera.engines import pandas_engine

        cls = _cls(f"{PD}:{self.arg('cls', T.Any)}")
        o = SO.make_component(cls, "self", T.fresh_value(T.Opt(T.Str), "name"), "column" if cls.__name__ == "Column" else "index")
        o.field_types["_dtype"] = T.Opt(T.ClassOneOf(SO.dtype_ref(), T.Ref(pandas_engine.PydanticModel)))
        return {"self": o}

    def call_target(self, I, fn, a):
        return I.call(fn, [a["self"]], {})

    @staticmethod
    def _may_raise(self_):
        from pandera.api.pandas.components import Column
        from pandera.engines import pandas_engine

        dt = attr(self_, "_dtype")
        pyd = isinstance(dt, Obj) and dt.cls is not None and issubclass(dt.cls, pandas_engine.PydanticModel)
        allow = issubclass(self_.cls, Column)
        return Or(pyd, And(not allow, some_groupby(attr(self_, "checks"))))

    def on_raise(self, exc, old, self_):
        return {"schema_init_error_only_for_groupby_on_index_or_pydantic_dtype": self._may_raise(self_)}

    def ensures(self, result, old, self_):
        # a component that does not allow groupby and passed has no groupby check (class invariant of Index)
        from pandera.api.pandas.components import Column

        if issubclass(self_.cls, Column):
            return {}
        return {"an_index_that_passes_has_no_groupby_check": Not(some_groupby(attr(self_, "checks")))}

    @property
    def loops(self):
        def invariant(I, fr, k, phase):
            from pandera.api.pandas.components import Column

            o = fr.locals["self"]
            checks = attr(o, "checks")
            if issubclass(o.cls, Column) or not isinstance(checks, ImmSeq):
                return {}
            j = z3.Int(cur().fresh_name("j"))
            kz = k.z if isinstance(k, core.SNum) else z3.IntVal(k)
            return {"no_groupby_check_so_far": SBool(z3.ForAll([j], z3.Implies(z3.And(j >= 0, j < kz), z3.Not(SO.gb(checks.eq, j)))))}

        from pyvc.spec import LoopSpec

        return {0: LoopSpec(invariant=invariant)}


def _init_contract(target, cls_path, extra_kwargs=()):
    cls = _cls(cls_path)
    params = ctor_params(cls)

    class Init(Contract):
        """every constructor parameter reaches the attribute it documents; nothing else of the caller is written"""

        raises = (SchemaInitError, ValueError, TypeError)
        use_contracts = ("ArrayValidateAttributes",)
        max_paths = 6000

        def setup(self, I):
            SO.install_engine_dtype(I)

        def make_args(self):
            a = {"self": Obj(cls, "new", pre=False)}
            for p in params:
                a[p] = T.fresh_value(kwarg_type(p), p)
            return a

        def call_target(self, I, fn, a):
            kw = {k: v for k, v in a.items() if k != "self"}
            return I.call(fn, [a["self"]], kw)

        def ensures(self, result, old, self_, **a):
            out = {}
            for p in params:
                stored = attr(self_, SO.STORED_AS.get(p, p))
                if p == "regex" and cls.__module__.startswith("pandera.api.polars") and a["name"] is not None:
                    # polars Column docstring: "If the name is a regular expression, this attribute will automatically be set to True"
                    is_rx = And(a["name"].startswith("^"), a["name"].endswith("$"))
                    out["stores_regex"] = py_eq(stored, Or(a["regex"], is_rx))
                    continue
                out[f"stores_{p}"] = expected_attr(p, a[p], stored)
            return out

        def on_raise(self, exc, old, self_, **a):
            out = {}
            if exc.cls is TypeError:
                out["type_error_only_from_dtype_resolution"] = isinstance(a["dtype"], SAny)
            if exc.cls is ValueError:
                out["value_error_only_for_non_string_regex_name"] = False  # name is a str or None here
            return out

    Init.target = target
    Init.__name__ = "Init_" + cls_path.replace(":", "_").replace(".", "_")
    return Init


PandasColumnInit = _init_contract(f"{PD}:Column.__init__", f"{PD}:Column")
PolarsColumnInit = _init_contract(f"{PL_}:Column.__init__", f"{PL_}:Column")


IndexInit = _init_contract("pandera.api.dataframe.components:ComponentSchema.__init__", f"{PD}:Index")


class MultiIndexInit(Contract):
    """MultiIndex.__init__ establishes the class invariant the container methods rely on: `indexes` is the given list
    and `columns[name of level]` is a Column carrying the level's dtype, checks, nullable and unique, every other Column
    parameter at its default, named by its key ("indexes: list of Index validators for each level")."""

    target = f"{PD}:MultiIndex.__init__"
    raises = (SchemaInitError,)
    use_contracts = ("ArrayValidateAttributes", "ValidateColumns")

    def setup(self, I):
        SO.install_engine_dtype(I)

    def make_args(self):
        from pandera.api.pandas.components import Index, MultiIndex

        levels = ListObj([SO.make_component(Index, f"indexes[{i}]", lab, "index") for i, lab in enumerate(["i", "j"])])
        levels.pre = True
        levels.name = "indexes"
        return {"self": Obj(MultiIndex, "new", pre=False), "indexes": levels, "coerce": T.fresh_value(T.Bool, "coerce"),
                "strict": T.fresh_value(T.Bool, "strict"), "name": T.fresh_value(T.Any, "name"), "ordered": T.fresh_value(T.Bool, "ordered"),
                "unique": T.fresh_value(T.OneOf(None, T.Str, T.Lazy(lambda n: ListObj(["i", "j"]))), "unique")}

    def call_target(self, I, fn, a):
        return I.call(fn, [a["self"], a["indexes"]], {k: a[k] for k in ("coerce", "strict", "name", "ordered", "unique")})

    def ensures(self, result, old, self_, indexes, coerce, strict, name, ordered, unique):
        from pandera.api.pandas.components import Column

        out = {"keeps_the_levels": attr(self_, "indexes") is indexes}
        cols = attr(self_, "columns")
        out["one_column_per_level_in_order"] = isinstance(cols, dict) and list(cols.keys()) == ["i", "j"] and all(
            isinstance(c, Obj) and c.cls is Column for c in cols.values())
        if not out["one_column_per_level_in_order"]:
            return out
        dflt = SO.ctor_defaults(Column)
        mirrored = {"dtype": "_dtype", "checks": "checks", "nullable": "nullable", "unique": "unique"}
        for p in ctor_params(Column):
            conj = []
            for lab, lv in zip(["i", "j"], indexes):
                got = attr(cols[lab], SO.STORED_AS.get(p, p))
                if p in mirrored:
                    conj.append(value_equal(got, attr0(lv, mirrored[p]), at_entry=True))
                elif p == "name":
                    conj.append(py_eq(got, lab))
                elif p == "parsers":
                    conj.append(isinstance(got, list) and not isinstance(got, ImmSeq) and len(got) == 0)
                else:
                    conj.append(got is dflt[p] or py_eq(got, dflt[p]) is True)
            out[f"columns_mirror_levels.{p}"] = And(*conj)
        for p, v in (("_coerce", coerce), ("strict", strict), ("name", name), ("ordered", ordered)):
            out[f"stores_{p}"] = value_equal(attr(self_, p), v)
        u = attr(self_, "_unique")  # "unique: a list of index names that should be jointly unique" (a single name is wrapped)
        out["stores_unique"] = (isinstance(u, list) and len(u) == 1 and py_eq(u[0], unique)) if isinstance(unique, core.SStr) else (u is unique)
        return out

    def on_raise(self, exc, old, **a):
        return {}


def _properties_contract(target, cls_path):
    cls = _cls(cls_path)
    params = ctor_params(cls)

    class Properties(Contract):
        """`properties` is the dict a column is rebuilt from: one key per constructor parameter, mapped to the
        attribute that parameter initialises; the receiver is not written; the dict is a fresh object."""

        def setup(self, I):
            SO.install_engine_dtype(I)

        def make_args(self):
            return {"self": SO.make_component(cls, "self", T.fresh_value(T.Opt(T.Str), "name"))}

        def call_target(self, I, fn, a):
            return I.call(fn, [a["self"]], {})

        def ensures(self, result, old, self_):
            out = {"returns_a_fresh_dict": isinstance(result, (dict, DictObj)) and not getattr(result, "pre", False)}
            if not out["returns_a_fresh_dict"]:
                return out
            for p in params:
                if p not in result:
                    out[f"complete.{p}"] = False
                    continue
                out[f"complete.{p}"] = value_equal(result[p], attr0(self_, SO.STORED_AS.get(p, p)))
            accepted = set(params) | (set(ctor_params(cls.__mro__[1])) if any(
                q.kind is q.VAR_KEYWORD for q in inspect.signature(cls.__init__).parameters.values()) else set())
            out["only_constructor_parameters"] = all(k in accepted for k in result)
            return out

    Properties.target = target
    Properties.__name__ = "Properties_" + cls_path.replace(":", "_").replace(".", "_")
    return Properties


PandasColumnProperties = _properties_contract(f"{PD}:Column.properties", f"{PD}:Column")
PolarsColumnProperties = _properties_contract(f"{PL_}:Column.properties", f"{PL_}:Column")


def _set_name_contract(target, cls_path):
    cls = _cls(cls_path)

    class SetName(Contract):
        """set_name: the receiver gets the new name, keeps every other attribute, and is returned."""

        def setup(self, I):
            SO.install_engine_dtype(I)

        def make_args(self):
            return {"self": SO.make_component(cls, "self", T.fresh_value(T.Opt(T.Str), "old_name")), "name": T.fresh_value(T.Str, "name")}

        def call_target(self, I, fn, a):
            return I.call(fn, [a["self"], a["name"]], {})

        def modifies(self, self_, name):
            # polars: a name of the form ^...$ switches `regex` on (documented in the polars Column docstring)
            return [(self_, "name")] + ([(self_, "regex")] if cls.__module__.startswith("pandera.api.polars") else [])

        def ensures(self, result, old, self_, name):
            out = {"returns_the_receiver": result is self_, "name_is_set": py_eq(attr(self_, "name"), name)}
            if cls.__module__.startswith("pandera.api.polars"):
                is_rx = And(name.startswith("^"), name.endswith("$"))
                out["regex_only_switched_on_for_a_pattern_name"] = py_eq(attr(self_, "regex"), Or(attr0(self_, "regex"), is_rx))
            return out

    SetName.target = target
    SetName.__name__ = "SetName_" + cls_path.replace(":", "_").replace(".", "_")
    return SetName


PandasSetName = _set_name_contract(f"{PD}:Column.set_name", f"{PD}:Column")
PolarsSetName = _set_name_contract(f"{PL_}:Column.set_name", f"{PL_}:Column")


class UpdateChecks(Contract):
    """update_checks / set_checks: a NEW component with the given checks; every other attribute equal to the
    receiver's; the receiver is not written; result and receiver share no mutable state (so that changing the
    one can never change the other - `receiver fingerprint`)."""

    target = "pandera.api.dataframe.components:ComponentSchema.update_checks"
    split = {"method": ["update_checks", "set_checks"], "cls": [f"{PD}:Column", f"{PD}:Index", f"{PL_}:Column"]}

    def setup(self, I):
        SO.install_engine_dtype(I)

    def make_args(self):
        cls = _cls(self.arg("cls", T.Any))
        kind = "column" if cls.__name__ == "Column" else "index"
        return {"self": SO.make_component(cls, "self", T.fresh_value(T.Opt(T.Str), "name"), kind),
                "checks": ImmSeq.fresh("new_checks", Check)}

    def call_target(self, I, fn, a):
        from pandera.api.dataframe.components import ComponentSchema

        m = self.fixed.get("method", "update_checks")
        return I.call(ComponentSchema.__dict__[m], [a["self"], a["checks"]], {})

    def ensures(self, result, old, self_, checks):
        out = {"returns_a_new_object": isinstance(result, Obj) and result is not self_ and result.cls is self_.cls}
        if not out["returns_a_new_object"]:
            return out
        out["has_the_new_checks"] = attr(result, "checks") is checks
        names = [SO.STORED_AS.get(p, p) for p in ctor_params(self_.cls) if p != "checks"]
        for n in names:
            out[f"keeps_{n}"] = value_equal(attr(result, n), attr0(self_, n))
        shared = SO.shared_mutable({n: attr(result, n) for n in names}, {n: attr(self_, n) for n in names}, immutable_classes=(DataType,))
        cur().ghost["shared"] = shared
        out["shares_no_mutable_state_with_receiver"] = not shared
        return out


# --------------------------------------------------------------------------------------------------------
# structural obligation: `properties` is generated against the live constructor signature
# --------------------------------------------------------------------------------------------------------


def properties_cover_constructor():
    """For the pandas and the polars Column: `properties` is `return {<const key>: self.<attr>, ...}`; every
    constructor parameter is a key; key k reads the attribute that parameter k initialises (self.k)."""
    recs = []
    for path in (f"{PD}:Column", f"{PL_}:Column"):
        cls = _cls(path)
        fn = cls.__dict__["properties"].fget
        tree = ast.parse(textwrap.dedent(inspect.getsource(fn)))
        body = [s for s in tree.body[0].body if not (isinstance(s, ast.Expr) and isinstance(s.value, ast.Constant))]
        base = f"structural:{path}.properties"
        shape = len(body) == 1 and isinstance(body[0], ast.Return) and isinstance(body[0].value, ast.Dict)
        recs.append({"oid": f"{base}/is_a_dict_literal", "ok": shape, "note": path})
        if not shape:
            continue
        d = body[0].value
        keys = {}
        for k, v in zip(d.keys, d.values):
            if isinstance(k, ast.Constant) and isinstance(v, ast.Attribute) and isinstance(v.value, ast.Name) and v.value.id == "self":
                keys[k.value] = v.attr
            else:
                keys[getattr(k, "value", None)] = None
        for p in ctor_params(cls):
            recs.append({"oid": f"{base}/complete.{p}", "ok": p in keys, "note": f"{path}: constructor parameter {p!r} " + (
                "is a key" if p in keys else "is NOT a key of properties: a column rebuilt from properties loses it"), "witness": {"missing": p} if p not in keys else None})
        for k, a in keys.items():
            recs.append({"oid": f"{base}/key_reads_its_attribute.{k}", "ok": a == k, "note": f"{path}: properties[{k!r}] = self.{a}"})
    return recs


CONTRACTS = [ArrayValidateAttributes, PandasColumnInit, PolarsColumnInit, IndexInit, MultiIndexInit, PandasColumnProperties, PolarsColumnProperties,
             PandasSetName, PolarsSetName, UpdateChecks]
STRUCTURAL = [properties_cover_constructor]
