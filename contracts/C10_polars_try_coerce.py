"""C10 (polars engine): DataType.try_coerce - coercion either yields conforming data or names the uncoercible values.

polars casts are LAZY: `self.coerce(data)` only builds the query.  "try" means the strict cast is EVALUATED before the frame is handed
back, so that a value that cannot be cast is reported here as a ParserError with failure cases (which the back ends turn into
SchemaError(DATATYPE_COERCION)) and not later, as a raw polars exception, when the caller collects.

polars_engine.DataType.try_coerce(data_container), for a LazyFrame or a PolarsData (key given or not), every outcome of building
and of evaluating the cast:
    post.returns_the_coerced_lazy_frame
    post.the_cast_was_evaluated_before_returning          the returned query was collected (at least once) and that did not raise
    exit.parser_error_iff_building_or_evaluating_the_cast_failed   (TypeError / InvalidOperationError / ComputeError -> ParserError, nothing else escapes)
    exit.failure_cases_and_mask_come_from_polars_coerce_failure_cases   for THIS data and THIS target type; with a key only the key column
"""
import polars as pl

from pandera.api.polars.types import PolarsData
from pandera.errors import ParserError
from pyvc import core, types as T
from pyvc.core import PyExc, SAny, cur
from pyvc.heap import Obj
from pyvc.interp import OtherException
from pyvc.spec import Contract
from contracts.util import fld, fld0

MOD = "pandera.engines.polars_engine"
ERRORS = [TypeError, pl.exceptions.InvalidOperationError, pl.exceptions.ComputeError]


class LazyQuery:
    """a LazyFrame seen through identity and `collect()` (which evaluates the query: may raise what polars raises for a cast)"""

    __pyvc_symbolic__ = True

    def __init__(self, name, may_fail=False):
        self.name, self.may_fail, self.collected = name, may_fail, []

    def pyvc_class(self):
        return pl.LazyFrame

    def collect(self, **kw):
        n = len(self.collected)
        if self.may_fail:
            k = cur().choose([("evaluates", None)] + [(c.__name__, None) for c in ERRORS], f"{self.name}.collect#{n}")
            if k:
                self.collected.append("raised")
                cur().ghost["cast_failed"] = "collect"
                raise PyExc(cur().ghost["interp"].make_exc(ERRORS[k - 1], "cast failed"))
        self.collected.append("ok")
        return SAny(name=f"{self.name}.collected")

    def select(self, *a, **k):
        return LazyQuery(f"{self.name}.select")


class PolarsTryCoerce(Contract):
    target = f"{MOD}:DataType.try_coerce"
    raises = (ParserError,)
    check_frame = False
    split = {"arg": ["LazyFrame", "PolarsData_key", "PolarsData_nokey"]}

    def setup(self, I):
        from pandera.engines import polars_engine as PE
        import pandera.api.polars.utils as PU

        def coerce(I_, self_obj, data_container):
            p = cur()
            p.ghost.setdefault("coerce_calls", []).append(data_container)
            k = p.choose([("builds", None)] + [(c.__name__, None) for c in ERRORS], "coerce")
            if k:
                p.ghost["cast_failed"] = "coerce"
                raise PyExc(I_.make_exc(ERRORS[k - 1], "no cast"))
            q = LazyQuery("coerced", may_fail=True)
            p.ghost["coerced"] = q
            return q

        I.models[id(PE.DataType.coerce)] = coerce

        def failure_cases(I_, data_container=None, type_=None):
            p = cur()
            mask, fc = SAny(name="is_coercible"), LazyQuery("failure_cases")
            p.ghost["pcfc"] = (data_container, type_, mask, fc)
            return (mask, fc)

        I.models[id(PE.polars_coerce_failure_cases)] = failure_cases
        I.models[id(PU.get_lazyframe_schema)] = lambda I_, lf: SAny(name="schema_of_the_frame")

    def make_args(self):
        from pandera.engines import polars_engine as PE

        how = self.fixed.get("arg", "LazyFrame")
        lf = LazyQuery("lf")
        if how == "LazyFrame":
            data = lf
        else:
            data = Obj(PolarsData, "data_container", pre=True)
            data.attrs.update(lazyframe=lf, key="a" if how == "PolarsData_key" else None)
            data.attrs0.update(data.attrs)
            data.attrs["__fields__order"] = ("lazyframe", "key")
        s = T.Ref(PE.DataType, type=T.Any).fresh("self")
        cur().ghost["lf"] = lf
        return {"self": s, "data_container": data}

    def call_target(self, I, fn, a):
        return I.call(fn, [a["self"], a["data_container"]], {})

    def _data_ok(self, d, data_container):
        lf = cur().ghost["lf"]
        if isinstance(data_container, LazyQuery):
            return isinstance(d, Obj) and d.cls is PolarsData and fld(d, "lazyframe") is lf and fld(d, "key") is None
        return d is data_container

    def ensures(self, result, old, self_, data_container):
        g = cur().ghost
        q = g.get("coerced")
        out = {"returns_the_coerced_lazy_frame": q is not None and result is q}
        out["the_cast_was_evaluated_before_returning"] = q is not None and len(q.collected) >= 1 and all(c == "ok" for c in q.collected)
        out["coerce_asked_once_for_this_data"] = len(g.get("coerce_calls", [])) == 1 and self._data_ok(g["coerce_calls"][0], data_container)
        out["no_failure_report_without_a_failure"] = "pcfc" not in g
        return out

    def on_raise(self, exc, old, self_, data_container):
        g = cur().ghost
        if exc.cls is not ParserError:
            return {}
        out = {"parser_error_iff_building_or_evaluating_the_cast_failed": g.get("cast_failed") in ("coerce", "collect")}
        p = g.get("pcfc")
        out["failure_cases_and_mask_come_from_polars_coerce_failure_cases"] = p is not None and self._data_ok(p[0], data_container) and p[1] is fld0(self_, "type") \
            and exc.attrs.get("parser_output") is p[2]
        if p is not None:
            fc = exc.attrs.get("failure_cases")
            keyed = isinstance(data_container, Obj) and fld0(data_container, "key") is not None
            out["failure_cases_restricted_to_the_key_column" if keyed else "failure_cases_reported_as_computed"] = (isinstance(fc, LazyQuery) and fc.name == "failure_cases.select") if keyed else fc is p[3]
        return out


def _standin(seed=0, tier="quick"):
    """run-time contract on the real try_coerce over all integer / float / boolean / text source -> target pairs with boundary values:
    either ParserError (with one mask row per data row), or a frame whose evaluation succeeds and conforms to the target type"""
    import itertools
    import warnings

    from pandera.engines import polars_engine as PE

    warnings.simplefilter("ignore")
    ints = {pl.Int8: [-128, -1, 0, 127], pl.Int16: [-32768, -1, 0, 32767], pl.Int32: [-2**31, -1, 0, 2**31 - 1], pl.Int64: [-2**63, -1, 0, 2**63 - 1],
            pl.UInt8: [0, 255], pl.UInt16: [0, 65535], pl.UInt32: [0, 2**32 - 1], pl.UInt64: [0, 2**64 - 1]}
    sources = dict(ints)
    sources.update({pl.Float64: [-1.5, 0.0, 1e30, float("nan")], pl.Boolean: [True, False], pl.String: ["1", "-1", "x"]})
    targets = list(ints) + [pl.Float32, pl.Float64, pl.Boolean, pl.String]
    n = 0
    bound = "every (source, target) pair over 8 integer types, Float64, Boolean, String -> 8 integer types, Float32/64, Boolean, String; each boundary value alone and all together, with a null; key in {None,'a'}"
    for (src, vals), tgt in itertools.product(sources.items(), targets):
        for rows in [[v] for v in vals] + [list(vals) + [None]]:
            for key in (None, "a"):
                n += 1
                lf = pl.LazyFrame({"a": rows}, schema={"a": src})
                data = lf if key is None else PE.PolarsData(lf, key)
                try:
                    out = PE.Engine.dtype(tgt).try_coerce(data)
                except ParserError as e:
                    mask = e.parser_output
                    h = mask.height if hasattr(mask, "height") else None
                    if h != len(rows):
                        return {"examples": n, "bound": bound, "failing_input": {"values": [repr(r) for r in rows], "source": str(src), "target": str(tgt), "key": key},
                                "observed": f"ParserError whose mask has {h} rows for {len(rows)} data rows"}
                    continue
                except Exception as e:  # noqa: BLE001
                    return {"examples": n, "bound": bound, "failing_input": {"values": [repr(r) for r in rows], "source": str(src), "target": str(tgt), "key": key},
                            "observed": f"try_coerce leaked {type(e).__name__}: {e}"[:200]}
                try:
                    got = out.collect()
                except Exception as e:  # noqa: BLE001
                    return {"examples": n, "bound": bound, "failing_input": {"values": [repr(r) for r in rows], "source": str(src), "target": str(tgt), "key": key},
                            "observed": f"try_coerce returned a frame that cannot be evaluated: {type(e).__name__}: {e}"[:220]}
                if got.schema["a"] != tgt:
                    return {"examples": n, "bound": bound, "failing_input": {"values": [repr(r) for r in rows], "source": str(src), "target": str(tgt), "key": key},
                            "observed": f"returned dtype {got.schema['a']}"}
    return {"examples": n, "bound": bound, "failing_input": None}


PolarsTryCoerce.bounded_standin = staticmethod(_standin)

# the casting behaviour itself is a library fact: the run-time contract also runs on every invocation as a bounded obligation of its own
BOUNDED = [_standin]
CONTRACTS = [PolarsTryCoerce]
