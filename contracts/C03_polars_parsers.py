"""C03 / C08 (polars parsers): add_missing_columns of the polars container back end.

Parse postcondition (C03): what validate returns conforms to the schema - so a column that add_missing_columns ADDS must already
have the declared data type (the polars container computes `column_info` before the parsers run, so an added column is never seen
by the component checks of the same call: nothing downstream would notice a wrong dtype).  Documentation
(docs dataframe_schemas: "add_missing_columns ... the column is added with the default value, cast to the column's dtype").

Frames are seen through their ordered (column name -> data type tag) map; `with_columns(name=expr)` gives the new column the natural
type of the expression (an unknown tag), `.cast({name: T})` sets the tag to T, `.select(names)` orders / subsets.
For all default values (python values or polars expressions), nullable flags, declared types, over the layouts with <= 2 required
declared columns, any subset of them absent, an optional declared column (required=False) present or absent, and an optional
undeclared extra column:

    post.nothing_to_add_returns_the_argument
    post.added_column_has_the_declared_dtype
    post.no_existing_column_is_lost / existing_columns_keep_their_dtype   ("ADD missing columns": every column of the input, declared or
                                                 not, is still there - as in the pandas twin, which is careful not even to reorder them)
    post.nothing_else_is_added                   (an absent OPTIONAL column is not required, hence not added - and not an error)
    exit.no_default_error_iff_some_absent_column_has_neither_default_nor_nullable   (reason ADD_MISSING_COLUMN_NO_DEFAULT)
    exit.only_documented_exceptions              (SchemaError only: no polars ColumnNotFoundError)
"""
import itertools

from pandera.errors import SchemaError, SchemaErrorReason
from pyvc import core, types as T
from pyvc.core import And, Iff, Implies, Not, Or, PyExc, SAny, SBool, cur, py_eq
from pyvc.heap import DictObj, ListObj, Obj
from pyvc.interp import OtherException
from pyvc.spec import Contract

DFP = "pandera.backends.polars.container:DataFrameSchemaBackend"
DECLARED = ["k0", "k1"]


class TypedFrame:
    """polars LazyFrame seen through its ordered {column: dtype tag} map"""

    __pyvc_symbolic__ = True

    def __init__(self, cols, how="argument"):
        self.cols = dict(cols)
        self.how = how

    def pyvc_class(self):
        import polars as pl

        return pl.LazyFrame

    def with_columns(self, *exprs, **named):
        if exprs:
            raise core.Unsupported("with_columns(*exprs) in add_missing_columns")
        out = dict(self.cols)
        for k, e in named.items():
            if isinstance(e, str):
                # polars: a python str in an expression position is a COLUMN NAME (pl.col(e)), not a literal
                if e not in self.cols:
                    raise PyExc(cur().ghost["interp"].make_exc(OtherException))  # polars ColumnNotFoundError
                out[k] = self.cols[e]
                cur().ghost.setdefault("copied_from_column", []).append((k, e))
                continue
            # the natural type of the expression: the literal's own type / whatever the expression evaluates to - unknown
            out[k] = getattr(e, "dtype_tag", None) or ("natural-type-of", k)
        return TypedFrame(out, "with_columns")

    def cast(self, dtypes, **kw):
        out = dict(self.cols)
        for k, t in dict(dtypes).items():
            if k not in out:
                raise PyExc(cur().ghost["interp"].make_exc(OtherException))
            out[k] = t
        return TypedFrame(out, "cast")

    def select(self, *names):
        flat = []
        for n in names:
            flat.extend(n) if isinstance(n, (list, tuple)) else flat.append(n)
        if any(n not in self.cols for n in flat):
            raise PyExc(cur().ghost["interp"].make_exc(OtherException))  # polars ColumnNotFoundError
        return TypedFrame({n: self.cols[n] for n in flat}, "select")


def _typed_drop(self, *names, **kw):
    flat = []
    for n in names:
        flat.extend(n) if isinstance(n, (list, tuple)) else flat.append(n)
    if any(n not in self.cols for n in flat):
        raise PyExc(cur().ghost["interp"].make_exc(OtherException))  # polars ColumnNotFoundError
    return TypedFrame({n: t for n, t in self.cols.items() if n not in flat}, "drop") if flat else self


TypedFrame.drop = _typed_drop


class TypedLit:
    """pl.lit(value, dtype=T): an expression whose natural type is T"""

    __pyvc_symbolic__ = True

    def __init__(self, value, dtype=None):
        self.dtype_tag = dtype


def layouts():
    out = []
    for n in (1, 2):
        decl = DECLARED[:n]
        for r in range(0, n + 1):
            for absent in itertools.combinations(decl, r):
                for extra in (False, True):
                    for opt in ("none", "present", "absent"):
                        out.append((decl, list(absent), extra, opt))
    return out


class PolarsAddMissingColumns(Contract):
    target = f"{DFP}.add_missing_columns"
    raises = (SchemaError,)
    check_frame = False
    split = {"layout": list(range(len(layouts()))), "frame_order": ["as_declared", "reversed"]}

    def setup(self, I):
        import polars as pl

        I.models[id(pl.lit)] = lambda I, value, dtype=None, **kw: TypedLit(value, dtype)
        import pandera.api.polars.utils as PU
        import pandera.backends.polars.container as PC

        names = lambda I, lf: list(lf.cols)  # noqa: E731  (get_lazyframe_column_names: lf.collect_schema().names())
        I.models[id(PU.get_lazyframe_column_names)] = names
        I.models[id(PC.get_lazyframe_column_names)] = names

    def make_args(self):
        from pandera.backends.polars.container import DataFrameSchemaBackend as B

        decl, absent, extra, opt = layouts()[self.fixed.get("layout", 0)]
        cols = DictObj()
        meta = {}
        if opt != "none":
            decl = decl[:1] + ["k_opt"] + decl[1:]  # an optional column declared between the required ones
        for k in decl:
            dt = Obj(None, f"dtype_{k}", pre=True, fields={})
            tag = ("declared-type-of", k)
            dt.attrs["type"] = tag
            dt.attrs0["type"] = tag
            c = Obj(None, f"column_{k}", pre=True, fields={})
            # a default is absent, a non-string python value / polars expression (opaque), or a python STRING (the documented way to
            # give a text column a default)
            default = T.fresh_value(T.OneOf(None, T.Any, "some text"), f"default[{k}]")
            nullable = T.fresh_value(T.Bool, f"nullable[{k}]")
            # a column may be declared WITHOUT a data type (`Column(default=1)`): the added column then holds the default as it is
            if k in absent and cur().choose([("declared", None), ("no_dtype", None)], f"dtype[{k}]") == 1:
                dt, tag = None, ("type-of-the-default", k)
            c.attrs.update(default=default, nullable=nullable, dtype=dt, name=k, required=(k != "k_opt"))
            c.attrs0.update(c.attrs)
            dict.__setitem__(cols, k, c)
            meta[k] = (default, nullable, tag)

        class DataFrameSchema:
            pass

        schema = Obj(DataFrameSchema, "schema", pre=True, fields={})
        amc = T.fresh_value(T.Bool, "add_missing_columns")
        schema.attrs.update(columns=cols, add_missing_columns=amc, name=None)
        schema.attrs0.update(schema.attrs)
        info = Obj(None, "column_info", pre=True, fields={})
        info.attrs["absent_column_names"] = ListObj(absent)
        info.attrs0["absent_column_names"] = info.attrs["absent_column_names"]
        present = {k: ("frame-type-of", k) for k in decl if k not in absent and not (k == "k_opt" and opt == "absent")}
        if extra:
            present["x"] = ("frame-type-of", "x")
        if self.fixed.get("frame_order", "as_declared") == "reversed":
            present = dict(reversed(list(present.items())))
        frame = TypedFrame(present)
        core.register_model_var("layout", lambda m, d=(list(decl), list(absent), extra, opt, list(present)): f"declared={d[0]} absent_required={d[1]} undeclared_extra_column={d[2]} optional_column={d[3]} frame_columns={d[4]}")
        cur().ghost.update(meta=meta, decl=decl, absent=absent, amc=amc, frame=frame)
        return {"self": T.Ref(B).fresh("self"), "check_obj": frame, "schema": schema, "column_info": info}

    def call_target(self, I, fn, a):
        return I.call(fn, [a["self"], a["check_obj"], a["schema"], a["column_info"]], {})

    def _needs_default(self):
        g = cur().ghost
        return [k for k in g["absent"] if g["meta"][k][0] is None and not cur().decide(g["meta"][k][1], f"nullable[{k}]")]

    def ensures(self, result, old, self_, check_obj, schema, column_info):
        g = cur().ghost
        amc = g["amc"]
        active = bool(g["absent"]) and (amc is True or (amc is not False and cur().decide(amc, "add_missing_columns")))
        if not active:
            return {"nothing_to_add_returns_the_argument": result is check_obj}
        out = {"returns_a_frame": isinstance(result, TypedFrame), "returned_only_when_every_absent_column_can_be_filled": self._needs_default() == []}
        if not isinstance(result, TypedFrame):
            return out
        for k in g["absent"]:
            tag = g["meta"][k][2]
            if tag[0] == "type-of-the-default":
                out[f"a_column_without_declared_dtype_is_added_as_its_default_is[{k}]"] = k in result.cols and (not isinstance(result.cols[k], tuple) or result.cols[k][0] != "declared-type-of")
            else:
                out[f"added_column_has_the_declared_dtype[{k}]"] = result.cols.get(k) == tag
        for k, t in g["frame"].cols.items():
            out[f"no_existing_column_is_lost[{k}]"] = k in result.cols
            out[f"existing_columns_keep_their_dtype[{k}]"] = result.cols.get(k) == t
        out["nothing_else_is_added"] = set(result.cols) <= set(g["frame"].cols) | set(g["absent"])
        # C08 ("returns the same parsed table"): the pandas twin is "careful not to modify order of existing dataframe columns"
        out["existing_columns_keep_their_order"] = [k for k in result.cols if k in g["frame"].cols] == list(g["frame"].cols)
        out["a_text_default_is_a_value_not_a_column_reference"] = not cur().ghost.get("copied_from_column")
        return out

    def on_raise(self, exc, old, self_, check_obj, schema, column_info):
        g = cur().ghost
        amc = g["amc"]
        if exc.cls is not SchemaError:
            return {}  # (reported by exit.only_documented_exceptions)
        return {"no_default_error_only_when_adding": bool(g["absent"]) and amc is not False,
                "no_default_error_iff_some_absent_column_has_neither_default_nor_nullable": self._needs_default() != [],
                "reason_code": exc.attrs.get("reason_code") is SchemaErrorReason.ADD_MISSING_COLUMN_NO_DEFAULT}

    def concretize(self, rec):
        def thunk():
            import warnings

            import polars as pl
            import pandera as pa
            import pandera.polars as pp

            warnings.simplefilter("ignore")
            obs, bad = {}, False
            try:
                st = pp.DataFrameSchema({"a": pp.Column(pl.Int32), "t": pp.Column(pl.String, default="a")}, add_missing_columns=True)
                got = st.validate(pl.DataFrame({"a": pl.Series([1, 2], dtype=pl.Int32)}))["t"].to_list()
                if got != ["a", "a"]:
                    bad = True
                    obs["text default 'a' next to a column named a"] = f"added column t = {got}, expected ['a', 'a']"
                st2 = pp.DataFrameSchema({"x": pp.Column(pl.Int32), "t": pp.Column(pl.String, default="a")}, add_missing_columns=True)
                st2.validate(pl.DataFrame({"x": pl.Series([1], dtype=pl.Int32)}))
            except (pa.errors.SchemaError, pa.errors.SchemaErrors) as e:
                bad = True
                obs["text default"] = "rejected: " + str(e)[:60]
            except Exception as e:  # noqa: BLE001
                bad = True
                obs["text default 'a'"] = f"leaked {type(e).__name__}"
            for name, default in (("python value", 0), ("pl.lit(0)", pl.lit(0)), ("pl.col('a')", pl.col("a")), ("pl.col('a') * 2", pl.col("a") * 2)):
                schema = pp.DataFrameSchema({"a": pp.Column(pl.Int32), "b": pp.Column(pl.Float64, default=default)}, add_missing_columns=True)
                for mk in (pl.DataFrame, pl.LazyFrame):
                    out = schema.validate(mk({"a": pl.Series([1, 2], dtype=pl.Int32)}))
                    got = dict(out.collect_schema() if isinstance(out, pl.LazyFrame) else out.schema)
                    if got.get("b") != pl.Float64:
                        bad = True
                        obs[f"default={name}, {mk.__name__}"] = f"added column b has dtype {got.get('b')}, declared Float64"
            s2 = pp.DataFrameSchema({"a": pp.Column(pl.Int64), "b": pp.Column(pl.Float64, default=1.5)}, add_missing_columns=True)
            out = s2.validate(pl.DataFrame({"x": [0], "a": [1]}))
            if "x" not in out.columns:
                bad = True
                obs["undeclared column x next to an absent column b"] = f"returned columns {out.columns}: x was dropped"
            s3 = pp.DataFrameSchema({"a": pp.Column(pl.Int64), "b": pp.Column(pl.Float64, default=1.5), "c": pp.Column(pl.Int64, required=False)}, add_missing_columns=True)
            try:
                out = s3.validate(pl.DataFrame({"a": [1]}))
                if out.columns != ["a", "b"]:
                    bad = True
                    obs["absent optional column c"] = f"returned columns {out.columns}"
            except (pa.errors.SchemaError, pa.errors.SchemaErrors) as e:
                bad = True
                obs["absent optional column c"] = f"rejected: {type(e).__name__}"
            except Exception as e:  # noqa: BLE001
                bad = True
                obs["absent optional column c"] = f"leaked {type(e).__name__}"
            return bad, obs or "added columns have the declared dtype; undeclared and optional columns are left alone"

        return thunk


class PolarsSetDefault(Contract):
    """polars DataFrameSchemaBackend.set_default fills the declared default into the columns that are PRESENT (as its pandas twin
    set_defaults does: `col_name not in check_obj.columns -> continue`); an absent column is not its business (a missing required
    column is reported by check_column_presence, an optional one is simply absent): it must not touch it, and in particular must not
    leak polars' ColumnNotFoundError.  For all defaults / required flags over the layouts with 2 declared columns present or absent."""

    target = f"{DFP}.set_default"
    check_frame = False
    raises = ()
    # regex_k1: the second declared column is a PATTERN (its key is never a column of the frame; its selector resolves the matches): its
    # default is filled like any other - the column-level fill of a regex component works on a private copy that validate discards
    split = {"layout": [0, 1, 2, 3], "regex_k1": [False, True]}

    def setup(self, I):
        import pandera.api.polars.utils as PU
        import pandera.backends.polars.container as PC
        from pandera.api.base.schema import BaseSchema

        names = lambda I, lf: list(lf.cols)  # noqa: E731
        I.models[id(PU.get_lazyframe_column_names)] = names
        I.models[id(PC.get_lazyframe_column_names)] = names

        class ColumnBackend:
            __pyvc_symbolic__ = True

            def set_default(bself, check_obj, col_schema):
                p = cur()
                k = col_schema.attrs["name"]
                p.ghost.setdefault("filled", []).append((k, check_obj))
                if k not in check_obj.cols and not col_schema.attrs["regex"]:
                    raise PyExc(I.make_exc(OtherException))  # polars ColumnNotFoundError when the plan is resolved
                r = TypedFrame(check_obj.cols, f"set_default[{k}]")
                p.ghost["current"] = r
                return r

        I.models[id(BaseSchema.get_backend.__func__)] = lambda I, cls_or_self, *a, **k: ColumnBackend()

    def make_args(self):
        from pandera.backends.polars.container import DataFrameSchemaBackend as B

        present = [(True, True), (True, False), (False, True), (False, False)][self.fixed.get("layout", 0)]
        cols = DictObj()
        meta = {}
        for k, here in zip(DECLARED, present):
            from pandera.api.polars.components import Column

            c = Obj(Column, f"column_{k}", pre=True, fields={})
            default = T.fresh_value(T.Opt(T.Any), f"default[{k}]")
            is_regex = k == DECLARED[1] and self.fixed.get("regex_k1", False)
            c.attrs.update(default=default, name=k, selector=k, regex=is_regex, required=T.fresh_value(T.Bool, f"required[{k}]"))
            c.attrs0.update(c.attrs)
            dict.__setitem__(cols, k, c)
            meta[k] = (default, here or is_regex)  # (a pattern is "present" through whatever it matches: resolved by its selector)
        schema = Obj(None, "schema", pre=True, fields={})
        schema.attrs["columns"] = cols
        schema.attrs0["columns"] = cols
        frame = TypedFrame({k: ("frame-type-of", k) for k, here in zip(DECLARED, present) if here and not (k == DECLARED[1] and self.fixed.get("regex_k1", False))})
        cur().ghost.update(meta=meta, frame=frame)
        core.register_model_var("layout", lambda m, pr=present: f"k0 present={pr[0]}, k1 present={pr[1]}")
        return {"self": T.Ref(B).fresh("self"), "check_obj": frame, "schema": schema}

    def call_target(self, I, fn, a):
        return I.call(fn, [a["self"], a["check_obj"], a["schema"]], {})

    def ensures(self, result, old, self_, check_obj, schema):
        g = cur().ghost
        want = [k for k in DECLARED if g["meta"][k][0] is not None and g["meta"][k][1]]
        filled = g.get("filled", [])
        out = {"fills_exactly_the_present_columns_that_declare_a_default_in_order": [k for k, _ in filled] == want}
        prev = check_obj
        ok = True
        for k, got in filled:
            ok = ok and got is prev
            prev = [f for f in [g.get("current")] if f is not None][0] if False else prev
        out["returns_the_last_filled_frame"] = (result is g.get("current")) if want else (result is check_obj)
        return out

    def concretize(self, rec):
        def thunk():
            import warnings

            import polars as pl
            import pandera as pa
            import pandera.polars as pp

            warnings.simplefilter("ignore")
            obs, bad = {}, False
            for name, schema, expect in (
                ("optional absent column with a default", pp.DataFrameSchema({"a": pp.Column(int), "c": pp.Column(int, required=False, default=3)}), "accept"),
                ("required absent column with a default", pp.DataFrameSchema({"a": pp.Column(int), "c": pp.Column(int, default=3)}), "SchemaError"),
            ):
                try:
                    schema.validate(pl.DataFrame({"a": [1]}))
                    got = "accept"
                except (pa.errors.SchemaError, pa.errors.SchemaErrors):
                    got = "SchemaError"
                except Exception as e:  # noqa: BLE001
                    got = "leaked " + type(e).__name__
                if got != expect:
                    bad = True
                    obs[name] = f"{got} (pandas twin / documented: {expect})"
            # a PATTERN with a default: the matched columns are filled in the frame that validate returns
            regex_schema = pp.DataFrameSchema({r"^x_\d$": pp.Column(int, regex=True, default=0)})
            for mk in (pl.DataFrame, pl.LazyFrame):
                try:
                    out = regex_schema.validate(mk({"x_1": [1, None], "x_2": [None, 2]}))
                    out = out.collect() if isinstance(out, pl.LazyFrame) else out
                    got = {c: out[c].to_list() for c in out.columns}
                except Exception as e:  # noqa: BLE001
                    got = f"raised {type(e).__name__}"
                if got != {"x_1": [1, 0], "x_2": [0, 2]}:
                    bad = True
                    obs[f"regex column ^x_\\d$ with default=0 on {mk.__name__} x_1=[1,None], x_2=[None,2]: returned"] = f"{got}, expected the nulls filled with 0"
            return bad, obs or "absent columns with a default are left to the presence check; a pattern's matches are filled"

        return thunk


class PolarsStrictFilterColumns(Contract):
    """strict_filter_columns(check_obj, schema, column_info) - the frame it is GIVEN is the one add_missing_columns returned, while
    `column_info` was computed from the caller's frame before any parser ran: the frame may hold columns column_info does not list
    (the added ones).  strict='filter' removes the undeclared columns and nothing else:

        post.every_declared_column_of_the_frame_is_kept      incl. the columns that were just added - with their dtype, in frame order
        post.exactly_the_undeclared_columns_are_removed      (strict='filter');  strict in {True, False}: the frame is returned as it is
        exit.undeclared_column_is_an_error_only_when_strict_is_True   (COLUMN_NOT_IN_SCHEMA)
    Layouts: 1-2 declared columns, each present in the caller's frame or added by add_missing_columns, 0-2 undeclared columns placed
    before / between / after them; ordered=False (the order obligation is the twins' contract in C08)."""

    target = f"{DFP}.strict_filter_columns"
    raises = (SchemaError,)
    check_frame = False
    split = {"strict": ["filter", True, False], "layout": list(range(18))}

    @staticmethod
    def _layouts():
        out = []
        for decl in (["k0"], ["k0", "k1"]):
            for added in ([], decl[-1:], list(decl)):
                for extra in ([], ["x"], ["x", "y"]):
                    out.append((decl, added, extra))
        return out

    def make_args(self):
        from pandera.backends.polars.container import DataFrameSchemaBackend as B

        decl, added, extra = self._layouts()[self.fixed.get("layout", 0)]
        original = [c for c in decl if c not in added]
        # the caller's frame: undeclared columns interleaved with the declared ones it holds
        seen = (extra[:1] + original[:1] + extra[1:] + original[1:])
        # what add_missing_columns returned: declared columns in schema order, then the undeclared ones
        frame_cols = decl + [c for c in seen if c not in decl]
        frame = TypedFrame({c: ("type-of", c) for c in frame_cols}, "argument")
        cols = DictObj()
        for k in decl:
            dict.__setitem__(cols, k, SAny(name=f"column_{k}"))
        cols.pre = True
        cols.name = "schema.columns"
        class DataFrameSchema:  # (only its __name__ is read, for the message)
            pass

        schema = Obj(DataFrameSchema, "schema", pre=True, fields={})
        for a, v in (("strict", self.fixed.get("strict", "filter")), ("ordered", False), ("columns", cols)):
            schema.attrs[a] = v
            schema.attrs0[a] = v
        info = Obj(None, "column_info", pre=True, fields={})
        for a, v in (("sorted_column_names", ListObj([c for c in decl if c in seen])), ("destuttered_column_names", ListObj(list(seen))),
                     ("expanded_column_names", frozenset(decl)), ("absent_column_names", ListObj(list(added)))):
            info.attrs[a] = v
            info.attrs0[a] = v
        cur().ghost.update(frame_cols=frame_cols, decl=decl, extra=extra, frame=frame)
        return {"self": T.Ref(B).fresh("self"), "check_obj": frame, "schema": schema, "column_info": info}

    def call_target(self, I, fn, a):
        return I.call(fn, [a["self"], a["check_obj"], a["schema"], a["column_info"]], {})

    def ensures(self, result, old, self_, check_obj, schema, column_info):
        g = cur().ghost
        strict = self.fixed.get("strict", "filter")
        out = {"returns_a_frame": isinstance(result, TypedFrame)}
        if not out["returns_a_frame"]:
            return out
        if strict == "filter":
            want = [c for c in g["frame_cols"] if c in g["decl"]]
            out["every_declared_column_of_the_frame_is_kept"] = all(c in result.cols for c in want)
            out["exactly_the_undeclared_columns_are_removed"] = list(result.cols) == want
            out["kept_columns_keep_their_dtype"] = all(result.cols.get(c) == ("type-of", c) for c in want)
        else:
            out["frame_returned_as_it_is"] = list(result.cols) == g["frame_cols"] and all(result.cols[c] == ("type-of", c) for c in g["frame_cols"])
            if strict is True:
                out["returns_only_without_undeclared_columns"] = g["extra"] == []
        return out

    def on_raise(self, exc, old, self_, check_obj, schema, column_info):
        if exc.cls is not SchemaError:
            return {}
        g = cur().ghost
        return {"undeclared_column_is_an_error_only_when_strict_is_True": self.fixed.get("strict") is True and g["extra"] != []
                and exc.attrs.get("reason_code") is SchemaErrorReason.COLUMN_NOT_IN_SCHEMA and exc.attrs.get("failure_cases") == g["extra"][0]}

    def concretize(self, rec):
        def thunk():
            """strict='filter' + add_missing_columns on a frame that lacks a declared column and holds an undeclared one: the result
            must hold every declared column and nothing else"""
            import warnings

            import polars as pl
            import pandera.polars as pp

            warnings.simplefilter("ignore")
            schema = pp.DataFrameSchema({"a": pp.Column(int), "b": pp.Column(int, default=7)}, strict="filter", add_missing_columns=True)
            obs, bad = {}, False
            for name, df in (("DataFrame", pl.DataFrame({"x": [0], "a": [1]})), ("LazyFrame", pl.LazyFrame({"x": [0], "a": [1]}))):
                try:
                    out = schema.validate(df)
                    cols = out.collect_schema().names() if isinstance(out, pl.LazyFrame) else out.columns
                    obs[name] = cols
                    bad = bad or cols != ["a", "b"]
                except Exception as e:  # noqa: BLE001
                    obs[name] = f"{type(e).__name__}: {e}"[:120]
                    bad = True
            return bad, {"input columns": ["x", "a"], "declared": ["a", "b (default 7)"], "returned columns": obs}

        return thunk


class PandasTypedFrame(TypedFrame):
    """the same view of a pandas DataFrame: `drop(labels=..., axis=1, inplace=True)` removes the columns from THIS object"""

    def pyvc_class(self):
        import pandas as pd

        return pd.DataFrame

    def drop(self, labels=None, axis=0, inplace=False, **kw):
        if axis != 1:
            raise core.Unsupported("DataFrame.drop(axis=0) in strict_filter_columns")
        flat = list(labels or [])
        if any(n not in self.cols for n in flat):
            raise PyExc(cur().ghost["interp"].make_exc(KeyError, "not found in axis"))
        kept = {n: t for n, t in self.cols.items() if n not in flat}
        if inplace:
            self.cols = kept
            cur().ghost.setdefault("dropped_in_place", []).append(list(flat))
            return None
        return PandasTypedFrame(kept, "drop")


class PandasStrictFilterColumns(PolarsStrictFilterColumns):
    """pandas twin: same contract, same layouts (the frame it is given is the one add_missing_columns returned)"""

    target = "pandera.backends.pandas.container:DataFrameSchemaBackend.strict_filter_columns"
    raises = (SchemaError,)

    def make_args(self):
        a = super().make_args()
        from pandera.backends.pandas.container import DataFrameSchemaBackend as B

        a["self"] = T.Ref(B).fresh("self")
        a["check_obj"] = PandasTypedFrame(a["check_obj"].cols, "argument")
        cur().ghost["frame"] = a["check_obj"]
        return a

    def ensures(self, result, old, self_, check_obj, schema, column_info):
        out = super().ensures(result, old, self_, check_obj, schema, column_info)
        return out

    def concretize(self, rec):
        def thunk():
            import warnings

            import pandas as pd
            import pandera as pa

            warnings.simplefilter("ignore")
            schema = pa.DataFrameSchema({"a": pa.Column(int), "b": pa.Column(int, default=7)}, strict="filter", add_missing_columns=True)
            try:
                out = schema.validate(pd.DataFrame({"x": [0], "a": [1]}))
                cols = list(out.columns)
                return cols != ["a", "b"], {"input columns": ["x", "a"], "returned columns": cols}
            except Exception as e:  # noqa: BLE001
                return True, f"{type(e).__name__}: {e}"[:160]

        return thunk


CONTRACTS = [PolarsAddMissingColumns, PolarsSetDefault, PolarsStrictFilterColumns, PandasStrictFilterColumns]
