"""C17 - check_types: annotation-driven validation gates the call and is otherwise transparent.

Oracle: the property statement; docs/source/dataframe_models.md ("check_types ... validates the inputs and the output
of the function against the DataFrameModel named in the annotation"); the docstring of check_types (options).

The contract target is `check_types` itself: its live source (annotation front-loading, `_check_arg`, `validate_args`,
`validate_kwargs`, `validate_inputs`, `_wrapper`, incl. the coroutine wrapper executed as straight-line code) is
symbolically executed on a REAL annotated function object (typing.get_type_hints / inspect.signature /
typing_inspect run natively on concrete annotations; pandera.typing.AnnotationInfo is interpreted from its live source)
and the resulting wrapper is then called on a symbolic argument frame.

Assumed contracts on callees outside C17 (stated, not proved here):
  * `Model.to_schema()` returns the (cached) schema object of the model: the same object on every call (C16);
  * `schema.validate` : S-callback (contracts/C17_decorators.SchemaVal);
  * `SchemaErrors.__init__(schema, schema_errors, data)` REQUIRES `schema_errors` to be a list of SchemaError
    (it iterates it to build the failure-case report) and stores its arguments;
  * a frame carries the schema it was last validated with in `frame.pandera.schema` (None if never validated); equality
    of two distinct schema objects is an arbitrary truth value.
Domain: with_pydantic=False; models without from_format/to_format; annotated arguments are data-frame objects (not python
builtins - for builtins `_check_arg` documents a pass-through), or None for Optional annotations.
"""
import typing

import pandas as pd
import z3

import pandera as pa
from pandera.api.dataframe.model import DataFrameModel
from pandera.errors import SchemaError, SchemaErrors
from pandera.typing import DataFrame
from pyvc import core, types as T
from pyvc.core import And, Iff, Implies, Not, Or, PyExc, SAny, SBool, cur, py_eq
from pyvc.heap import DictObj, ListObj, Obj
from pyvc.interp import OtherException
from pyvc.spec import Contract
from pyvc.theories import pyfunc as PF
from contracts.C17_decorators import (Frame, SchemaVal, bound_equals, choose_call_shape, fresh_options, label, options_forwarded,
                                      parse_shape, same, validate_calls)

DEC = "pandera.decorators"


class M1(pa.DataFrameModel):
    a: int


class M2(pa.DataFrameModel):
    b: int


MODELS = {"M1": M1, "M2": M2}
DF1, DF2 = DataFrame[M1], DataFrame[M2]

# shape -> annotations (python objects); "return" may be annotated too
TYPE_SHAPES = {
    "f(a,b)|a:M1": {"a": DF1},
    "f(a,b)|a:M1,b:M2,return:M1": {"a": DF1, "b": DF2, "return": DF1},
    "f(a,b=_D)|a:int,b:M2": {"a": int, "b": DF2},
    "m(self,a,b=_D)|a:Optional[M1]": {"a": typing.Optional[DF1]},
    "m(cls,a)|a:M1,return:M2": {"a": DF1, "return": DF2},
    "f(a)|a:Union[M1,M2]": {"a": typing.Union[DF1, DF2]},
    # None may stand anywhere in a Union (typing keeps the order it is written in): the models it names are designated all the same
    "f(a)|a:Union[None,M1]": {"a": typing.Union[None, DF1]},
    "f(a)|a:Union[M1,M2,None]": {"a": typing.Union[DF1, DF2, None]},
    "f(a,*rest)|a:M1,rest:M2": {"a": DF1, "rest": DF2},
    "f(a,**kw)|kw:M1": {"kw": DF1},
    "async f(a)|a:M1,return:M2": {"a": DF1, "return": DF2},
    # postponed evaluation of annotations (`from __future__ import annotations`, forward references): the annotations are STRINGS that
    # typing.get_type_hints resolves in the function's globals - they designate the same models
    "f(a,b)|a:'M1',return:'M2'": {"a": "DF1", "return": "DF2"},
}
STRING_NS = {"DF1": DF1, "DF2": DF2}


class NonPandasFrame:
    """stands for a data-frame class other than pandas.DataFrame (polars, dask, modin, ...)"""


class Accessor:
    def __init__(self, schema):
        self.schema = schema


class DataVal:
    """a data-frame object: opaque, carries the schema of its last validation in `.pandera.schema`"""

    __pyvc_symbolic__ = True
    extra_attrs = ("pandera",)

    def __init__(self, name, carried, cls=pd.DataFrame):
        self.name = name
        self.pandera = Accessor(carried)
        self.cls = cls

    def pyvc_class(self):
        return self.cls

    def __hash__(self):
        return id(self)

    def __eq__(self, o):
        return o is self

    def __repr__(self):
        return f"<frame {self.name}>"


def models_of(annotation):
    """the models an annotation designates, in order, and whether None is admitted"""
    if isinstance(annotation, str):
        annotation = STRING_NS[annotation]
    if annotation is DF1:
        return ["M1"], False
    if annotation is DF2:
        return ["M2"], False
    if annotation == typing.Optional[DF1]:
        return ["M1"], True
    if annotation == typing.Union[DF1, DF2]:
        return ["M1", "M2"], False
    if annotation == typing.Union[DF1, DF2, None]:
        return ["M1", "M2"], True
    return [], False


def fresh_data(name, model_names, optional, schemas, frame_cls=pd.DataFrame):
    """a value for a parameter annotated with `model_names`: None (Optional only) or a frame that carries no schema /
    the schema of one of the annotated models / some other schema"""
    p = cur()
    opts = (["None"] if optional else []) + ["fresh", "other"] + [f"carries_{m}" for m in model_names]
    k = opts[p.choose([(o, None) for o in opts], f"{name}")]
    if k == "None":
        return None
    carried = None if k == "fresh" else (SchemaVal(f"other_schema_of_{name}") if k == "other" else schemas[k[len("carries_"):]])
    return DataVal(name, carried, frame_cls)


class TypesSchema(SchemaVal):
    """validate's channel (C02): a rejection is a SchemaError when eager and a SchemaErrors REPORT when lazy=True"""

    EXC = (SchemaError, SchemaErrors, OtherException)

    def validate(self, *args, **kwargs):
        lazy = kwargs.get("lazy", args[5] if len(args) > 5 else False)
        is_lazy = cur().ghost["interp"].truth(lazy, "lazy") if not isinstance(lazy, bool) else lazy
        self.EXC = (SchemaErrors, OtherException) if is_lazy else (SchemaError, OtherException)
        try:
            return super().validate(*args, **kwargs)
        finally:
            self.EXC = TypesSchema.EXC


def install_models(I, schemas):
    def to_schema(I, cls, *a, **kw):
        for n, m in MODELS.items():
            if cls is m:
                return schemas[n]
        raise core.Unsupported(f"to_schema of {cls}")

    I.models[id(DataFrameModel.to_schema.__func__)] = to_schema

    def schema_errors_init(I, self_obj, schema=None, schema_errors=None, data=None):
        ok = isinstance(schema_errors, (list, ListObj)) and all(isinstance(e, Obj) and e.cls is SchemaError for e in schema_errors)
        cur().check(ok, f"{DEC}:check_types/pre@SchemaErrors.schema_errors_is_a_list_of_SchemaError",
                    note=f"schema_errors={type(schema_errors).__name__}")
        self_obj.attrs.update(schema=schema, schema_errors=schema_errors, data=data, args=())
        return None

    I.models[id(SchemaErrors.__init__)] = schema_errors_init


def expected_for(value, model_names, schemas):
    """what validation the property demands for one argument value:
    -> list of (schema, must_validate: bool/SBool) in order, i.e. model i is tried iff all earlier ones failed"""
    if not isinstance(value, DataVal):
        return []
    return [(schemas[m], Not(py_eq(value.pandera.schema, schemas[m])) if value.pandera.schema is not None else True) for m in model_names]


class CheckTypes(Contract):
    """check_types(fn, head, ..., inplace)(*args, **kwargs):

    gate        : every argument whose annotation names a model (DataFrame[M], Optional[...] with a non-None value,
                  Union[...] alternatives in order, *args / **kwargs elements) is validated by M.to_schema() with the
                  decorator's options - exactly once, and skipped only if the frame already carries an EQUAL schema;
                  arguments without such an annotation are never validated; the body runs iff every such argument was
                  accepted (for a Union: by the first alternative that accepts it);
    parsed      : the body receives the validated objects in the same parameters, every other argument unchanged;
    transparent : the result is the body's result, validated the same way against the return annotation; the body's
                  exception propagates itself; other exceptions are validation errors (SchemaError with decorator
                  context whose cause chain is validate's error; SchemaErrors when every Union alternative failed)."""

    target = f"{DEC}:check_types"
    split = {"shape": list(TYPE_SHAPES)}
    raises = (SchemaError, SchemaErrors, OtherException)
    max_paths = 20000

    def setup(self, I):
        PF.install(I)

    def make_args(self):
        p = cur()
        I = p.ghost["interp"]
        shape = self.arg("shape", None)
        label("shape", shape)
        sig_src, _ = shape.split("|")
        ann = TYPE_SHAPES[shape]
        name, params, names, is_async = parse_shape(sig_src)
        fn = PF.make_fn(name, params, is_async=is_async, annotations=ann, ns={"DF1": DF1, "DF2": DF2})
        schemas = {n: TypesSchema(f"schema_{n}") for n in MODELS}
        install_models(I, schemas)
        ret_models, _ = models_of(ann.get("return"))
        frame_cls = pd.DataFrame
        if "Union" in shape:
            frame_cls = [pd.DataFrame, NonPandasFrame][p.choose([("pandas", None), ("other", None)], "frame_class")]

        def result(n):
            if not ret_models:
                return SAny(name=n)
            return fresh_data("returned", ret_models, False, schemas)

        PF.install_fn(I, fn, result=result)
        annotated = [n for n in names if models_of(ann.get(n))[0]]
        passed = choose_call_shape(params, names, must_pass=set())
        frame = Frame(names, passed)
        spec = {}  # parameter (or element) -> (value, model_names)
        for n in list(frame.values):
            ms, optional = models_of(ann.get(n))
            if not ms:
                continue
            how = passed[n]
            if how == "star":
                # (the call shape passes two values to *args; one value alone is a shape of its own: the bundle then has as many
                # entries as there are bound names)
                nstar = 2 - p.choose([("two_star_values", None), ("one_star_value", None)], f"n_star({n})")
                vals = tuple(fresh_data(f"arg_{n}{i}", ms, optional, schemas, frame_cls) for i in range(nstar))
                frame.args = frame.args[:-2] + list(vals)
                frame.values[n] = vals
            elif how == "starkw":
                vals = {"extra_kw": fresh_data(f"arg_{n}_extra_kw", ms, optional, schemas, frame_cls)}
                frame.kwargs.update(vals)
                frame.values[n] = vals
            else:
                old = frame.values[n]
                new = fresh_data(f"arg_{n}", ms, optional, schemas, frame_cls)
                frame.values[n] = new
                frame.args = [new if x is old else x for x in frame.args]
                frame.kwargs = {k: (new if x is old else x) for k, x in frame.kwargs.items()}
        return dict(fn=fn, ann=ann, frame=frame, schemas=schemas, opts=fresh_options(), ret_models=ret_models)

    def call_target(self, I, fn, a):
        wrapper = I.call(fn, [a["fn"]], dict(a["opts"]))
        # whatever the decorator factory built (closure state, handlers, memo tables) is pre-existing state of every CALL: it must be
        # the same after the call as before it, on every exit (frame.preexisting_objects_unchanged) - no state carried between calls
        from pyvc.spec import freeze_heap

        freeze_heap(cur())
        return I.call(wrapper, list(a["frame"].args), dict(a["frame"].kwargs))

    # ---- specification ------------------------------------------------------------------------------
    def _elements(self, a):
        """[(parameter, key-or-None, value, model_names)] for every argument value of the call"""
        out = []
        for n, v in a["frame"].values.items():
            ms, _ = models_of(a["ann"].get(n))
            if isinstance(v, tuple):
                out += [(n, i, x, ms) for i, x in enumerate(v)]
            elif isinstance(v, dict):
                out += [(n, k, x, ms) for k, x in v.items()]
            else:
                out.append((n, None, v, ms))
        return out

    def _value_outcome(self, value, ms, schemas, out, tag, strict=True):
        """checks the validation history of one value; returns (accepted: bool, delivered object or None).
        strict: the value was delivered (to the body / to the caller), so 'not validated' must be justified by an equal
        carried schema; on paths that stop at an earlier rejection the remaining values need not have been looked at."""
        calls = [c for c in validate_calls() if c.obj is value]
        exp = expected_for(value, ms, schemas)
        if not exp:
            out[f"{tag}_unannotated_values_never_validated"] = And(out.get(f"{tag}_unannotated_values_never_validated", True), len(calls) == 0)
            return True, value
        i = 0
        for schema, must in exp:
            mine = [c for c in calls if c.schema is schema]
            skipped = not mine
            # skipped  <=>  the frame carries an equal schema
            out[f"{tag}_validated_unless_frame_carries_an_equal_schema"] = And(
                out.get(f"{tag}_validated_unless_frame_carries_an_equal_schema", True),
                Iff(skipped, Not(must)) if strict else Implies(Not(must), skipped), len(mine) <= 1)
            if skipped:
                return True, value
            out[f"{tag}_validate_receives_decorator_options"] = And(out.get(f"{tag}_validate_receives_decorator_options", True),
                                                                    options_forwarded(mine[0], self._opts))
            if mine[0].ret is not None:
                return True, mine[0].ret
            if mine[0].raised.cls not in (SchemaError, SchemaErrors):
                return False, None  # an unrelated exception of validate propagates at once
            # (a SchemaErrors report of a lazy validation is a REJECTION by this alternative like a SchemaError: the next one is tried)
            i += 1
        return False, None

    def _check(self, a, result_or_exc, raised):
        self._opts = a["opts"]
        schemas = a["schemas"]
        out = {}
        calls = PF.fn_calls(a["fn"])
        accepted_all = True
        expected = {}
        for n, key, v, ms in self._elements(a):
            acc, delivered = self._value_outcome(v, ms, schemas, out, "input", strict=len(calls) >= 1)
            accepted_all = accepted_all and acc
            if key is None:
                expected[n] = delivered
            elif isinstance(key, int):
                expected[n] = expected.get(n, ()) + (delivered,)
            else:
                expected.setdefault(n, {})[key] = delivered
        out["body_runs_iff_every_annotated_input_is_accepted"] = (len(calls) == 1) == accepted_all and len(calls) <= 1
        if len(calls) == 1 and accepted_all:
            out["body_receives_validated_objects_and_other_arguments_unchanged"] = bound_equals(calls[0].bound, expected)
        return out, calls, accepted_all

    def ensures(self, result, old, **a):
        out, calls, accepted = self._check(a, result, False)
        if len(calls) == 1 and calls[0].ret is not None:
            acc, delivered = self._value_outcome(calls[0].ret, a["ret_models"], a["schemas"], out, "output")
            out["caller_receives_the_validated_result"] = acc and result is delivered
        else:
            out["caller_receives_the_validated_result"] = False
        return out

    def on_raise(self, exc, old, **a):
        out, calls, accepted = self._check(a, exc, True)
        if exc.attrs.get("__from_fn__") is not None:
            out["propagates_the_body_exception_itself"] = len(calls) == 1 and exc is calls[0].raised
            return out
        failed = [c for c in validate_calls() if c.raised is not None]
        out["other_exceptions_come_from_validation"] = len(failed) >= 1
        if len(calls) == 1 and calls[0].ret is not None:
            acc, _ = self._value_outcome(calls[0].ret, a["ret_models"], a["schemas"], out, "output")
            out["raises_after_the_body_only_if_the_result_is_rejected"] = not acc
        if failed:
            last = failed[-1]
            if exc.cls is SchemaErrors and any(exc is c.raised for c in failed):
                # lazy=True: the report of a rejecting validation is handed to the caller as it is (for a Union: of one of its alternatives,
                # all of which were tried - see the gate clause)
                out["lazy_report_is_one_of_the_rejecting_validations_of_the_value"] = any(exc is c.raised for c in failed if c.obj is last.obj)
            elif exc.cls is SchemaErrors:
                errs = exc.attrs.get("schema_errors")
                out["schema_errors_reports_every_failed_alternative"] = isinstance(errs, (list, ListObj)) and len(errs) == len(
                    [c for c in failed if c.obj is last.obj]) and len(errs) > 1 and exc.attrs.get("data") is last.obj
            elif exc.cls is SchemaError:
                out["validation_error_is_propagated"] = exc is last.raised or (
                    exc.attrs.get("schema") is last.schema and exc.attrs.get("failure_cases") is last.raised.attrs.get("failure_cases")
                    and exc.attrs.get("check") is last.raised.attrs.get("check"))
            else:
                out["validation_error_is_propagated"] = exc is last.raised
        return out


CONTRACTS = [CheckTypes]
