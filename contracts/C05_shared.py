"""C05: contracts shared with C03/C04/C06: their frame obligation `preexisting_objects_unchanged` covers the schema graph."""
from contracts.C03_container_validate import ContainerValidate
from contracts.C03_series_validate import SeriesSchemaValidate
from contracts.C04_field_validate import ArrayValidate, IndexValidate
from contracts.C02_coerce_helper import CoerceDtypeHelper
from contracts.C06_run_checks import ArrayRunChecks, ColumnRunChecks, ContainerRunChecks

# MultiIndexValidate: own file (C05_multiindex_validate.py)
CONTRACTS = [ContainerValidate, SeriesSchemaValidate, ArrayValidate, IndexValidate, ArrayRunChecks, ColumnRunChecks, ContainerRunChecks, CoerceDtypeHelper]

# "Transforming methods return a new schema and leave the receiver unchanged": the frame obligation of every transformation (C15)
from contracts.C15_container import CONTRACTS as SCHEMA_OPS
from contracts.C15_components import CONTRACTS as COMPONENT_OPS  # (the callee contracts the schema operations are verified against)

CONTRACTS = list(CONTRACTS) + list(SCHEMA_OPS) + list(COMPONENT_OPS)
