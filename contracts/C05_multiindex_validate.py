"""C05 / C04 / C07 (pandas MultiIndex): MultiIndexBackend.validate works on a private copy of the schema.

MultiIndex validation re-uses the DataFrameSchema machinery: it switches coercion off, and - when the data's index has duplicated
level names - renames the level schemas, before handing a schema to DataFrameSchemaBackend.validate.  All of that must happen on a
deep copy: the MultiIndex schema the caller holds (stand-alone or as `DataFrameSchema.index`) is shared by every later validation
and by every thread.

  frame.preexisting_objects_unchanged          on EVERY exit (normal, SchemaError, SchemaErrors) no attribute of the schema, of its
                                               level schemas or of its column map differs from its entry value (C05)
  strict_frame.no_write_to_shared_state        not even temporarily (C07; checked under C07 with the strict frame)
  post.container_validation_gets_a_private_non_coercing_copy   the schema handed on is fresh, has coerce False on itself and on every level
  post.callers_data_untouched_unless_inplace   index coercion is assigned on a copy unless inplace (C04)
  post.returns_the_checked_object / exit.schema_errors_rewritten_for_the_multiindex

For all coerce flags, lazy / inplace values, outcomes of the container validation, over index-name layouts with 2 levels
(unnamed, distinct names, duplicated names, one name missing).
"""
from pandera.api.pandas.components import Column, Index, MultiIndex
from pandera.errors import SchemaError, SchemaErrors
from pyvc import core, types as T
from pyvc.core import PyExc, SAny, cur
from pyvc.heap import DictObj, ListObj, Obj
from pyvc.interp import OtherException
from pyvc.spec import Contract
from pyvc.theories import pandas_lite as PL
from contracts.C05_component_restore import column_ref, dtype_ref, index_ref
from contracts.util import fld, fld0

MIB = "pandera.backends.pandas.components:MultiIndexBackend"
NAME_LAYOUTS = {"unnamed": [None, None], "distinct": ["a", "b"], "duplicated": ["a", "a"], "one_missing": ["a", None]}


class MIndex:
    __pyvc_symbolic__ = True

    def __init__(self, names, how="original"):
        self.names, self.how = list(names), how
        self.nlevels = len(names)


class MIData:
    """a DataFrame / Series with a MultiIndex, seen through identity, its index object and in-place writes"""

    __pyvc_symbolic__ = True

    def __init__(self, names, pre=True, name="check_obj"):
        self.index = MIndex(names)
        self.pre = pre
        self.name = name
        self.mutations = []

    def pyvc_class(self):
        import pandas as pd

        return pd.DataFrame

    def copy(self, deep=True):
        c = MIData(self.index.names, pre=False, name="copy")
        c.index = self.index
        return c

    def pyvc_setattr(self, I, name, value):
        if name == "index":
            self.mutations.append(("index", None))
            cur().event("data_write", self, "index")
            object.__setattr__(self, "index", value)
            return
        raise core.Unsupported(f"DataFrame.{name} = ...")


class MultiIndexValidate(Contract):
    target = f"{MIB}.validate"
    raises = (SchemaError, SchemaErrors)
    split = {"names": list(NAME_LAYOUTS), "lazy": [True, False], "inplace": [True, False]}

    def setup(self, I):
        PL.install(I)
        from pandera.backends.pandas.components import MultiIndexBackend as B
        from pandera.backends.pandas.container import DataFrameSchemaBackend as DFB

        def coerce_index(I, self_obj, check_obj, schema, lazy):
            k = cur().choose([("returns", None), ("SchemaErrors", None)], "coerce_index")
            if k == 1:
                raise PyExc(I.make_exc(SchemaErrors))
            return MIndex(check_obj.index.names, "coerced")

        I.models[id(getattr(B, "_MultiIndexBackend__coerce_index"))] = coerce_index
        I.models[id(getattr(B, "_MultiIndexBackend__to_dataframe"))] = lambda I, self_obj, mi: PL.FrameVal.fresh("index_as_frame", pre=False)

        def container_validate(I, self_obj, check_obj, schema, **kw):
            p = cur()
            p.ghost["handed_on"] = (check_obj, schema, kw)
            # snapshot of what the container validation is given (it reads coerce flags and the column map)
            lv = I.getattr(schema, "indexes")
            p.ghost["handed_on_flags"] = (I.getattr(schema, "_coerce") if isinstance(schema, Obj) else None, [I.getattr(ix, "coerce") for ix in lv])
            k = p.choose([("returns", None), ("SchemaError", None), ("SchemaErrors", None)], "container.validate")
            if k == 1:
                raise PyExc(I.make_exc(SchemaError))
            if k == 2:
                e = I.make_exc(SchemaErrors)
                e.attrs["schema_errors"] = ListObj()
                raise PyExc(e)
            return PL.FrameVal.fresh("validated_index_frame", pre=False)

        I.models[id(DFB.validate)] = container_validate

    def make_args(self):
        from pandera.backends.pandas.components import MultiIndexBackend as B

        names = NAME_LAYOUTS[self.fixed.get("names", "distinct")]
        schema = T.Ref(MultiIndex, _dtype=T.Opt(dtype_ref()), _coerce=T.Bool, name=T.Opt(T.Label)).fresh("schema")
        lv = ListObj([index_ref().fresh("schema.indexes[0]"), index_ref().fresh("schema.indexes[1]")])
        cols = DictObj()
        for k, key in enumerate(["lvl0", 1]):
            dict.__setitem__(cols, key, column_ref().fresh(f"schema.columns[{key!r}]"))
        cols.pre = True
        cols.name = "schema.columns"
        lv.pre = True
        lv.name = "schema.indexes"
        for a, v in (("indexes", lv), ("columns", cols)):
            schema.attrs[a] = v
            schema.attrs0[a] = v
        data = MIData(names)
        cur().ghost.setdefault("data_objects", []).append(data)
        cur().ghost["levels"] = lv
        return {"self": T.Ref(B).fresh("self"), "check_obj": data, "schema": schema, "lazy": self.arg("lazy", T.Bool),
                "inplace": self.arg("inplace", T.Bool), "head": SAny(name="head"), "tail": SAny(name="tail"), "sample": SAny(name="sample"),
                "random_state": SAny(name="random_state")}

    def call_target(self, I, fn, a):
        return I.call(fn, [a["self"], a["check_obj"], a["schema"]],
                      {k: a[k] for k in ("head", "tail", "sample", "random_state", "lazy", "inplace")})

    def modifies(self, self_, check_obj, schema, lazy, inplace, **kw):
        return [(check_obj, "data")] if inplace is True else []

    def ensures(self, result, old, self_, check_obj, schema, lazy, inplace, **kw):
        p = cur()
        out = {}
        h = p.ghost.get("handed_on")
        out["container_validation_ran"] = h is not None
        if h is not None:
            _, s2, ckw = h
            out["container_validation_gets_a_private_copy"] = isinstance(s2, Obj) and s2 is not schema and s2.pre is False
            flags = p.ghost.get("handed_on_flags")
            out["container_validation_gets_a_non_coercing_schema"] = flags is not None and flags[0] is False and all(f is False for f in flags[1])
            out["options_forwarded"] = all(ckw.get(o) is kw[o] for o in ("head", "tail", "sample", "random_state")) and ckw.get("lazy") is lazy and ckw.get("inplace") is inplace
        if inplace is True:
            out["returns_the_callers_object_when_inplace"] = result is check_obj
        else:
            out["callers_data_untouched_unless_inplace"] = result is not check_obj and not check_obj.mutations
        return out

    def on_raise(self, exc, old, self_, check_obj, schema, lazy, inplace, **kw):
        out = {}
        if inplace is not True:
            out["callers_data_untouched_unless_inplace"] = not check_obj.mutations
        if exc.cls is SchemaErrors and "schema" in exc.attrs:
            out["schema_errors_name_the_callers_schema"] = exc.attrs.get("schema") is schema
        return out

    def concretize(self, rec):
        def thunk():
            import copy
            import warnings

            import pandas as pd
            import pandera as pa

            warnings.simplefilter("ignore")
            obs, bad = {}, False
            for label, mk, names in (
                ("duplicated level names", lambda: pa.MultiIndex([pa.Index(int, name="a"), pa.Index(int)]), ["a", "a", None]),
                ("coercing level", lambda: pa.MultiIndex([pa.Index(int, name="a", coerce=True), pa.Index(int, name="b")]), ["a", "b"]),
                ("plain", lambda: pa.MultiIndex([pa.Index(int, name="a"), pa.Index(int, name="b")]), ["a", "b"]),
            ):
                schema = mk()
                snap = copy.deepcopy(schema)
                n = len(names)
                idx = pd.MultiIndex.from_arrays([[1, 2]] * n, names=names)
                df = pd.DataFrame({"x": [1, 2]}, index=idx)
                try:
                    schema.validate(df)
                except (pa.errors.SchemaError, pa.errors.SchemaErrors):
                    pass
                same = schema == snap and list(schema.columns) == list(snap.columns) and [i.coerce for i in schema.indexes] == [i.coerce for i in snap.indexes] and schema._coerce == snap._coerce
                if not same:
                    bad = True
                    obs[label] = {"columns before": list(snap.columns), "columns after": list(schema.columns), "_coerce before/after": [snap._coerce, schema._coerce]}
            return bad, obs or "MultiIndex schemas equal their snapshots after validation"

        return thunk


CONTRACTS = [MultiIndexValidate]


# ---------------------------------------------------------------------------------------------------------
# MultiIndexBackend.coerce_dtype: the coerced MultiIndex has the DATA's levels, in the data's order
# ---------------------------------------------------------------------------------------------------------
class LevelArray:
    __pyvc_symbolic__ = True

    def __init__(self, level, coerced_by=None):
        self.level, self.coerced_by = level, coerced_by

    @property
    def array(self):
        return self

    def to_numpy(self, *a, **k):
        return self

    def pyvc_class(self):
        import pandas as pd

        return pd.Index


class MIndexData:
    """a pd.MultiIndex seen through its level names and get_level_values(i)"""

    __pyvc_symbolic__ = True

    def __init__(self, names):
        self.names = list(names)
        self.levels_read = []

    def pyvc_class(self):
        import pandas as pd

        return pd.MultiIndex

    def get_level_values(self, i):
        self.levels_read.append(i)
        return LevelArray(i)


COERCE_LAYOUTS = {"data_order": ["a", "b"], "swapped": ["b", "a"], "unnamed": [None, None], "three_levels_rotated": ["c", "a", "b"]}


class MultiIndexCoerceDtype(Contract):
    """coerce_dtype(multi_index, schema): level k of the result is level k of the DATA (coerced by the Index schema that names it, or as
    it is), whatever the order in which the schema declares its Index components (`ordered=False`); names are the data's names; a failed
    coercion of any level is reported as SchemaErrors.  Layouts: data levels in declaration order / swapped / unnamed / three rotated."""

    target = f"{MIB}.coerce_dtype"
    raises = (SchemaErrors,)
    check_frame = False
    split = {"layout": list(COERCE_LAYOUTS)}

    def setup(self, I):
        PL.install(I)
        import pandas as pd
        from pandera.api.dataframe.components import ComponentSchema

        def coerce(I_, self_obj, arr):
            p = cur()
            k = p.choose([("coerced", None), ("SchemaError", None)], f"coerce_dtype(level {arr.level})")
            if k == 1:
                p.ghost["level_failed"] = True
                raise PyExc(I_.make_exc(SchemaError))
            return LevelArray(arr.level, coerced_by=fld(self_obj, "name"))

        I.models[id(ComponentSchema.coerce_dtype)] = coerce

        def from_arrays(I_, *args, names=None, **kw):
            arrays = args[-1]  # (called as a bound classmethod: the class may come first)
            cur().ghost["built"] = (list(arrays), names)
            return SAny(name="coerced_multiindex")

        # (keyed by the underlying function: a bound-method object is a temporary whose id may be re-used by any other object)
        I.models[id(pd.MultiIndex.__dict__["from_arrays"].__func__)] = from_arrays

    def make_args(self):
        from pandera.backends.pandas.components import MultiIndexBackend as B

        names = COERCE_LAYOUTS[self.fixed.get("layout", "data_order")]
        decl = ["a", "b", "c"][: len(names)]
        unnamed = all(n is None for n in names)
        lv = ListObj()
        for k, nm in enumerate(decl):
            ix = index_ref().fresh(f"schema.indexes[{k}]")
            ix.attrs["name"] = None if unnamed else nm
            ix.attrs0["name"] = ix.attrs["name"]
            lv.append(ix)
        lv.pre = True
        schema = T.Ref(MultiIndex, _coerce=T.Bool).fresh("schema")
        for a, v in (("indexes", lv), ("names", [fld(i, "name") for i in lv])):
            schema.attrs[a] = v
            schema.attrs0[a] = v
        data = MIndexData(names)
        cur().ghost.update(names=names, decl=decl, levels=lv)
        return {"self": T.Ref(B).fresh("self"), "check_obj": data, "schema": schema}

    def call_target(self, I, fn, a):
        return I.call(fn, [a["self"], a["check_obj"]], {"schema": a["schema"]})

    def ensures(self, result, old, self_, check_obj, schema):
        g = cur().ghost
        built = g.get("built")
        if built is None:
            # no coercion requested: the index is returned as it is
            return {"without_coercion_the_index_itself": result is check_obj}
        arrays, names = built
        n = len(g["names"])
        out = {"one_array_per_data_level": len(arrays) == n and all(isinstance(a, LevelArray) for a in arrays)}
        if out["one_array_per_data_level"]:
            out["level_k_of_the_result_is_level_k_of_the_data"] = [a.level for a in arrays] == list(range(n))
            want = {k: (g["names"][k] if g["names"][k] is not None else None) for k in range(n)}
            out["each_level_coerced_only_by_the_index_schema_that_names_it"] = all(a.coerced_by is None or a.coerced_by == want[a.level] for a in arrays)
        out["names_are_the_datas_names"] = names is check_obj.names
        out["returns_only_when_every_level_coerced"] = not g.get("level_failed", False)
        return out

    def on_raise(self, exc, old, self_, check_obj, schema):
        return {"schema_errors_only_for_a_failed_level_coercion": cur().ghost.get("level_failed", False) is True and exc.attrs.get("data") is check_obj}


CONTRACTS.append(MultiIndexCoerceDtype)
