"""C02 / C20 / C06 (polars column back end): ColumnBackend.run_checks_and_handle_errors.

    post.every_core_check_sees_the_subsample          check_nullable, check_unique, check_dtype, run_checks - in that order - all get
                                                      (subsample(check_obj, head, tail, sample, random_state), schema)
    post.subsample_taken_from_the_object_with_the_callers_options
    post.one_offer_per_failing_result_in_order        every failing core result is offered to the handler exactly once, in order, as the
                                                      SchemaError it wraps or as a SchemaError carrying its fields; passing results are not offered
    exit.eager_raises_the_first_failure
For every outcome of every core check (none / one / two failing results) and both handler modes.
"""
from pandera.api.base.error_handler import ErrorHandler
from pandera.backends.base import CoreCheckResult
from pandera.errors import SchemaError, SchemaErrorReason
from pandera.validation_depth import VALIDATION_DEPTH_ERROR_CODE_MAP
from pyvc import core, types as T
from pyvc.core import PyExc, SAny, cur
from pyvc.heap import ListObj, Obj
from pyvc.interp import OtherException
from pyvc.spec import Contract
from contracts.util import fld, fld0

COLP = "pandera.backends.polars.components:ColumnBackend"
CHECKS = ["check_nullable", "check_unique", "check_dtype", "run_checks"]
REASON = {"check_nullable": SchemaErrorReason.SERIES_CONTAINS_NULLS, "check_unique": SchemaErrorReason.SERIES_CONTAINS_DUPLICATES,
          "check_dtype": SchemaErrorReason.WRONG_DATATYPE, "run_checks": SchemaErrorReason.DATAFRAME_CHECK}


class PolarsColumnCollect(Contract):
    target = f"{COLP}.run_checks_and_handle_errors"
    raises = (SchemaError,)
    check_frame = False
    split = {"lazy": [True, False]}
    max_paths = 20000

    def setup(self, I):
        from pandera.api.base.error_handler import ErrorHandler as EH
        from pandera.backends.polars.components import ColumnBackend as B

        def subsample(I, self_obj, check_obj, **kw):
            r = SAny(name="subsample")
            cur().ghost["subsampled"] = (check_obj, kw, r)
            return r

        I.models[id(B.subsample)] = subsample

        def check_model(name):
            def m(I, self_obj, *args):
                p = cur()
                p.ghost.setdefault("check_calls", []).append((name, args))
                k = p.choose([("passes", None), ("fails", None), ("two_failures", None)], name)
                if k == 0:
                    return ListObj([T.Ref(CoreCheckResult, strict=True, passed=T.Const(True), schema_error=T.Const(None)).fresh(f"{name}_ok")])

                def failure(tag):
                    r = T.Ref(CoreCheckResult, strict=True, passed=T.Const(False), check=T.Any, check_index=T.Any, check_output=T.Any,
                              reason_code=T.Const(REASON[name]), message=T.Any, failure_cases=T.Any, schema_error=T.Const(None), original_exc=T.Any).fresh(f"{name}_failure{tag}")
                    p.ghost.setdefault("failing", []).append(r)
                    return r

                return ListObj([failure("#0")] + ([failure("#1")] if k == 2 else []))

            return m

        for name in CHECKS:
            I.models[id(getattr(B, name))] = check_model(name)

        def collect_error(I, h, error_type, reason_code, schema_error, original_exc=None):
            p = cur()
            p.ghost.setdefault("offered", []).append((error_type, reason_code, schema_error, original_exc))
            if not I.truth(fld(h, "_lazy")):
                raise PyExc(schema_error)
            return None

        I.models[id(EH.collect_error)] = collect_error

    def make_args(self):
        from pandera.backends.polars.components import ColumnBackend as B

        h = T.Ref(ErrorHandler, _lazy=T.Const(self.fixed.get("lazy", True))).fresh("error_handler")
        a = {"self": T.Ref(B).fresh("self"), "error_handler": h, "schema": T.Ref(None, name=T.Any).fresh("schema"), "check_obj": SAny(name="check_obj")}
        for o in ("head", "tail", "sample", "random_state"):
            a[o] = SAny(name=o)
        return a

    def call_target(self, I, fn, a):
        return I.call(fn, [a["self"], a["error_handler"], a["schema"], a["check_obj"]], {o: a[o] for o in ("head", "tail", "sample", "random_state")})

    def _wiring(self, schema, check_obj, kw, complete):
        p = cur()
        sub = p.ghost.get("subsampled")
        cc = p.ghost.get("check_calls", [])
        out = {"subsample_taken_from_the_object_with_the_callers_options": sub is not None and sub[0] is check_obj and all(sub[1].get(o) is kw[o] for o in kw)}
        names = [c[0] for c in cc]
        out["core_checks_in_documented_order"] = names == (CHECKS if complete else CHECKS[: len(names)])
        out["every_core_check_sees_the_subsample"] = sub is not None and all(len(a) == 2 and a[0] is sub[2] and a[1] is schema for _, a in cc)
        return out

    def _report(self, schema, check_obj, complete):
        p = cur()
        offered = p.ghost.get("offered", [])
        failing = p.ghost.get("failing", [])
        out = {"one_offer_per_failing_result_in_order": len(offered) == len(failing) if complete else (len(offered) == 1 and len(failing) >= 1)}
        for n, (o, r) in enumerate(zip(offered, failing)):
            et, rc, err, oexc = o
            ok = (isinstance(err, Obj) and err.cls is SchemaError and err.attrs.get("schema") is schema and err.attrs.get("data") is check_obj
                  and err.attrs.get("failure_cases") is fld0(r, "failure_cases") and err.attrs.get("check") is fld0(r, "check")
                  and err.attrs.get("check_index") is fld0(r, "check_index") and err.attrs.get("check_output") is fld0(r, "check_output")
                  and err.attrs.get("reason_code") is fld0(r, "reason_code") and err.attrs.get("args") == (fld0(r, "message"),))
            out[f"offer_{n}_is_the_error_of_result_{n}"] = ok
            out[f"offer_{n}_classified_by_the_results_reason_code"] = rc is fld0(r, "reason_code") and et is VALIDATION_DEPTH_ERROR_CODE_MAP[fld0(r, "reason_code")] and oexc is fld0(r, "original_exc")
        return out

    def ensures(self, result, old, self_, error_handler, schema, check_obj, **kw):
        out = self._wiring(schema, check_obj, kw, True)
        out.update(self._report(schema, check_obj, True))
        out["returns_the_handler"] = result is error_handler
        out["returns_with_failures_only_when_lazy"] = not cur().ghost.get("failing") or self.fixed.get("lazy", True) is True
        return out

    def on_raise(self, exc, old, self_, error_handler, schema, check_obj, **kw):
        out = self._wiring(schema, check_obj, kw, False)
        out.update(self._report(schema, check_obj, False))
        out["eager_raises_the_first_failure"] = self.fixed.get("lazy", True) is False and len(cur().ghost.get("offered", [])) == 1 and exc is cur().ghost["offered"][0][2]
        return out


CONTRACTS = [PolarsColumnCollect]
