"""C03 bounded run-time contract (never counted as proof): the property itself on generated schemas / frames.

validate(S, D) = D'  =>  accept(strip(S), D')  and  validate(S, D') equals D'      (pandas DataFrameSchema)
Bound: <= 4 declared columns (int/float/str), each optionally required / nullable / default / coerce, schema-level
coerce / add_missing_columns / strict in {False, True, 'filter'} / ordered; frames <= 4 rows with columns missing, extra and
permuted.  Inputs in the class of an open finding (drop_invalid_rows with non-row errors) are not generated."""
import random
import warnings


def bounded_parse_postcondition(seed=0, tier="quick"):
    import pandas as pd
    import pandera as pa

    warnings.simplefilter("ignore")
    rng = random.Random(seed)
    n_cases = 250 if tier == "quick" else 4000
    names = ["a", "b", "c", "d"]
    done = 0
    for case in range(n_cases):
        k = rng.randint(1, 4)
        decl = rng.sample(names, k)
        cols = {}
        for c in decl:
            dt = rng.choice([int, float, str])
            default = rng.choice([None, None, {int: 0, float: 0.5, str: "z"}[dt]])
            cols[c] = dict(dtype=dt, required=rng.random() < 0.7, nullable=rng.random() < 0.4, default=default, coerce=rng.random() < 0.4)
        opts = dict(coerce=rng.random() < 0.3, add_missing_columns=rng.random() < 0.5, strict=rng.choice([False, False, True, "filter"]), ordered=rng.random() < 0.4)

        def build(strip=False):
            cc = {}
            for c, p in cols.items():
                kw = dict(p)
                dt = kw.pop("dtype")
                if strip:
                    kw["coerce"] = False
                    kw["default"] = None
                cc[c] = pa.Column(dt, **kw)
            o = dict(opts)
            if strip:
                o.update(coerce=False, add_missing_columns=False, strict=(True if opts["strict"] == "filter" else opts["strict"]))
            return pa.DataFrameSchema(cc, **o)

        present = [c for c in names if rng.random() < 0.75]
        rng.shuffle(present)
        nrows = rng.randint(0, 4)
        data = {}
        for c in present:
            dt = cols.get(c, {}).get("dtype", int)
            pool = {int: [1, 2, "3", None], float: [1.5, 2.0, "2.5", None], str: ["x", "y", None]}[dt]
            data[c] = [rng.choice(pool) for _ in range(nrows)]
        df = pd.DataFrame(data, columns=present)
        S = build()
        try:
            out = S.validate(df)
        except (pa.errors.SchemaError, pa.errors.SchemaErrors, pa.errors.SchemaDefinitionError):
            continue
        except Exception as e:  # noqa  (channel violations are C06's business; not counted here)
            continue
        done += 1
        desc = {"columns": {c: {**p, "dtype": p["dtype"].__name__} for c, p in cols.items()}, "options": opts, "frame": {c: [repr(v) for v in vs] for c, vs in data.items()},
                "frame_columns": present}
        try:
            build(strip=True).validate(out)
        except Exception as e:  # noqa
            return {"examples": case + 1, "bound": "<=4 columns, <=4 rows", "failing_input": desc,
                    "observed": f"returned object {list(out.columns)} rejected by the schema without parsing options: {type(e).__name__}: {str(e)[:200]}"}
        try:
            again = S.validate(out)
        except Exception as e:  # noqa
            return {"examples": case + 1, "bound": "<=4 columns, <=4 rows", "failing_input": desc,
                    "observed": f"re-validating the returned object raised {type(e).__name__}: {str(e)[:200]}"}
        if not again.equals(out):
            return {"examples": case + 1, "bound": "<=4 columns, <=4 rows", "failing_input": desc, "observed": "second validate changed the object"}
    return {"examples": n_cases, "returned": done, "bound": f"{n_cases} generated (schema, frame) pairs, <= 4 columns, <= 4 rows", "failing_input": None}


BOUNDED = [bounded_parse_postcondition]
