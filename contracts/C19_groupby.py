"""C19 (groupby option): the check function is handed exactly the groups of the grouping columns, restricted by `groups`.

groupby(check_obj)
    post.groups_are_pandas_groups_of_the_declared_columns   for a str / list `Check.groupby` the object is grouped by exactly those columns
        with pandas' default grouping options - any option changes WHICH groups exist or how they are keyed (observed drops the empty
        levels of a categorical key, dropna adds a NaN group, as_index / group_keys / level re-key them); `sort` is allowed;
    post.callable_groupby_is_applied_to_the_object
_format_groupby_input(groupby_obj, groups)                  (groupby object = its (key, group) pairs; <= 3 groups, 1- or 2-column keys, bool keys)
    post.without_groups_every_group_is_handed_over          keyed by the group key (1-tuples unwrapped)
    post.with_groups_exactly_the_requested_groups           values are the groups themselves, order of the groupby object
    exit.key_error_iff_a_requested_group_does_not_exist     (documented: a KeyError for unknown groups)
"""
import itertools

from pyvc import core, types as T
from pyvc.core import PyExc, SAny, cur
from pyvc.heap import DictObj, ListObj, Obj
from pyvc.interp import OtherException
from pyvc.spec import Contract

CB = "pandera.backends.pandas.checks:PandasCheckBackend"
ALLOWED_OPTIONS = {"sort"}


class Grouped:
    __pyvc_symbolic__ = True

    def __init__(self, owner, args, kwargs):
        self.owner, self.args, self.kwargs = owner, args, kwargs


class Data:
    __pyvc_symbolic__ = True

    def groupby(self, *args, **kwargs):
        g = Grouped(self, args, kwargs)
        cur().ghost["grouped"] = g
        return g


class GroupbyCall(Contract):
    target = f"{CB}.groupby"
    raises = (AssertionError, OtherException)
    check_frame = False
    split = {"by": ["str", "list", "callable"]}

    def make_args(self):
        import pandera.backends.pandas.checks as C
        from pyvc.values import SymCallable

        kind = self.fixed.get("by", "str")
        by = {"str": "key", "list": ["k1", "k2"], "callable": SymCallable("user_groupby", T.Any, True)}[kind]
        chk = T.Ref(None).fresh("check")
        chk.attrs["groupby"] = by
        chk.attrs0["groupby"] = by
        be = Obj(C.PandasCheckBackend, "backend", pre=True)
        be.attrs["check"] = chk
        be.attrs0["check"] = chk
        return {"self": be, "check_obj": Data()}

    def call_target(self, I, fn, a):
        return I.call(fn, [a["self"], a["check_obj"]], {})

    def ensures(self, result, old, self_, check_obj):
        by = self_.attrs["check"].attrs["groupby"]
        if isinstance(by, (str, list)):
            g = cur().ghost.get("grouped")
            return {"groups_are_pandas_groups_of_the_declared_columns": g is not None and result is g and g.owner is check_obj and len(g.args) == 1
                    and g.args[0] == by and set(g.kwargs) <= ALLOWED_OPTIONS}
        return {"callable_groupby_is_applied_to_the_object": len(by.calls) == 1 and by.calls[0][0] == (check_obj,)}

    def concretize(self, rec):
        def thunk():
            """a categorical grouping column with an unobserved level: the check must see that (empty) group as pandas' groupby yields it"""
            import warnings

            import pandas as pd
            import pandera as pa

            warnings.simplefilter("ignore")
            df = pd.DataFrame({"v": [1, 2], "k": pd.Categorical(["a", "a"], categories=["a", "b"])})
            seen = {}

            def fn(groups):
                seen.update({k: len(v) for k, v in groups.items()})
                return True

            pa.DataFrameSchema({"v": pa.Column(int, pa.Check(fn, groupby="k")), "k": pa.Column("category")}).validate(df)
            want = {k: len(v) for k, v in df.groupby("k")["v"]}
            return seen != want, {"groups handed to the check": seen, "pandas groupby('k')": want}

        return thunk


KEYS = [("a",), ("b",), ("a", "x"), True]


def layouts():
    out = []
    for n in range(0, 3):
        for ks in itertools.permutations(KEYS[:3], n):
            if len({len(k) for k in ks}) <= 1:
                out.append(list(ks))
    out.append([True, False])  # scalar keys: a single-column grouper given as a callable (`lambda df: df.groupby("flag")`)
    out.append([1, 2])
    out.append(["a", "bb"])
    return out


class _GroupLabels:
    """groupby.groups[key]: the index labels of the rows of one group"""

    __pyvc_symbolic__ = True

    def __init__(self, key):
        self.key = key


class _RowsCarryingTheLabelsOf:
    """data.loc[groupby.groups[key]]: every row whose label is one of the group's labels (a superset of the group under repeated labels)"""

    __pyvc_symbolic__ = True

    def __init__(self, key):
        self.key = key


class _GroupedData:
    __pyvc_symbolic__ = True

    @property
    def loc(self):
        return self

    def pyvc_getitem(self, I, k):
        if isinstance(k, _GroupLabels):
            return _RowsCarryingTheLabelsOf(k.key)
        raise core.Unsupported("grouped data .loc[...] with something other than a group's labels")


class FormatGroupbyInput(Contract):
    target = f"{CB}._format_groupby_input"
    raises = (KeyError,)
    check_frame = False
    split = {"layout": list(range(len(layouts()))), "groups": ["none", "first", "first+missing", "missing", "all"]}

    def make_args(self):
        ks = layouts()[self.fixed.get("layout", 0)]
        pairs = ListObj([(k, SAny(name=f"group[{k!r}]")) for k in ks])
        # the groupby object also offers `.groups` (key -> the LABELS of the group's rows) and `.obj` (the grouped data): selecting the
        # labels of a group out of the data gives every row that CARRIES one of those labels - the group itself only when labels are unique
        pairs.groups = DictObj({k: _GroupLabels(k) for k in ks})
        pairs.obj = _GroupedData()
        unwrapped = [k[0] if isinstance(k, tuple) and len(k) == 1 else k for k in ks]
        sel = self.fixed.get("groups", "none")
        groups = {"none": None, "first": unwrapped[:1], "first+missing": unwrapped[:1] + ["zz"], "missing": ["zz"], "all": list(unwrapped)}[sel]
        cur().ghost.update(pairs=pairs, unwrapped=unwrapped)
        return {"groupby_obj": pairs, "groups": None if groups is None else ListObj(groups)}

    def call_target(self, I, fn, a):
        return I.call(fn, [a["groupby_obj"], a["groups"]], {})

    def ensures(self, result, old, groupby_obj, groups):
        g = cur().ghost
        vals = [v for _, v in g["pairs"]]
        keys = g["unwrapped"]
        got = list(dict.items(result)) if isinstance(result, dict) else None
        if groups is None:
            return {"without_groups_every_group_is_handed_over": got is not None and [k for k, _ in got] == keys and all(a is b for (_, a), b in zip(got, vals))}
        want = [(k, v) for k, v in zip(keys, vals) if k in list(groups)]
        return {"with_groups_exactly_the_requested_groups": got is not None and [k for k, _ in got] == [k for k, _ in want] and all(a is b for (_, a), (_, b) in zip(got, want)),
                "returned_only_when_every_requested_group_exists": all(x in keys for x in groups)}

    def on_raise(self, exc, old, groupby_obj, groups):
        if exc.cls is not KeyError:
            return {}
        keys = cur().ghost["unwrapped"]
        return {"key_error_iff_a_requested_group_does_not_exist": groups is not None and any(x not in keys for x in groups)}

    def concretize(self, rec):
        def thunk():
            """a callable groupby whose keys are scalars (int / bool): the check must receive the groups, keyed by those scalars"""
            import warnings

            import pandas as pd
            import pandera as pa

            warnings.simplefilter("ignore")
            df = pd.DataFrame({"v": [1, 2, 3], "g": [1, 1, 2], "b": [True, False, True]})
            obs, bad = {}, False
            for col, groups, want in (("g", None, {1: [1, 2], 2: [3]}), ("g", [1], {1: [1, 2]}), ("b", [True], {True: [1, 3]})):
                seen = {}

                def fn(d, seen=seen):
                    seen.update({k: list(v) for k, v in d.items()})
                    return True

                schema = pa.DataFrameSchema({"v": pa.Column(int, pa.Check(fn, groupby=lambda d, col=col: d.groupby(col), groups=groups)), "g": pa.Column(int), "b": pa.Column(bool)})
                try:
                    schema.validate(df)
                    got = seen
                except (pa.errors.SchemaError, pa.errors.SchemaErrors) as e:
                    got = "check error: " + str(e)[:70].replace("\n", " ")
                if got != want:
                    bad = True
                    obs[f"groupby=lambda d: d.groupby({col!r}), groups={groups}"] = {"check received": got, "expected": want}
            # repeated row labels (frames concatenated without ignore_index): a requested group holds ITS rows only
            dup = pd.DataFrame({"v": [1, 2, 3, 4], "g": [1, 2, 1, 2], "b": [True] * 4}, index=[0, 0, 1, 1])
            for groups, want in ((None, {1: [1, 3], 2: [2, 4]}), ([1], {1: [1, 3]}), ([1, 2], {1: [1, 3], 2: [2, 4]})):
                seen = {}

                def fn2(d, seen=seen):
                    seen.update({k: list(v) for k, v in d.items()})
                    return True

                pa.DataFrameSchema({"v": pa.Column(int, pa.Check(fn2, groupby="g", groups=groups)), "g": pa.Column(int), "b": pa.Column(bool)}).validate(dup)
                if seen != want:
                    bad = True
                    obs[f"index [0,0,1,1], groupby='g', groups={groups}"] = {"check received": seen, "expected": want}
            return bad, obs or "scalar group keys are handed to the check"

        return thunk


class PreprocessGroupedKeyColumn(Contract):
    """preprocess_table_with_key with a `groupby`: the check function receives {group key: the key column of that group} - and with
    ignore_na=True "null elements ... are never shown to the function" in this option combination as in any other: each group's series
    comes without its nulls (a group whose values are all null is still a group, with no element).
        post.one_entry_per_group                    the keys _format_groupby_input hands over (its own contract), none lost
        post.group_rows                             ignore_na: the group's rows whose key-column value is not null; otherwise the group
        post.no_null_shown_when_ignore_na
    for all frames, <= 2 groups (arbitrary row sets), ignore_na symbolic."""

    target = f"{CB}.preprocess_table_with_key"
    check_frame = False

    def setup(self, I):
        import z3
        from pyvc.theories import pandas_lite as PL
        import pandera.backends.pandas.checks as C

        PL.install(I)

        class _GB:
            __pyvc_symbolic__ = True

            def __init__(self, of, key=None):
                self.of, self.key = of, key

            def pyvc_getitem(self, I_, k):
                return _GB(self.of, k)

        def groupby(I_, self_obj, check_obj):
            g = _GB(check_obj)
            cur().ghost["groupby_called_on"] = check_obj
            return g

        def fmt(I_, groupby_obj, groups):
            # (FormatGroupbyInput) the groups, keyed: here two groups "x" / "y", arbitrary row sets of the grouped object's key column
            p = cur()
            p.ghost["format_got"] = (groupby_obj, groups)
            frame, key = groupby_obj.of, groupby_obj.key
            col = frame.col_fn(key)
            out = DictObj()
            members = {}
            for name in ("x", "y"):
                f = z3.Function(p.fresh_name(f"in_group_{name}"), z3.IntSort(), z3.BoolSort())
                members[name] = f
                dict.__setitem__(out, name, col.derive(sel=(lambda f: lambda i: z3.And(frame._sel(i), f(i)))(f)))
            p.ghost["members"] = members
            return out

        I.models[id(C.PandasCheckBackend.groupby)] = groupby
        I.models[id(C.PandasCheckBackend._format_groupby_input)] = fmt

    def make_args(self):
        from contracts.C19_check_options import backend
        from pyvc.theories.pandas_lite import FrameVal

        return {"self": backend(groupby=T.Const("g"), groups=T.Const(None)).fresh("self"), "check_obj": FrameVal.fresh("check_obj"), "key": T.fresh_value(T.Label, "key")}

    def requires(self, self_, check_obj, key):
        return check_obj.has_col(key)

    def call_target(self, I, fn, a):
        return I.call(fn, [a["self"], a["check_obj"], a["key"]], {})

    def ensures(self, result, old, self_, check_obj, key):
        import z3
        from contracts.util import fld0
        from pyvc.core import SBool, py_eq
        from pyvc.theories.pandas_lite import SeriesVal

        g = cur().ghost
        ign = core.as_z3_bool(fld0(fld0(self_, "check"), "ignore_na"))
        col = check_obj.col_fn(key)
        items = list(dict.items(result)) if isinstance(result, dict) else None
        out = {"one_entry_per_group": items is not None and [k for k, _ in items] == ["x", "y"] and all(isinstance(v, SeriesVal) and v.space is check_obj.space for _, v in items),
               "grouped_the_object_itself": g.get("groupby_called_on") is check_obj}
        if not out["one_entry_per_group"]:
            return out
        i = z3.Int(cur().fresh_name("row"))
        core.register_model_var("row", i)
        for k, v in items:
            member = z3.And(check_obj.sel(i), g["members"][k](i))
            out[f"group_rows[{k}]"] = SBool(v.sel(i) == z3.If(ign, z3.And(member, z3.Not(col.null(i))), member))
            out[f"values_are_the_key_columns[{k}]"] = SBool(z3.Implies(v.sel(i), core.as_z3_bool(py_eq(v.at(i), col.at(i)))))
            out[f"no_null_shown_when_ignore_na[{k}]"] = SBool(z3.Implies(z3.And(ign, v.sel(i)), z3.Not(v.null(i))))
        return out

    def concretize(self, rec):
        def thunk():
            """Check(fn, groupby='g') under the default ignore_na=True: fn must not be shown the NaN"""
            import math
            import warnings

            import numpy as np
            import pandas as pd
            import pandera as pa

            warnings.simplefilter("ignore")
            seen = {}

            def fn(groups):
                seen.update({k: list(v) for k, v in groups.items()})
                return True

            df = pd.DataFrame({"a": [1.0, np.nan, 3.0, np.nan], "g": ["x", "x", "y", "z"]})
            pa.DataFrameSchema({"a": pa.Column(float, pa.Check(fn, groupby="g"), nullable=True), "g": pa.Column(str)}).validate(df)
            shown_null = {k: v for k, v in seen.items() if any(isinstance(x, float) and math.isnan(x) for x in v)}
            return bool(shown_null) or set(seen) != {"x", "y", "z"}, {"the check function received": {k: [repr(x) for x in v] for k, v in seen.items()}}

        return thunk


CONTRACTS = [GroupbyCall, FormatGroupbyInput, PreprocessGroupedKeyColumn]
