"""C19 (groupby option): the check function is handed exactly the groups of the grouping columns, restricted by `groups`.

groupby(check_obj)
    post.groups_are_pandas_groups_of_the_declared_columns   for a str / list `Check.groupby` the object is grouped by exactly those columns
        with pandas' default grouping options - any option changes WHICH groups exist or how they are keyed (observed drops the empty
        levels of a categorical key, dropna adds a NaN group, as_index / group_keys / level re-key them); `sort` is allowed;
    post.callable_groupby_is_applied_to_the_object
_format_groupby_input(groupby_obj, groups)                  (groupby object = its (key, group) pairs; <= 3 groups, 1- or 2-column keys, bool keys)
    post.without_groups_every_group_is_handed_over          keyed by the group key (1-tuples unwrapped)
    post.with_groups_exactly_the_requested_groups           values are the groups themselves, order of the groupby object
    exit.key_error_iff_a_requested_group_does_not_exist     (documented: a KeyError for unknown groups)
"""
import itertools

from pyvc import core, types as T
from pyvc.core import PyExc, SAny, cur
from pyvc.heap import DictObj, ListObj, Obj
from pyvc.interp import OtherException
from pyvc.spec import Contract

CB = "pandera.backends.pandas.checks:PandasCheckBackend"
ALLOWED_OPTIONS = {"sort"}


class Grouped:
    __pyvc_symbolic__ = True

    def __init__(self, owner, args, kwargs):
        self.owner, self.args, self.kwargs = owner, args, kwargs


class Data:
    __pyvc_symbolic__ = True

    def groupby(self, *args, **kwargs):
        g = Grouped(self, args, kwargs)
        cur().ghost["grouped"] = g
        return g


class GroupbyCall(Contract):
    target = f"{CB}.groupby"
    raises = (AssertionError, OtherException)
    check_frame = False
    split = {"by": ["str", "list", "callable"]}

    def make_args(self):
        import pandera.backends.pandas.checks as C
        from pyvc.values import SymCallable

        kind = self.fixed.get("by", "str")
        by = {"str": "key", "list": ["k1", "k2"], "callable": SymCallable("user_groupby", T.Any, True)}[kind]
        chk = T.Ref(None).fresh("check")
        chk.attrs["groupby"] = by
        chk.attrs0["groupby"] = by
        be = Obj(C.PandasCheckBackend, "backend", pre=True)
        be.attrs["check"] = chk
        be.attrs0["check"] = chk
        return {"self": be, "check_obj": Data()}

    def call_target(self, I, fn, a):
        return I.call(fn, [a["self"], a["check_obj"]], {})

    def ensures(self, result, old, self_, check_obj):
        by = self_.attrs["check"].attrs["groupby"]
        if isinstance(by, (str, list)):
            g = cur().ghost.get("grouped")
            return {"groups_are_pandas_groups_of_the_declared_columns": g is not None and result is g and g.owner is check_obj and len(g.args) == 1
                    and g.args[0] == by and set(g.kwargs) <= ALLOWED_OPTIONS}
        return {"callable_groupby_is_applied_to_the_object": len(by.calls) == 1 and by.calls[0][0] == (check_obj,)}

    def concretize(self, rec):
        def thunk():
            """a categorical grouping column with an unobserved level: the check must see that (empty) group as pandas' groupby yields it"""
            import warnings

            import pandas as pd
            import pandera as pa

            warnings.simplefilter("ignore")
            df = pd.DataFrame({"v": [1, 2], "k": pd.Categorical(["a", "a"], categories=["a", "b"])})
            seen = {}

            def fn(groups):
                seen.update({k: len(v) for k, v in groups.items()})
                return True

            pa.DataFrameSchema({"v": pa.Column(int, pa.Check(fn, groupby="k")), "k": pa.Column("category")}).validate(df)
            want = {k: len(v) for k, v in df.groupby("k")["v"]}
            return seen != want, {"groups handed to the check": seen, "pandas groupby('k')": want}

        return thunk


KEYS = [("a",), ("b",), ("a", "x"), True]


def layouts():
    out = []
    for n in range(0, 3):
        for ks in itertools.permutations(KEYS[:3], n):
            if len({len(k) for k in ks}) <= 1:
                out.append(list(ks))
    out.append([True, False])  # scalar keys: a single-column grouper given as a callable (`lambda df: df.groupby("flag")`)
    out.append([1, 2])
    out.append(["a", "bb"])
    return out


class FormatGroupbyInput(Contract):
    target = f"{CB}._format_groupby_input"
    raises = (KeyError,)
    check_frame = False
    split = {"layout": list(range(len(layouts()))), "groups": ["none", "first", "first+missing", "missing", "all"]}

    def make_args(self):
        ks = layouts()[self.fixed.get("layout", 0)]
        pairs = ListObj([(k, SAny(name=f"group[{k!r}]")) for k in ks])
        unwrapped = [k[0] if isinstance(k, tuple) and len(k) == 1 else k for k in ks]
        sel = self.fixed.get("groups", "none")
        groups = {"none": None, "first": unwrapped[:1], "first+missing": unwrapped[:1] + ["zz"], "missing": ["zz"], "all": list(unwrapped)}[sel]
        cur().ghost.update(pairs=pairs, unwrapped=unwrapped)
        return {"groupby_obj": pairs, "groups": None if groups is None else ListObj(groups)}

    def call_target(self, I, fn, a):
        return I.call(fn, [a["groupby_obj"], a["groups"]], {})

    def ensures(self, result, old, groupby_obj, groups):
        g = cur().ghost
        vals = [v for _, v in g["pairs"]]
        keys = g["unwrapped"]
        got = list(dict.items(result)) if isinstance(result, dict) else None
        if groups is None:
            return {"without_groups_every_group_is_handed_over": got is not None and [k for k, _ in got] == keys and all(a is b for (_, a), b in zip(got, vals))}
        want = [(k, v) for k, v in zip(keys, vals) if k in list(groups)]
        return {"with_groups_exactly_the_requested_groups": got is not None and [k for k, _ in got] == [k for k, _ in want] and all(a is b for (_, a), (_, b) in zip(got, want)),
                "returned_only_when_every_requested_group_exists": all(x in keys for x in groups)}

    def on_raise(self, exc, old, groupby_obj, groups):
        if exc.cls is not KeyError:
            return {}
        keys = cur().ghost["unwrapped"]
        return {"key_error_iff_a_requested_group_does_not_exist": groups is not None and any(x not in keys for x in groups)}

    def concretize(self, rec):
        def thunk():
            """a callable groupby whose keys are scalars (int / bool): the check must receive the groups, keyed by those scalars"""
            import warnings

            import pandas as pd
            import pandera as pa

            warnings.simplefilter("ignore")
            df = pd.DataFrame({"v": [1, 2, 3], "g": [1, 1, 2], "b": [True, False, True]})
            obs, bad = {}, False
            for col, groups, want in (("g", None, {1: [1, 2], 2: [3]}), ("g", [1], {1: [1, 2]}), ("b", [True], {True: [1, 3]})):
                seen = {}

                def fn(d, seen=seen):
                    seen.update({k: list(v) for k, v in d.items()})
                    return True

                schema = pa.DataFrameSchema({"v": pa.Column(int, pa.Check(fn, groupby=lambda d, col=col: d.groupby(col), groups=groups)), "g": pa.Column(int), "b": pa.Column(bool)})
                try:
                    schema.validate(df)
                    got = seen
                except (pa.errors.SchemaError, pa.errors.SchemaErrors) as e:
                    got = "check error: " + str(e)[:70].replace("\n", " ")
                if got != want:
                    bad = True
                    obs[f"groupby=lambda d: d.groupby({col!r}), groups={groups}"] = {"check received": got, "expected": want}
            return bad, obs or "scalar group keys are handed to the check"

        return thunk


CONTRACTS = [GroupbyCall, FormatGroupbyInput]
