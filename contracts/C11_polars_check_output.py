"""C11 / C19 / C08 (polars check back end): PolarsCheckBackend.postprocess_lazyframe_output - what a row-wise check REPORTS per row.

`drop_invalid_rows` keeps a row iff every collected check_output is true on it (PolarsDropInvalidRows, C11), the verdict is
`check_output.all()`, the failure cases are the rows where it is false.  With `ignore_na=True` (the default; docs: "null values will
be ignored when determining if a check passed or failed") a null output must therefore be turned into a PASS for that row - in the
column `check_output` itself, not only in the verdict (polars' all() skips nulls, so the verdict alone cannot tell) - for column
checks (key given) and for dataframe-level checks (key None) alike.

For all frames, all raw outputs (true / false / null per row), ignore_na, key in {None, 'a'}:
    post.ignore_na_leaves_no_null_output          ignore_na => no row of the reported check_output is null
    post.reported_output_is_raw_or_null           ignore_na => reported[i] == (raw[i] is null or raw[i]);  else reported[i] is raw[i]
    post.verdict_is_all_reported_outputs
    post.failure_cases_are_the_false_rows         (restricted to the key column for a column check)
Bounded stand-in (used when the body leaves the subset): the same contract at run time on the real method, 3-row frames over
{1, -1, null} x {x, null}, both keys, both ignore_na values, DataFrame-level and column-level check functions.
"""
import z3

from pyvc import core, types as T
from pyvc.core import And, Iff, Implies, Not, Or, SBool, cur, py_eq
from pyvc.heap import Obj
from pyvc.spec import Contract
from pyvc.theories import pandas_lite as PL
from pyvc.theories import polars_lite as PP
from contracts.util import fld, fld0

CB = "pandera.backends.polars.checks:PolarsCheckBackend"
KEY = PP.CHECK_OUTPUT_KEY


class PolarsPostprocessLazyframeOutput(Contract):
    target = f"{CB}.postprocess_lazyframe_output"
    check_frame = False
    split = {"key": ["none", "a"]}

    def setup(self, I):
        PL.install(I)
        PP.install(I)

    def make_args(self):
        import pandera.backends.polars.checks as LC
        from pandera.api.polars.types import PolarsData

        lf = PP.FrameP.fresh("lf", columns=("a", "b"), kinds={"a": "real", "b": "real"})
        raw = PP.FrameP.fresh("raw", columns=(KEY,), kinds={KEY: "bool"})
        raw = PP.FrameP(lf.space, raw.cols, kind="LazyFrame", name="check_output")  # one output per row of the checked frame
        data = Obj(PolarsData, "data", pre=True)
        key = None if self.fixed.get("key", "none") == "none" else "a"
        data.attrs.update(lazyframe=lf, key=key)
        data.attrs0.update(data.attrs)
        data.attrs["__fields__order"] = ("lazyframe", "key")
        be = Obj(LC.PolarsCheckBackend, "backend", pre=True)
        chk = T.Ref(None, ignore_na=T.Bool).fresh("check")
        be.attrs["check"] = chk
        be.attrs0["check"] = chk
        cur().ghost.update(lf=lf, raw=raw)
        return {"self": be, "check_obj": data, "check_output": raw}

    def call_target(self, I, fn, a):
        return I.call(fn, [a["self"], a["check_obj"], a["check_output"]], {})

    def ensures(self, result, old, self_, check_obj, check_output):
        g = cur().ghost
        lf, raw = g["lf"], g["raw"].cols[KEY]
        ign = fld0(fld0(self_, "check"), "ignore_na")
        rep_frame = result.attrs["check_output"]
        out = {"reports_one_output_column_over_the_same_rows": isinstance(rep_frame, PP.FrameP) and KEY in rep_frame.cols and rep_frame.space is lf.space}
        if not out["reports_one_output_column_over_the_same_rows"]:
            return out
        rep = rep_frame.cols[KEY]
        i = z3.Int(cur().fresh_name("row"))
        core.register_model_var("row", i)
        sel = lf.sel(i)
        ignz = core.as_z3_bool(ign)
        out["ignore_na_leaves_no_null_output"] = SBool(z3.Implies(z3.And(sel, ignz), z3.Not(rep.null(i))))
        rawv = core.as_z3_bool(raw.at(i))
        repv = core.as_z3_bool(rep.at(i))
        out["reported_output_is_raw_or_null"] = SBool(z3.Implies(sel, z3.If(ignz, repv == z3.Or(raw.null(i), rawv),
                                                                              z3.And(rep.null(i) == raw.null(i), z3.Implies(z3.Not(raw.null(i)), repv == rawv)))))
        passed = result.attrs["check_passed"]
        pv = passed.item() if isinstance(passed, PP.FrameP) else passed
        j = z3.Int(cur().fresh_name("j"))
        all_true = z3.ForAll([j], z3.Implies(z3.And(lf.sel(j), z3.Not(rep.null(j))), core.as_z3_bool(rep.at(j))))
        out["verdict_is_all_reported_outputs"] = Iff(pv, SBool(all_true))
        fc = result.attrs["failure_cases"]
        if isinstance(fc, PP.FrameP):
            out["failure_cases_are_the_false_rows"] = SBool(fc.sel(i) == z3.And(sel, z3.Not(rep.null(i)), z3.Not(repv)))
            out["failure_cases_restricted_to_the_checked_column"] = (list(fc.cols) == ["a"]) if fld0(check_obj, "key") is not None else ("a" in fc.cols and "b" in fc.cols)
        return out


def _standin(seed=0, tier="quick"):
    import itertools
    import warnings

    import polars as pl

    import pandera as pa
    import pandera.polars as pp
    from pandera.api.polars.types import PolarsData
    from pandera.backends.polars.checks import PolarsCheckBackend

    warnings.simplefilter("ignore")
    vals_a = [1, -1, None]
    vals_b = [5, None]
    examples = 0
    bound = "3-row frames over a in {1,-1,null}, b in {5,null}; key in {None,'a'}; ignore_na in {True,False}"
    for rows in itertools.product(itertools.product(vals_a, vals_b), repeat=3):
        lf = pl.LazyFrame({"a": [r[0] for r in rows], "b": [r[1] for r in rows]}, schema={"a": pl.Int64, "b": pl.Int64})
        for key, fn in ((None, lambda d: d.lazyframe.select((pl.col("a") > 0).alias(KEY))), ("a", lambda d: d.lazyframe.select((pl.col(d.key) > 0).alias(KEY)))):
            for ign in (True, False):
                examples += 1
                chk = pa.Check(fn, ignore_na=ign)
                be = PolarsCheckBackend(chk)
                raw = fn(PolarsData(lf, key))
                res = be.postprocess_lazyframe_output(PolarsData(lf, key), raw)
                got = res.check_output.collect().get_column(KEY).to_list()
                rawl = raw.collect().get_column(KEY).to_list()
                want = [(True if r is None else r) for r in rawl] if ign else rawl
                if got != want:
                    return {"examples": examples, "bound": bound, "failing_input": {"a": [r[0] for r in rows], "b": [r[1] for r in rows], "key": key, "ignore_na": ign},
                            "observed": {"reported check_output": got, "expected (null output passes under ignore_na)": want}}
    return {"examples": examples, "bound": bound, "failing_input": None}


PolarsPostprocessLazyframeOutput.bounded_standin = staticmethod(_standin)

CONTRACTS = [PolarsPostprocessLazyframeOutput]
