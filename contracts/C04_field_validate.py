"""C04 / C03 / C06 / C02 (pandas fields): ArraySchemaBackend.validate and IndexBackend.validate.

ArraySchemaBackend.validate (the contract the Column / Series / Index back ends rely on - see C05 `array_validate`):
  * copy-on-entry: with inplace=False every in-place write goes to a copy, the caller's object is untouched
  * lineage: default filling -> coercion -> user parsers -> checks; the checked object is the parsed one; it is returned
    (or its drop_invalid_rows image)
  * channel: SchemaError only when eager, SchemaErrors only when lazy and not dropping, SchemaDefinitionError for
    drop_invalid_rows without lazy, a user parser's own exception; never writes the schema
IndexBackend.validate: validates check_obj.index; with inplace=False the caller's object must not be written.
"""
from pandera.api.base.error_handler import ErrorHandler
from pandera.errors import SchemaDefinitionError, SchemaError, SchemaErrorReason, SchemaErrors
from pyvc import core, types as T
from pyvc.core import And, Iff, Implies, Not, Or, PyExc, SAny, SBool, cur, py_eq
from pyvc.heap import ListObj, Obj
from pyvc.interp import OtherException
from pyvc.spec import Contract
from pyvc.theories import pandas_lite as PL
from pyvc.theories.pandas_lite import FrameVal, SeriesVal
from contracts.util import fld, fld0
from contracts.C05_component_restore import install_handler_recorder

ARR = "pandera.backends.pandas.array:ArraySchemaBackend"
IDX = "pandera.backends.pandas.components:IndexBackend"


def field_schema(drop):
    return T.Ref(None, drop_invalid_rows=T.Const(drop), default=T.Opt(T.Any), coerce=T.Bool, name=T.Opt(T.Label), parsers=T.Any)


class ArrayValidate(Contract):
    target = f"{ARR}.validate"
    raises = (SchemaDefinitionError, SchemaError, SchemaErrors, OtherException)
    split = {"lazy": [True, False], "inplace": [True, False], "drop": [True, False]}

    def setup(self, I):
        PL.install(I)
        install_handler_recorder(I)
        from pandera.backends.pandas.array import ArraySchemaBackend as B

        def step(name, raises=()):
            def m(I, self_obj, *args, **kw):
                p = cur()
                obj = args[0] if name != "run_parsers" else args[1]
                if p.ghost.get("current") is None:
                    p.ghost["current"] = obj  # the preprocessed object (copy-on-entry is checked separately)
                p.ghost.setdefault("calls", []).append((name, obj, obj is p.ghost.get("current")))
                if raises:
                    k = p.choose([("returns", None)] + [(c.__name__, None) for c in raises], name)
                    if k > 0:
                        e = I.make_exc(raises[k - 1])
                        if raises[k - 1] is OtherException:
                            e.attrs["__from_callback__"] = ("parser", 0)
                        p.ghost.setdefault("step_errors", []).append((name, e))
                        raise PyExc(e)
                r = obj.derive()
                r.pre = False
                p.ghost.setdefault("data_objects", []).append(r)
                p.ghost["current"] = r
                return r

            return m

        I.models[id(B.set_default)] = step("set_default")
        I.models[id(B.coerce_dtype)] = step("coerce_dtype", (SchemaError,))
        I.models[id(B.run_parsers)] = step("run_parsers", (OtherException,))

        def rcahe(I, self_obj, error_handler, schema, check_obj, **kw):
            p = cur()
            p.ghost["checked"] = check_obj
            p.ghost["checked_is_current"] = check_obj is p.ghost.get("current")
            p.ghost["check_options"] = kw
            k = p.choose([("no_error", None), ("errors", None)], "core_checks")
            if k == 1:
                if not I.truth(fld(error_handler, "_lazy")):
                    raise PyExc(I.make_exc(SchemaError))
                for a in ("_schema_errors", "_collected_errors"):
                    fld(error_handler, a).append(SAny(name="core_check_error"))
                p.ghost["core_errors"] = True
            return error_handler

        I.models[id(B.run_checks_and_handle_errors)] = rcahe

        def drop(I, self_obj, check_obj, error_handler):
            p = cur()
            p.ghost["drop_called_with"] = check_obj
            r = check_obj.derive()
            r.pre = False
            p.ghost["dropped"] = r
            return r

        I.models[id(B.drop_invalid_rows)] = drop

    def make_args(self):
        from pandera.backends.pandas.array import ArraySchemaBackend as B

        k = cur().choose([("Series", None), ("DataFrame", None)], "kind(check_obj)")
        obj = SeriesVal.fresh("check_obj", "real") if k == 0 else FrameVal.fresh("check_obj")
        cur().ghost["current"] = None
        a = {"self": T.Ref(B).fresh("self"), "check_obj": obj, "schema": field_schema(self.fixed.get("drop", False)).fresh("schema"),
             "lazy": self.arg("lazy", T.Bool), "inplace": self.arg("inplace", T.Bool)}
        for o in ("head", "tail", "sample", "random_state"):
            a[o] = T.fresh_value(T.Any, o)
        return a

    def call_target(self, I, fn, a):
        cur().ghost["current"] = None
        return I.call(fn, [a["self"], a["check_obj"], a["schema"]], {k: a[k] for k in ("head", "tail", "sample", "random_state", "lazy", "inplace")})

    def requires(self, self_, check_obj, schema, **kw):
        # call-site precondition (ColumnBackend.validate evaluates check_obj[column_name] before delegating):
        # a table argument contains the column the schema names
        if isinstance(check_obj, FrameVal):
            nm = fld(schema, "name")
            return nm is not None and check_obj.has_col(nm)
        return True

    def modifies(self, self_, check_obj, schema, lazy, inplace, **kw):
        return [(check_obj, "data")] if inplace else []

    def ensures(self, result, old, self_, check_obj, schema, lazy, inplace, **kw):
        p = cur()
        calls = p.ghost.get("calls", [])
        names = [c[0] for c in calls]
        out = {"pipeline_order": [n for n in names if n != "set_default"] == ["coerce_dtype", "run_parsers"][-len([n for n in names if n != "set_default"]):] and
               names[-1:] == ["run_parsers"] and (names[:1] != ["set_default"] or fld0(schema, "default") is not None)}
        # every step after the first works on the previous step's result
        if isinstance(check_obj, SeriesVal):
            out["each_step_gets_the_previous_result"] = all(c[2] for c in calls[1:])
        out["checks_see_the_parsed_object"] = p.ghost.get("checked_is_current") is True
        opts = p.ghost.get("check_options", {})
        out["subsample_options_forwarded"] = all(opts.get(o) is kw[o] for o in ("head", "tail", "sample", "random_state"))
        if "drop_called_with" in p.ghost:
            out["drop_only_when_requested_and_lazy"] = fld0(schema, "drop_invalid_rows") is True and lazy is True
            out["returns_the_dropped_checked_object"] = result is p.ghost["dropped"] and p.ghost["drop_called_with"] is p.ghost["checked"]
        else:
            out["returns_the_checked_object"] = result is p.ghost.get("checked")
            out["returns_only_without_errors"] = not p.ghost.get("core_errors", False) and not [e for n, e in p.ghost.get("step_errors", [])]
        if not inplace:
            out["first_step_works_on_a_copy"] = len(calls) >= 1 and calls[0][1] is not check_obj
        return out

    def on_raise(self, exc, old, self_, check_obj, schema, lazy, inplace, **kw):
        drop = fld0(schema, "drop_invalid_rows")
        out = {}
        if exc.cls is SchemaDefinitionError:
            out["definition_error_only_for_drop_without_lazy"] = drop is True and lazy is False
        elif exc.cls is SchemaError:
            out["single_error_only_when_eager"] = lazy is False
        elif exc.cls is SchemaErrors:
            out["collected_errors_only_when_lazy_and_not_dropping"] = lazy is True and drop is not True
            h = [o for o in cur().objects if o.cls is ErrorHandler]
            out["carries_exactly_the_collected_errors"] = len(h) == 1 and exc.attrs.get("schema_errors") is fld(h[0], "_schema_errors")
            out["carries_the_checked_object"] = exc.attrs.get("data") is cur().ghost.get("checked")
        elif exc.cls is OtherException:
            out["foreign_exception_only_from_user_parser"] = exc.attrs.get("__from_callback__", (None,))[0] == "parser"
            # C06: whichever user callback fails - a parser function as well - the outcome stays in the documented channel
            # (SchemaError / SchemaErrors): the raw exception of a user parser is not in it
            out["a_raising_user_parser_is_reported_in_the_documented_channel"] = exc.attrs.get("__from_callback__", (None,))[0] != "parser"
        return out


class IndexValidate(Contract):
    """IndexBackend.validate(check_obj, schema, inplace): C04 - the caller's object is written only if inplace=True."""

    target = f"{IDX}.validate"
    raises = (SchemaError, SchemaErrors, SchemaDefinitionError, OtherException)
    split = {"lazy": [True, False], "inplace": [True, False]}

    def setup(self, I):
        PL.install(I)
        install_handler_recorder(I)
        from pandera.backends.pandas.array import ArraySchemaBackend as AB
        from pandera.api.dataframe.components import ComponentSchema

        def array_validate(I, self_obj, check_obj, schema, **kw):
            p = cur()
            p.ghost["index_series_validated"] = True
            p.ghost["handed_to_array_validation"] = (check_obj, schema, kw)
            lazy = kw.get("lazy", False)
            allowed = [("returns", None), ("OtherException", OtherException)] + ([("SchemaError", SchemaError)] if not lazy else [("SchemaErrors", SchemaErrors)])
            k = p.choose([(n, None) for n, _ in allowed], "array.validate")
            if k == 0:
                return SeriesVal.fresh("validated_index", "real")
            exc = I.make_exc(allowed[k][1])
            if allowed[k][1] in (SchemaError, SchemaErrors):
                # the failure cases of this error name the failing VALUES by the labels of the series that was validated
                p.ghost["index_error_labelled_by_positions"] = getattr(check_obj, "positional_labels_of", None) is not None
            raise PyExc(exc)

        I.models[id(AB.validate)] = array_validate

        def coerce(I, self_obj, idx):
            k = cur().choose([("ret", None), ("SchemaError", None)], "coerce_dtype")
            if k == 1:
                raise PyExc(I.make_exc(SchemaError))
            c = SAny(name="coerced_index")
            cur().ghost["coerced_index"] = c
            return c

        I.models[id(ComponentSchema.coerce_dtype)] = coerce
        # check_obj.index.to_series().reset_index(drop=True): the labels as a series (positional re-labelling)
        PL.IndexVal.to_series = lambda self: _IndexSeries(self)

    def make_args(self):
        from pandera.backends.pandas.components import IndexBackend as B
        from pandera.api.pandas.components import Index

        k = cur().choose([("DataFrame", None), ("Series", None)], "kind(check_obj)")
        obj = FrameVal.fresh("check_obj") if k == 0 else SeriesVal.fresh("check_obj", "real")
        a = {"self": T.Ref(B).fresh("self"), "check_obj": obj, "schema": T.Ref(Index, coerce=T.Bool, name=T.Opt(T.Label)).fresh("schema"),
             "lazy": self.arg("lazy", T.Bool), "inplace": self.arg("inplace", T.Bool)}
        for o in ("head", "tail", "sample", "random_state"):
            a[o] = SAny(name=o)
        return a

    def call_target(self, I, fn, a):
        return I.call(fn, [a["self"], a["check_obj"], a["schema"]], {k: a[k] for k in ("head", "tail", "sample", "random_state", "lazy", "inplace")})

    def modifies(self, self_, check_obj, schema, lazy, inplace, **kw):
        return [(check_obj, "data")] if inplace else []

    def ensures(self, result, old, self_, check_obj, schema, lazy, inplace, **kw):
        p = cur()
        out = {"index_was_validated": p.ghost.get("index_series_validated") is True,
               "same_kind": type(result) is type(check_obj)}
        if inplace:
            out["inplace_returns_the_object"] = result is check_obj
        if "coerced_index" in p.ghost:
            # C03 / C10: the parsed object carries the COERCED index - whatever the old one looks like (pandas Index.equals ignores the
            # dtype: 1 == 1.0), the values the schema's dtype check then sees must be the ones that are returned
            out["the_coerced_index_is_the_index_of_the_result"] = getattr(result, "index_override", None) is p.ghost["coerced_index"]
        h = p.ghost.get("handed_to_array_validation")
        if h is not None:
            obj, sch, ckw = h
            # C20: head/tail/sample select rows by POSITION; the pandas sub-sampling de-duplicates by label (proved correct for unique
            # labels only - PandasSubsample), so the index VALUES must be handed on under positional labels, never as their own labels
            out["index_values_handed_on_under_positional_labels"] = getattr(obj, "positional_labels_of", None) is not None
            out["validated_against_the_index_schema"] = sch is schema
            # C01: the dtype the schema is compared with is the dtype of the INDEX (a tz-aware DatetimeIndex is not datetime64[ns])
            out["index_values_are_validated_under_the_dtype_of_the_index"] = getattr(obj, "dtype_carried_over", None) is True
            out["subsampling_options_forwarded"] = all(ckw.get(o) is kw[o] for o in ("head", "tail", "sample", "random_state")) and ckw.get("lazy") is lazy
        return out

    def on_raise(self, exc, old, self_, check_obj, schema, lazy, inplace, **kw):
        if exc.cls not in (SchemaError, SchemaErrors):
            return {}
        pos = cur().ghost.get("index_error_labelled_by_positions")
        if pos is None:
            return {}
        # C11: drop_invalid_rows removes rows BY LABEL (failure_cases['index']); an error about index values that names them by position
        # makes it drop the rows that happen to carry those numbers as labels - and keep the invalid ones
        return {"index_errors_name_the_failing_rows_by_their_own_labels": pos is False}

    def concretize(self, rec):
        def thunk():
            """validating the first n / last n rows of an index = validating exactly those positions, also with repeated index values"""
            import warnings

            import pandas as pd
            import pandera as pa

            warnings.simplefilter("ignore")
            obs, bad = {}, False
            s = pd.Series([1, 2, 3, 4], index=[7, 7, 7, 8])
            schema = pa.SeriesSchema(int, index=pa.Index(int, unique=True))
            for opts in ({"head": 3}, {"tail": 3}, {"head": 4}, {}):
                try:
                    schema.validate(s, **opts)
                    got = "accept"
                except (pa.errors.SchemaError, pa.errors.SchemaErrors):
                    got = "reject"
                rows = s.head(opts["head"]) if "head" in opts else (s.tail(opts["tail"]) if "tail" in opts else s)
                want = "reject" if rows.index.duplicated().any() else "accept"
                if got != want:
                    bad = True
                    obs[f"index [7,7,7,8], Index(unique=True), options {opts}"] = f"{got}, validating those rows alone gives {want}"
            return bad, obs or "sub-sampled index validation agrees with validating the selected rows"

        def coerced_index():
            """Index(<numeric>, coerce=True) on an index of another numeric dtype with equal values: the result carries the coerced dtype"""
            import warnings

            import pandas as pd
            import pandera as pa

            warnings.simplefilter("ignore")
            obs, bad = {}, False
            for src, tgt in (("int64", "float64"), ("float64", "int64"), ("int32", "int64"), ("object", "int64")):
                s = pd.Series([1.0, 2.0], index=pd.Index([1, 2], dtype=src))
                out = pa.SeriesSchema(float, index=pa.Index(tgt, coerce=True)).validate(s)
                obs[f"{src} -> {tgt}"] = str(out.index.dtype)
                bad = bad or str(out.index.dtype) != tgt
            return bad, obs

        def index_dtype():
            """a time-zone-aware DatetimeIndex: a naive Index('datetime64[ns]') rejects it, Index(DatetimeTZDtype) accepts it"""
            import warnings

            import pandas as pd
            import pandera as pa

            warnings.simplefilter("ignore")
            ix = pd.DatetimeIndex(["2020-01-01", "2020-01-02"], tz="UTC")
            df = pd.DataFrame({"a": [1, 2]}, index=ix)
            obs, bad = {}, False
            for label, dt, want in (("Index('datetime64[ns]')", "datetime64[ns]", "rejects"), ("Index(DatetimeTZDtype(tz='UTC'))", pd.DatetimeTZDtype(tz="UTC"), "accepts")):
                try:
                    pa.DataFrameSchema({"a": pa.Column(int)}, index=pa.Index(dt)).validate(df)
                    got = "accepts"
                except (pa.errors.SchemaError, pa.errors.SchemaErrors):
                    got = "rejects"
                obs[label + " on a UTC index"] = got
                bad = bad or got != want
            return bad, obs

        oid = rec.get("oid") or ""
        return coerced_index if "the_coerced_index" in oid else (index_dtype if "dtype_of_the_index" in oid else thunk)


class _IndexSeries:
    __pyvc_symbolic__ = True

    def __init__(self, idx):
        self.idx = idx

    def reset_index(self, drop=False):
        s = SeriesVal.fresh("index_as_series", "real")
        s.dtype_carried_over = True  # Index.to_series keeps the dtype of the index (time zone, categories, nullable integers)
        if drop:
            s.positional_labels_of = self.idx  # labels 0..n-1: unique by construction
        return s


CONTRACTS = [ArrayValidate, IndexValidate]
