"""C07 (first use of a DataFrameModel from several threads): DataFrameModel.to_schema publishes only FINISHED objects.

`to_schema` stores its compilation results on the class (`__fields__`, `__checks__`, `__root_checks__`, `__parsers__`,
`__root_parsers__`, `__schema__`) and in MODEL_CACHE - process-wide state that `build_schema_` reads back and that the schema aliases
(`schema.checks is cls.__root_checks__`).  Two threads that use a model for the first time both compile it; that is harmless exactly
when each of them binds complete, equal values in single rebinds: a reader then sees either the old or the new complete value.  An
object that is changed in place AFTER it was bound to the class (append / extend / item assignment) is visible half-built to the
other thread, and an in-place extension can land on the OTHER thread's freshly bound list (duplicated checks in the cached schema).

For every model class (symbolic `cls`, collaborators as arbitrary callbacks), cached or not, with or without Config / extras:
    post.compiled_objects_are_not_changed_after_they_are_bound_to_the_class     no in-place write to an object after `cls.<attr> = object`
    post.each_compiled_attribute_is_bound_at_most_once                          no attribute of the class is rebound within one call
    post.the_cache_entry_is_written_at_most_once
(The functional contract of to_schema is C16's ToSchema; the strict frame cannot apply here: publishing IS the function's purpose.)
"""
from pyvc.core import cur
from contracts.C16_to_schema import COMPILED_ATTRS, CacheMap, ToSchema


class ToSchemaPublishesFinishedObjects(ToSchema):
    def ensures(self, result, old, cls):
        return self._publication(cls)

    def on_raise(self, exc, old, cls):
        return self._publication(cls)

    def _publication(self, cls):
        late = [e for e in cur().events if e[0] in ("published_container_write", "published_write")]
        cache = self._cache()
        out = {"compiled_objects_are_not_changed_after_they_are_bound_to_the_class": late == [],
               "each_compiled_attribute_is_bound_at_most_once": all(cls.writes.count(a) <= 1 for a in set(cls.writes)),
               "only_compiled_attributes_are_bound": set(cls.writes) <= set(COMPILED_ATTRS)}
        if isinstance(cache, CacheMap):
            out["the_cache_entry_is_written_at_most_once"] = len(cache.writes) <= 1
        return out


CONTRACTS = [ToSchemaPublishesFinishedObjects]
